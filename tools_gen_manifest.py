"""Regenerates MANIFEST.json from the table below (keeps it schema-valid)."""
import json, os, sys
HERE = os.path.dirname(os.path.abspath(__file__))
sys.path.insert(0, HERE)
from manifest_data import CHECKS, NOT_APPLICABLE, ENGINES, NOTES

BASE = json.load(open("/root/.vp/BASELINE.json"))
m = {
    "version": 1,
    "setup_cmd": "./check --compile",
    "hooks": {
        "guard": "THEOCHEM_GRID_VERIF",
        "enable": "none needed: the checks parse /repo/src/grid with ast and never import or run it; "
                  "no instrumentation exists, so there is nothing to enable",
        "baseline_off_cmd": BASE["cmd"].replace("--junitxml=<file>", "").strip(),
        "source_commits": [],
        "add_only": True,
    },
    "engines": ENGINES,
    "checks": [],
    "notes": NOTES,
    "not_applicable": NOT_APPLICABLE,
}
for c in CHECKS:
    pid = c["id"]
    m["checks"].append({
        "property_id": pid,
        "quick_cmd": f"./check {pid} --tier quick",
        "thorough_cmd": f"./check {pid} --tier thorough",
        "evidence_file": f"evidence/{pid}.json",
        "replay_cmd_template": "./check --explain {path}",
        "engine": c["engine"],
        "level_claimed": {"category": "other", "text": c["text"], "design_ref": c["design_ref"]},
        "level_note": c["note"],
        "technique": c["technique"],
    })
json.dump(m, open(os.path.join(HERE, "MANIFEST.json"), "w"), indent=1)
import jsonschema  # only in tooling venv; optional
