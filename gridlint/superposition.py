"""C17, rule S2.superposition-evaluated (E10): coulomb_potential is the weighted sum of the primitive potentials.

The function is evaluated over symbolic points, centres, coefficients and exponents with the two primitive
routines as uninterpreted functions GS(r, alpha, normalized), GP(r, alpha, normalized): the value at point n must be
    sum_k cs_k GS(|p_n - Rs_k|, as_k, flag) + sum_j cp_j GP(|p_n - Rp_j|, ap_j, flag)
with the caller's `normalized` flag handed to every primitive -- for s functions only (2 primitives) and for s and p
functions (2 + 3 primitives, so that a family enumerated through the other family's arrays is visible).
"""
from __future__ import annotations

import ast

from gridlint.core import AnalysisError


def rule_superposition_evaluated(rep, repo):
    import sympy as sp
    from gridlint import e10
    f = repo.module_func("coulomb", "coulomb_potential")
    if f is None:
        raise AnalysisError("anchor vanished: coulomb.coulomb_potential")
    here = f.loc()
    mod_funcs = {g.name: g.node for g in repo.funcs.values()
                 if g.module == "coulomb" and g.cls is None and g.parent is None and isinstance(g.node, ast.FunctionDef)}
    N = 2
    n = 0
    for with_p in (False, True):
        for flag in (True, False):
            P = e10._obj_array([[sp.Symbol(f"p{k}{c}", real=True) for c in range(3)] for k in range(N)])
            Ks, Kp = 2, 3
            Rs = e10._obj_array([[sp.Symbol(f"Rs{k}{c}", real=True) for c in range(3)] for k in range(Ks)])
            cs = e10.arr([sp.Symbol(f"cs{k}") for k in range(Ks)])
            as_ = e10.arr([sp.Symbol(f"as{k}", positive=True) for k in range(Ks)])
            Rp = e10._obj_array([[sp.Symbol(f"Rp{k}{c}", real=True) for c in range(3)] for k in range(Kp)])
            cp = e10.arr([sp.Symbol(f"cp{k}") for k in range(Kp)])
            ap = e10.arr([sp.Symbol(f"ap{k}", positive=True) for k in range(Kp)])

            def prim(name):
                def g(r, alpha, normalized=True, **kw):
                    tag = sp.Symbol("NORM") if normalized is True else sp.Symbol("RAW") if normalized is False else sp.Symbol("FLAG?")
                    return e10.arr([sp.Function(name)(x, alpha, tag) for x in list(r)])
                return g
            ext = {"coulomb_gaussian_s": prim("GS"), "coulomb_gaussian_p": prim("GP")}
            globs = {k: v for k, v in e10.module_globals_of(repo.modules["coulomb"].tree).items() if not isinstance(v, ast.ClassDef)}
            it = e10.Interp(mod_funcs, ext, module_globals=globs)
            kw = {"normalized": flag}
            if with_p:
                kw.update(centers_p=Rp, coeffs_p=cp, alphas_p=ap)
            try:
                V = it.call_def(f.node, [P, Rs, cs, as_], kw, {})
            except e10.Undecided as e:
                raise AnalysisError(f"coulomb.coulomb_potential is outside the fragment the symbolic array evaluator knows: {e}") from e
            except (IndexError, ValueError, TypeError, KeyError, AttributeError) as e:
                raise AnalysisError(f"coulomb.coulomb_potential: the evaluation over symbolic arrays failed ({type(e).__name__}: {e})") from e
            cfg = f"{'s and p' if with_p else 's only'}, normalized={flag}"
            if not hasattr(V, "shape") or V.shape != (N,):
                rep.violation("S2.superposition-evaluated", "coulomb.coulomb_potential", "shape",
                              f"{cfg}: the result has shape {getattr(V, 'shape', None)} for {N} points", here)
                continue
            tag = sp.Symbol("NORM") if flag else sp.Symbol("RAW")
            dist = lambda p_, c_: sp.sqrt(sum((p_[x] - c_[x]) ** 2 for x in range(3)))
            bad = False
            for k in range(N):
                want = sum(cs[j] * sp.Function("GS")(dist(P[k], Rs[j]), as_[j], tag) for j in range(Ks))
                if with_p:
                    want += sum(cp[j] * sp.Function("GP")(dist(P[k], Rp[j]), ap[j], tag) for j in range(Kp))
                n += 1
                if sp.expand(V[k] - want) != 0:
                    rep.violation("S2.superposition-evaluated", "coulomb.coulomb_potential", "p-family" if with_p else "s-family",
                                  f"{cfg}: the potential at a point is `{str(V[k])[:220]}`; expected every primitive of every family with "
                                  f"its own coefficient, exponent and centre and the caller's normalisation flag: `{str(want)[:220]}`", here)
                    bad = True
                    break
            if not bad:
                rep.ok("S2.superposition-evaluated", f"coulomb_potential[{cfg}]", here, "sum over all primitives of both families")
    rep.floor("S2 points", n, 8)
