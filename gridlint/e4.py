"""E4 -- literal tables and shipped data read as tables.

Constant folding is restricted to what the source spells out: dict/list displays of literals,
comprehensions over ``range`` with integer arithmetic, and the two dictionary inversion idioms.
Shipped ``.npz`` archives are never loaded as arrays: only member names and ``.npy`` headers
(shape, dtype) are read, plus small integer members that act as configuration tables.
"""
from __future__ import annotations

import ast
import json
import os
import struct
import zipfile

from gridlint.core import AnalysisError, norm


# ------------------------------------------------------------------------------ constant folding
class NotConstant(Exception):
    pass


def fold(node, env=None, mod_globals=None, depth=0):
    """Evaluate a literal expression (ints, floats, strings, tuples, lists, dicts, +-*/ ** //
    on numbers, comprehensions over range()/items() of folded tables)."""
    env = env or {}
    mod_globals = mod_globals or {}
    if depth > 20:
        raise NotConstant("too deep")
    f = lambda n, e=env: fold(n, e, mod_globals, depth + 1)  # noqa: E731
    if isinstance(node, ast.Constant):
        return node.value
    if isinstance(node, ast.Name):
        if node.id in env:
            return env[node.id]
        if node.id in mod_globals:
            return fold(mod_globals[node.id], {}, mod_globals, depth + 1)
        raise NotConstant(node.id)
    if isinstance(node, ast.UnaryOp) and isinstance(node.op, (ast.USub, ast.UAdd)):
        v = f(node.operand)
        return -v if isinstance(node.op, ast.USub) else v
    if isinstance(node, ast.BinOp):
        a, b = f(node.left), f(node.right)
        if not all(isinstance(x, (int, float)) and not isinstance(x, bool) for x in (a, b)):
            raise NotConstant("non-numeric binop")
        op = type(node.op)
        if op is ast.Add:
            return a + b
        if op is ast.Sub:
            return a - b
        if op is ast.Mult:
            return a * b
        if op is ast.Pow and isinstance(a, int) and isinstance(b, int) and 0 <= b <= 8:
            return a ** b
        if op is ast.FloorDiv and b:
            return a // b
        raise NotConstant("operator")
    if isinstance(node, ast.Tuple):
        return tuple(f(e) for e in node.elts)
    if isinstance(node, ast.List):
        return [f(e) for e in node.elts]
    if isinstance(node, ast.Dict):
        out = {}
        for k, v in zip(node.keys, node.values):
            if k is None:
                raise NotConstant("dict unpacking")
            kk = f(k)
            if kk in out:
                raise AnalysisError(f"duplicate key {kk!r} in literal table at line {node.lineno}")
            out[kk] = f(v)
        return out
    if isinstance(node, (ast.DictComp, ast.ListComp)):
        if len(node.generators) != 1 or node.generators[0].ifs:
            raise NotConstant("comprehension shape")
        g = node.generators[0]
        it = g.iter
        if isinstance(it, ast.Call) and isinstance(it.func, ast.Name) and it.func.id == "range":
            seq = list(range(*[f(a) for a in it.args]))
        elif isinstance(it, ast.Call) and isinstance(it.func, ast.Attribute) and it.func.attr == "items" \
                and not it.args:
            seq = list(f(it.func.value).items())
        else:
            seq = f(it)
            if isinstance(seq, dict):
                seq = list(seq)
        res = {} if isinstance(node, ast.DictComp) else []
        for item in seq:
            e2 = dict(env)
            _bind(g.target, item, e2)
            if isinstance(node, ast.DictComp):
                k = fold(node.key, e2, mod_globals, depth + 1)
                if k in res:
                    raise AnalysisError(f"comprehension at line {node.lineno} produces duplicate key {k!r}")
                res[k] = fold(node.value, e2, mod_globals, depth + 1)
            else:
                res.append(fold(node.elt, e2, mod_globals, depth + 1))
        return res
    if isinstance(node, ast.GeneratorExp):
        return f(ast.ListComp(elt=node.elt, generators=node.generators, lineno=getattr(node, "lineno", 0)))
    if isinstance(node, ast.Call) and isinstance(node.func, ast.Attribute) and not node.args and not node.keywords \
            and node.func.attr in ("keys", "values", "items"):
        d = f(node.func.value)
        if not isinstance(d, dict):
            raise NotConstant(f".{node.func.attr}() of a non-table")
        return list(getattr(d, node.func.attr)())
    if isinstance(node, ast.Call) and isinstance(node.func, ast.Name) and not node.keywords and \
            node.func.id in ("zip", "list", "tuple", "sorted", "len", "reversed", "enumerate"):
        args = [f(a) for a in node.args]
        args = [list(a) if isinstance(a, dict) else a for a in args]
        if not all(isinstance(a, (list, tuple)) for a in args):
            raise NotConstant(f"{node.func.id}() of a non-sequence")
        if node.func.id == "zip":
            return [tuple(t) for t in zip(*args)]
        if node.func.id == "enumerate" and len(args) == 1:
            return [tuple(t) for t in enumerate(args[0])]
        if len(args) != 1:
            raise NotConstant(f"{node.func.id}() arity")
        try:
            return {"list": list, "tuple": tuple, "sorted": sorted, "len": len,
                    "reversed": lambda a: list(reversed(a))}[node.func.id](args[0])
        except TypeError as e:
            raise NotConstant(str(e)) from e
    if isinstance(node, ast.Call) and isinstance(node.func, ast.Name) and node.func.id == "dict" \
            and len(node.args) == 1 and not node.keywords:
        seq = f(node.args[0])
        out = {}
        for k, v in (seq.items() if isinstance(seq, dict) else seq):
            if k in out:
                raise AnalysisError(f"dict(...) at line {node.lineno} produces duplicate key {k!r}")
            out[k] = v
        return out
    raise NotConstant(type(node).__name__)


def _bind(target, value, env):
    if isinstance(target, ast.Name):
        env[target.id] = value
    elif isinstance(target, (ast.Tuple, ast.List)):
        if len(target.elts) != len(value):
            raise NotConstant("unpack")
        for t, v in zip(target.elts, value):
            _bind(t, v, env)
    else:
        raise NotConstant("target")


def is_inversion_of(node, src_name):
    """True when ``node`` is one of the accepted inversion idioms of table ``src_name``:
    dict([(v, k) for k, v in T.items()]), dict((v, k) for ...), {v: k for k, v in T.items()}."""
    def gen_ok(g):
        return (isinstance(g.iter, ast.Call) and isinstance(g.iter.func, ast.Attribute)
                and g.iter.func.attr == "items" and norm(g.iter.func.value) == src_name
                and isinstance(g.target, ast.Tuple) and len(g.target.elts) == 2
                and all(isinstance(e, ast.Name) for e in g.target.elts) and not g.ifs)
    if isinstance(node, ast.DictComp) and len(node.generators) == 1 and gen_ok(node.generators[0]):
        k, v = (e.id for e in node.generators[0].target.elts)
        return norm(node.key) == v and norm(node.value) == k
    if isinstance(node, ast.Call) and norm(node.func) == "dict" and len(node.args) == 1 and not node.keywords and \
            isinstance(node.args[0], ast.Call) and norm(node.args[0].func) == "zip" and len(node.args[0].args) == 2:
        a, b = (norm(x) for x in node.args[0].args)
        return a == f"{src_name}.values()" and b in (f"{src_name}.keys()", src_name)
    if isinstance(node, ast.Call) and isinstance(node.func, ast.Name) and node.func.id == "dict" \
            and len(node.args) == 1 and isinstance(node.args[0], (ast.ListComp, ast.GeneratorExp)):
        c = node.args[0]
        if len(c.generators) == 1 and gen_ok(c.generators[0]) and isinstance(c.elt, ast.Tuple) \
                and len(c.elt.elts) == 2:
            k, v = (e.id for e in c.generators[0].target.elts)
            return norm(c.elt.elts[0]) == v and norm(c.elt.elts[1]) == k
    return False


# ------------------------------------------------------------------------------ string dispatch
def string_dispatch(body, var):
    """Extract ``if var == "a": ... elif var == "b": ... else: raise`` chains.

    Returns (chain: list of (key, body), else_body, node) for the first chain on ``var`` found at
    the top level of ``body`` (descending into nothing)."""
    d = _dict_dispatch(body, var)
    if d is not None:
        return d
    allowed = None   # keys admitted by an earlier `if var not in [...]: raise`
    guard_body = None
    merged, first = [], None
    for s in body:
        if isinstance(s, ast.If) and isinstance(s.test, ast.Compare) and len(s.test.ops) == 1 and \
                isinstance(s.test.ops[0], ast.NotIn) and norm(s.test.left) == var and \
                isinstance(s.test.comparators[0], (ast.List, ast.Tuple, ast.Set)) and \
                all(isinstance(e, ast.Constant) and isinstance(e.value, str) for e in s.test.comparators[0].elts) and \
                s.body and isinstance(s.body[-1], ast.Raise) and not s.orelse and not merged:
            allowed = [e.value for e in s.test.comparators[0].elts]
            guard_body = s.body
            continue
        if isinstance(s, ast.If):
            chain = []
            cur = s
            ok = True
            while True:
                keys = _eq_keys(cur.test, var)
                if keys is None:
                    ok = False
                    break
                for k in keys:
                    chain.append((k, cur.body))
                if len(cur.orelse) == 1 and isinstance(cur.orelse[0], ast.If):
                    cur = cur.orelse[0]
                    continue
                else_body = cur.orelse
                break
            if ok and chain:
                first = first or s
                merged += chain
                if else_body and isinstance(else_body[-1], ast.Raise):
                    return merged, else_body, first
                if else_body:
                    # a final `else:` that computes something serves the one admitted key not yet tested
                    rest = [k for k in (allowed or []) if k not in [c[0] for c in merged]]
                    if len(rest) == 1:
                        return merged + [(rest[0], else_body)], guard_body, first
                    return merged, else_body, first
                # no else: the chain may continue in a later statement when every branch left the function
                if all(b and isinstance(b[-1], (ast.Return, ast.Raise)) for _, b in chain):
                    continue
                return merged, else_body, first
            if merged:
                break
    if merged:
        if allowed is not None and set(allowed) == {k for k, _ in merged}:
            return merged, guard_body, first
        return merged, [], first
    return None


def _dict_dispatch(body, var):
    """The table form of the same dispatch::

        tbl = {"a": X, "b": Y}          # local literal dict with string keys
        if var not in tbl: raise ...
        name = tbl[var]                  # or  n1, n2 = tbl[var]  with tuple values

    is returned as the equivalent chain with one synthetic assignment per key."""
    tables = {}
    guard = None
    for s in body:
        if isinstance(s, ast.Assign) and len(s.targets) == 1 and isinstance(s.targets[0], ast.Name) and \
                isinstance(s.value, ast.Dict) and s.value.keys and \
                all(isinstance(k, ast.Constant) and isinstance(k.value, str) for k in s.value.keys):
            tables[s.targets[0].id] = s.value
        elif isinstance(s, ast.If) and isinstance(s.test, ast.Compare) and len(s.test.ops) == 1 and \
                isinstance(s.test.ops[0], ast.NotIn) and norm(s.test.left) == var and \
                isinstance(s.test.comparators[0], ast.Name) and s.test.comparators[0].id in tables and \
                s.body and isinstance(s.body[-1], ast.Raise) and not s.orelse:
            guard = (s, s.test.comparators[0].id)
        elif guard is not None and isinstance(s, ast.Assign) and len(s.targets) == 1 and \
                isinstance(s.value, ast.Subscript) and norm(s.value.value) == guard[1] and norm(s.value.slice) == var:
            tbl = tables[guard[1]]
            chain = []
            for k, v in zip(tbl.keys, tbl.values):
                syn = ast.Assign(targets=[s.targets[0]], value=v)
                ast.copy_location(syn, v)
                chain.append((k.value, [syn]))
            return chain, guard[0].body, guard[0]
        elif isinstance(s, ast.Try) and len(s.body) == 1 and isinstance(s.body[0], ast.Assign) and \
                len(s.body[0].targets) == 1 and isinstance(s.body[0].value, ast.Subscript) and \
                isinstance(s.body[0].value.value, ast.Name) and s.body[0].value.value.id in tables and \
                norm(s.body[0].value.slice) == var and s.handlers and not s.orelse and not s.finalbody and \
                all(h.body and isinstance(h.body[-1], ast.Raise) for h in s.handlers) and \
                any("KeyError" in norm(h.type) for h in s.handlers if h.type is not None):
            # try: name(s) = tbl[var]   except KeyError: raise ...
            asg = s.body[0]
            tbl = tables[asg.value.value.id]
            chain = []
            for k, v in zip(tbl.keys, tbl.values):
                syn = ast.Assign(targets=[asg.targets[0]], value=v)
                ast.copy_location(syn, v)
                chain.append((k.value, [syn]))
            return chain, s.handlers[0].body, s
        elif guard is not None and any(isinstance(n, ast.Name) and n.id == guard[1] and isinstance(n.ctx, ast.Store)
                                       for n in ast.walk(s)):
            return None
    return None


def _eq_keys(test, var):
    """keys of `var == "k"` / `var in ("a","b")` / `var == "a" or var == "b"`."""
    if isinstance(test, ast.Compare) and len(test.ops) == 1 and norm(test.left) == var:
        c = test.comparators[0]
        if isinstance(test.ops[0], ast.Eq) and isinstance(c, ast.Constant) and isinstance(c.value, str):
            return [c.value]
        if isinstance(test.ops[0], ast.In) and isinstance(c, (ast.Tuple, ast.List, ast.Set)) and \
                all(isinstance(e, ast.Constant) and isinstance(e.value, str) for e in c.elts):
            return [e.value for e in c.elts]
    if isinstance(test, ast.BoolOp) and isinstance(test.op, ast.Or):
        out = []
        for v in test.values:
            k = _eq_keys(v, var)
            if k is None:
                return None
            out += k
        return out
    return None


def branch_assignments(body):
    """{name: value node} for simple top-level assignments of a branch (tuple targets split)."""
    out = {}
    for s in body:
        if isinstance(s, ast.Assign) and len(s.targets) == 1:
            t = s.targets[0]
            if isinstance(t, ast.Name):
                out[t.id] = s.value
            elif isinstance(t, ast.Tuple) and isinstance(s.value, ast.Tuple) and len(t.elts) == len(s.value.elts):
                for a, b in zip(t.elts, s.value.elts):
                    if isinstance(a, ast.Name):
                        out[a.id] = b
    return out


# ------------------------------------------------------------------------------ npz / npy headers
def npy_header(fh):
    magic = fh.read(6)
    if magic != b"\x93NUMPY":
        raise AnalysisError("not an npy member")
    major, _minor = fh.read(2)
    if major == 1:
        (hlen,) = struct.unpack("<H", fh.read(2))
    else:
        (hlen,) = struct.unpack("<I", fh.read(4))
    header = fh.read(hlen).decode("latin1")
    d = ast.literal_eval(header)
    return d["shape"], d["descr"], d.get("fortran_order", False)


def npz_inventory(path, small_int_members=False, max_small=4096):
    """{member: {"shape","descr", "value"?}}; ``value`` only for small integer/float *tables*
    when requested (read with the struct module, no numpy)."""
    out = {}
    try:
        zf = zipfile.ZipFile(path)
    except (zipfile.BadZipFile, OSError) as e:
        raise AnalysisError(f"cannot open archive {path}: {e}") from e
    with zf:
        for info in zf.infolist():
            name = info.filename
            if not name.endswith(".npy"):
                continue
            with zf.open(info) as fh:
                shape, descr, fortran = npy_header(fh)
                rec = {"shape": tuple(shape), "descr": descr}
                if small_int_members:
                    n = 1
                    for s in shape:
                        n *= s
                    if n <= max_small and isinstance(descr, str) and len(descr) >= 3 and descr[1] in "iuf":
                        size = int(descr[2:])
                        code = {("i", 8): "q", ("i", 4): "i", ("i", 2): "h", ("i", 1): "b",
                                ("u", 8): "Q", ("u", 4): "I", ("u", 2): "H", ("u", 1): "B",
                                ("f", 8): "d", ("f", 4): "f"}.get((descr[1], size))
                        if code:
                            end = ">" if descr[0] == ">" else "<"
                            raw = fh.read(n * size)
                            rec["value"] = list(struct.unpack(end + code * n, raw))
                out[name[:-4]] = rec
    return out


def fstring_template(node):
    """Turn f"{a}_{b}_{c}.npz" into (parts) list of ('lit', text) / ('var', name)."""
    if not isinstance(node, ast.JoinedStr):
        return None
    parts = []
    for v in node.values:
        if isinstance(v, ast.Constant):
            parts.append(("lit", v.value))
        elif isinstance(v, ast.FormattedValue):
            parts.append(("var", norm(v.value), norm(v.format_spec)[2:-1] if v.format_spec else ""))
    return parts


def render_template(parts, env):
    out = ""
    for p in parts:
        if p[0] == "lit":
            out += p[1]
        else:
            val = env[p[1]]
            out += format(val, p[2]) if p[2] else str(val)
    return out


def package_dir(repo, dotted):
    """'grid.data.lebedev' -> <pkg>/data/lebedev"""
    if not dotted.startswith("grid"):
        raise AnalysisError(f"data package {dotted} is outside the package")
    rel = dotted.split(".")[1:]
    return os.path.join(repo.pkg, *rel)


def load_json(path):
    with open(path, encoding="utf-8") as fh:
        return json.load(fh)
