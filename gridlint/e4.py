"""E4 -- literal tables and shipped data read as tables.

Constant folding is restricted to what the source spells out: dict/list displays of literals,
comprehensions over ``range`` with integer arithmetic, and the two dictionary inversion idioms.
Shipped ``.npz`` archives are never loaded as arrays: only member names and ``.npy`` headers
(shape, dtype) are read, plus small integer members that act as configuration tables.
"""
from __future__ import annotations

import ast
import json
import os
import struct
import zipfile

from gridlint.core import AnalysisError, norm


# ------------------------------------------------------------------------------ constant folding
class NotConstant(Exception):
    pass


def fold(node, env=None, mod_globals=None, depth=0):
    """Evaluate a literal expression (ints, floats, strings, tuples, lists, dicts, +-*/ ** //
    on numbers, comprehensions over range()/items() of folded tables)."""
    env = env or {}
    mod_globals = mod_globals or {}
    if depth > 20:
        raise NotConstant("too deep")
    f = lambda n, e=env: fold(n, e, mod_globals, depth + 1)  # noqa: E731
    if isinstance(node, ast.Constant):
        return node.value
    if isinstance(node, ast.Name):
        if node.id in env:
            return env[node.id]
        if node.id in mod_globals:
            return fold(mod_globals[node.id], {}, mod_globals, depth + 1)
        raise NotConstant(node.id)
    if isinstance(node, ast.UnaryOp) and isinstance(node.op, (ast.USub, ast.UAdd)):
        v = f(node.operand)
        return -v if isinstance(node.op, ast.USub) else v
    if isinstance(node, ast.BinOp):
        a, b = f(node.left), f(node.right)
        if not all(isinstance(x, (int, float)) and not isinstance(x, bool) for x in (a, b)):
            raise NotConstant("non-numeric binop")
        op = type(node.op)
        if op is ast.Add:
            return a + b
        if op is ast.Sub:
            return a - b
        if op is ast.Mult:
            return a * b
        if op is ast.Pow and isinstance(a, int) and isinstance(b, int) and 0 <= b <= 8:
            return a ** b
        if op is ast.FloorDiv and b:
            return a // b
        raise NotConstant("operator")
    if isinstance(node, ast.Tuple):
        return tuple(f(e) for e in node.elts)
    if isinstance(node, ast.List):
        return [f(e) for e in node.elts]
    if isinstance(node, ast.Dict):
        out = {}
        for k, v in zip(node.keys, node.values):
            if k is None:
                raise NotConstant("dict unpacking")
            kk = f(k)
            if kk in out:
                raise AnalysisError(f"duplicate key {kk!r} in literal table at line {node.lineno}")
            out[kk] = f(v)
        return out
    if isinstance(node, (ast.DictComp, ast.ListComp)):
        if len(node.generators) != 1 or node.generators[0].ifs:
            raise NotConstant("comprehension shape")
        g = node.generators[0]
        it = g.iter
        if isinstance(it, ast.Call) and isinstance(it.func, ast.Name) and it.func.id == "range":
            seq = list(range(*[f(a) for a in it.args]))
        elif isinstance(it, ast.Call) and isinstance(it.func, ast.Attribute) and it.func.attr == "items" \
                and not it.args:
            seq = list(f(it.func.value).items())
        else:
            seq = f(it)
            if isinstance(seq, dict):
                seq = list(seq)
        res = {} if isinstance(node, ast.DictComp) else []
        for item in seq:
            e2 = dict(env)
            _bind(g.target, item, e2)
            if isinstance(node, ast.DictComp):
                k = fold(node.key, e2, mod_globals, depth + 1)
                if k in res:
                    raise AnalysisError(f"comprehension at line {node.lineno} produces duplicate key {k!r}")
                res[k] = fold(node.value, e2, mod_globals, depth + 1)
            else:
                res.append(fold(node.elt, e2, mod_globals, depth + 1))
        return res
    if isinstance(node, ast.GeneratorExp):
        return f(ast.ListComp(elt=node.elt, generators=node.generators, lineno=getattr(node, "lineno", 0)))
    if isinstance(node, ast.Call) and isinstance(node.func, ast.Attribute) and not node.args and not node.keywords \
            and node.func.attr in ("keys", "values", "items"):
        d = f(node.func.value)
        if not isinstance(d, dict):
            raise NotConstant(f".{node.func.attr}() of a non-table")
        return list(getattr(d, node.func.attr)())
    if isinstance(node, ast.Call) and isinstance(node.func, ast.Name) and not node.keywords and \
            node.func.id in ("zip", "list", "tuple", "sorted", "len", "reversed", "enumerate"):
        args = [f(a) for a in node.args]
        args = [list(a) if isinstance(a, dict) else a for a in args]
        if not all(isinstance(a, (list, tuple)) for a in args):
            raise NotConstant(f"{node.func.id}() of a non-sequence")
        if node.func.id == "zip":
            return [tuple(t) for t in zip(*args)]
        if node.func.id == "enumerate" and len(args) == 1:
            return [tuple(t) for t in enumerate(args[0])]
        if len(args) != 1:
            raise NotConstant(f"{node.func.id}() arity")
        try:
            return {"list": list, "tuple": tuple, "sorted": sorted, "len": len,
                    "reversed": lambda a: list(reversed(a))}[node.func.id](args[0])
        except TypeError as e:
            raise NotConstant(str(e)) from e
    if isinstance(node, ast.Call) and isinstance(node.func, ast.Name) and node.func.id == "dict" \
            and len(node.args) == 1 and not node.keywords:
        seq = f(node.args[0])
        out = {}
        for k, v in (seq.items() if isinstance(seq, dict) else seq):
            if k in out:
                raise AnalysisError(f"dict(...) at line {node.lineno} produces duplicate key {k!r}")
            out[k] = v
        return out
    raise NotConstant(type(node).__name__)


def _bind(target, value, env):
    if isinstance(target, ast.Name):
        env[target.id] = value
    elif isinstance(target, (ast.Tuple, ast.List)):
        if len(target.elts) != len(value):
            raise NotConstant("unpack")
        for t, v in zip(target.elts, value):
            _bind(t, v, env)
    else:
        raise NotConstant("target")


def is_inversion_of(node, src_name):
    """True when ``node`` is one of the accepted inversion idioms of table ``src_name``:
    dict([(v, k) for k, v in T.items()]), dict((v, k) for ...), {v: k for k, v in T.items()}."""
    def gen_ok(g):
        return (isinstance(g.iter, ast.Call) and isinstance(g.iter.func, ast.Attribute)
                and g.iter.func.attr == "items" and norm(g.iter.func.value) == src_name
                and isinstance(g.target, ast.Tuple) and len(g.target.elts) == 2
                and all(isinstance(e, ast.Name) for e in g.target.elts) and not g.ifs)
    if isinstance(node, ast.DictComp) and len(node.generators) == 1 and gen_ok(node.generators[0]):
        k, v = (e.id for e in node.generators[0].target.elts)
        return norm(node.key) == v and norm(node.value) == k
    if isinstance(node, ast.Call) and norm(node.func) == "dict" and len(node.args) == 1 and not node.keywords and \
            isinstance(node.args[0], ast.Call) and norm(node.args[0].func) == "zip" and len(node.args[0].args) == 2:
        a, b = (norm(x) for x in node.args[0].args)
        return a == f"{src_name}.values()" and b in (f"{src_name}.keys()", src_name)
    if isinstance(node, ast.Call) and isinstance(node.func, ast.Name) and node.func.id == "dict" \
            and len(node.args) == 1 and isinstance(node.args[0], (ast.ListComp, ast.GeneratorExp)):
        c = node.args[0]
        if len(c.generators) == 1 and gen_ok(c.generators[0]) and isinstance(c.elt, ast.Tuple) \
                and len(c.elt.elts) == 2:
            k, v = (e.id for e in c.generators[0].target.elts)
            return norm(c.elt.elts[0]) == v and norm(c.elt.elts[1]) == k
    return False


# ------------------------------------------------------------------------------ string dispatch
def _local_function_table(body, var):
    """The table form with local functions:

        def _a(): ...            (local functions without parameters)
        def _b(): ...
        table = (("A", _a), ("B", _b))
        for name, fn in table:
            if var == name:
                return fn()
        raise ...

    is the chain [("A", body of _a), ("B", body of _b)] with the statements after the loop as the else-branch."""
    local = {s.name: s for s in body if isinstance(s, ast.FunctionDef) and not s.args.args and not s.args.kwonlyargs}
    tables = {}
    for s in body:
        if isinstance(s, ast.Assign) and len(s.targets) == 1 and isinstance(s.targets[0], ast.Name) and \
                isinstance(s.value, (ast.Tuple, ast.List)) and s.value.elts and all(
                    isinstance(e, (ast.Tuple, ast.List)) and len(e.elts) == 2 and isinstance(e.elts[0], ast.Constant)
                    and isinstance(e.elts[0].value, str) and isinstance(e.elts[1], ast.Name) and e.elts[1].id in local
                    for e in s.value.elts):
            tables[s.targets[0].id] = [(e.elts[0].value, local[e.elts[1].id]) for e in s.value.elts]
    for i, s in enumerate(body):
        if isinstance(s, ast.For) and isinstance(s.iter, ast.Name) and s.iter.id in tables and not s.orelse and \
                isinstance(s.target, (ast.Tuple, ast.List)) and len(s.target.elts) == 2 and \
                all(isinstance(t, ast.Name) for t in s.target.elts) and len(s.body) == 1 and isinstance(s.body[0], ast.If):
            kname, fname = s.target.elts[0].id, s.target.elts[1].id
            test = s.body[0]
            t = test.test
            eq = isinstance(t, ast.Compare) and len(t.ops) == 1 and isinstance(t.ops[0], ast.Eq) and \
                {norm(t.left), norm(t.comparators[0])} == {var, kname}
            ret = len(test.body) == 1 and isinstance(test.body[0], ast.Return) and isinstance(test.body[0].value, ast.Call) and \
                isinstance(test.body[0].value.func, ast.Name) and test.body[0].value.func.id == fname and \
                not test.body[0].value.args and not test.body[0].value.keywords and not test.orelse
            if eq and ret:
                chain = [(k, strip_docstring_body(fn.body)) for k, fn in tables[s.iter.id]]
                return chain, list(body[i + 1:]), s
    return None


def strip_docstring_body(stmts):
    if stmts and isinstance(stmts[0], ast.Expr) and isinstance(stmts[0].value, ast.Constant) and isinstance(stmts[0].value.value, str):
        return stmts[1:]
    return stmts


def string_dispatch(body, var, mod_globals=None, mod_funcs=None, mod_classes=None):
    """Extract ``if var == "a": ... elif var == "b": ... else: raise`` chains.

    Returns (chain: list of (key, body), else_body, node) for the first chain on ``var`` found at
    the top level of ``body`` (descending into nothing).  ``mod_globals`` (name -> value node) lets the
    table form refer to a module-level literal dict."""
    d = _dict_dispatch(body, var, mod_globals, mod_funcs, mod_classes)
    if d is not None:
        return d
    d = _local_function_table(body, var)
    if d is not None:
        return d
    allowed = None   # keys admitted by an earlier `if var not in [...]: raise`
    guard_body = None
    merged, first = [], None
    for s in body:
        if isinstance(s, ast.If) and isinstance(s.test, ast.Compare) and len(s.test.ops) == 1 and \
                isinstance(s.test.ops[0], ast.NotIn) and norm(s.test.left) == var and \
                isinstance(s.test.comparators[0], (ast.List, ast.Tuple, ast.Set)) and \
                all(isinstance(e, ast.Constant) and isinstance(e.value, str) for e in s.test.comparators[0].elts) and \
                s.body and isinstance(s.body[-1], ast.Raise) and not s.orelse and not merged:
            allowed = [e.value for e in s.test.comparators[0].elts]
            guard_body = s.body
            continue
        if isinstance(s, ast.If):
            chain = []
            cur = s
            ok = True
            while True:
                keys = _eq_keys(cur.test, var)
                if keys is None:
                    ok = False
                    break
                for k in keys:
                    chain.append((k, cur.body))
                if len(cur.orelse) == 1 and isinstance(cur.orelse[0], ast.If):
                    cur = cur.orelse[0]
                    continue
                else_body = cur.orelse
                break
            if ok and chain:
                first = first or s
                merged += chain
                if else_body and isinstance(else_body[-1], ast.Raise):
                    return merged, else_body, first
                if else_body:
                    # a final `else:` that computes something serves the one admitted key not yet tested
                    rest = [k for k in (allowed or []) if k not in [c[0] for c in merged]]
                    if len(rest) == 1:
                        return merged + [(rest[0], else_body)], guard_body, first
                    return merged, else_body, first
                # no else: the chain may continue in a later statement when every branch left the function
                if all(b and isinstance(b[-1], (ast.Return, ast.Raise)) for _, b in chain):
                    continue
                return merged, else_body, first
            if merged:
                break
    if merged:
        if allowed is not None and set(allowed) == {k for k, _ in merged}:
            return merged, guard_body, first
        return merged, [], first
    return None


def _str_dict(node):
    return isinstance(node, ast.Dict) and bool(node.keys) and \
        all(isinstance(k, ast.Constant) and isinstance(k.value, str) for k in node.keys)


def _accessor_table(fn, tables):
    """A module-level function `def acc(p): <guarded> return TBL[p]` -> (table name, raise body) or None.
    Guard forms: try/except KeyError -> raise, `if p not in TBL: raise`, or none (the KeyError itself)."""
    args = fn.args.args
    if len(args) != 1:
        return None
    p_ = args[0].arg
    body = [s for s in fn.body if not (isinstance(s, ast.Expr) and isinstance(s.value, ast.Constant))]
    guard = None

    def is_lookup(e):
        return isinstance(e, ast.Subscript) and isinstance(e.value, ast.Name) and e.value.id in tables and norm(e.slice) == p_
    for s in body:
        if isinstance(s, ast.If) and isinstance(s.test, ast.Compare) and len(s.test.ops) == 1 and \
                isinstance(s.test.ops[0], ast.NotIn) and norm(s.test.left) == p_ and s.body and \
                isinstance(s.body[-1], ast.Raise) and not s.orelse:
            guard = s.body
        elif isinstance(s, ast.Return) and s.value is not None and is_lookup(s.value):
            return s.value.value.id, guard or [ast.Raise(exc=None, cause=None)]
        elif isinstance(s, ast.Try) and len(s.body) == 1 and isinstance(s.body[0], ast.Return) and \
                s.body[0].value is not None and is_lookup(s.body[0].value) and s.handlers and \
                all(h.body and isinstance(h.body[-1], ast.Raise) for h in s.handlers):
            return s.body[0].value.value.id, s.handlers[0].body
        elif isinstance(s, ast.For) and isinstance(s.target, ast.Tuple) and len(s.target.elts) == 2 and \
                isinstance(s.iter, ast.Call) and isinstance(s.iter.func, ast.Attribute) and s.iter.func.attr == "items" \
                and isinstance(s.iter.func.value, ast.Name) and s.iter.func.value.id in tables and not s.orelse and \
                len(s.body) == 1 and isinstance(s.body[0], ast.If) and not s.body[0].orelse and \
                len(s.body[0].body) == 1 and isinstance(s.body[0].body[0], ast.Return):
            # for key, row in TBL.items(): if p == key: return row      (linear search with ==)
            kname, vname = (norm(x) for x in s.target.elts)
            t_ = s.body[0].test
            if isinstance(t_, ast.Compare) and len(t_.ops) == 1 and isinstance(t_.ops[0], ast.Eq) and \
                    {norm(t_.left), norm(t_.comparators[0])} == {p_, kname} and norm(s.body[0].body[0].value) == vname:
                rest = body[body.index(s) + 1:]
                if rest and isinstance(rest[0], ast.Raise):
                    return s.iter.func.value.id, [rest[0]]
            return None
        else:
            return None
    return None


def _if_chain_accessor(fn):
    """`def acc(p): if p == "a": return A1, A2 ... if p == "b": ...; raise ...` -> (ast.Dict {"a": (A1, A2), ...}, raise body).
    Locals assigned once inside a branch and starred tuples in the returned display are expanded."""
    import copy
    args = fn.args.args
    if len(args) != 1:
        return None
    p_ = args[0].arg
    body = [s for s in fn.body if not (isinstance(s, ast.Expr) and isinstance(s.value, ast.Constant))]
    keys, vals = [], []
    flat = []
    for s in body:
        cur = s
        while isinstance(cur, ast.If):
            flat.append(cur)
            if len(cur.orelse) == 1 and isinstance(cur.orelse[0], ast.If):
                cur = cur.orelse[0]
            else:
                if cur.orelse:
                    flat.append(cur.orelse)
                break
        else:
            flat.append(s)
    raise_body = None
    for item in flat:
        if isinstance(item, list):
            if item and isinstance(item[-1], ast.Raise):
                raise_body = item
                continue
            return None
        if isinstance(item, ast.Raise):
            raise_body = [item]
            continue
        if not isinstance(item, ast.If):
            return None
        ks = _eq_keys(item.test, p_)
        if not ks or not item.body or not isinstance(item.body[-1], ast.Return) or item.body[-1].value is None:
            return None
        local = {}
        for st in item.body[:-1]:
            if isinstance(st, ast.Assign) and len(st.targets) == 1 and isinstance(st.targets[0], ast.Name):
                local[st.targets[0].id] = st.value
            else:
                return None

        def expand(e):
            if isinstance(e, ast.Name) and e.id in local:
                return expand(local[e.id])
            if isinstance(e, (ast.Tuple, ast.List)):
                out = []
                for x in e.elts:
                    if isinstance(x, ast.Starred):
                        inner = expand(x.value)
                        if not isinstance(inner, (ast.Tuple, ast.List)):
                            return None
                        out.extend(inner.elts)
                    else:
                        y = expand(x)
                        if y is None:
                            return None
                        out.append(y)
                return ast.Tuple(elts=out, ctx=ast.Load())
            return e
        v = expand(copy.deepcopy(item.body[-1].value))
        if v is None:
            return None
        for k in ks:
            keys.append(ast.Constant(value=k))
            vals.append(v)
    if not keys or raise_body is None:
        return None
    return ast.fix_missing_locations(ast.Dict(keys=keys, values=vals)), raise_body


def _dict_dispatch(body, var, mod_globals=None, mod_funcs=None, mod_classes=None):
    """The table form of the same dispatch.  Look-ups of ``var`` in literal dicts with string keys
    (local, or module-level when ``mod_globals`` is given), directly or through a module-level
    accessor function (``mod_funcs``), optionally followed by a constant index / slice::

        tbl = {"a": (X, Y), "b": (U, V)}
        if var not in tbl: raise ...            # or try/except KeyError, or an accessor that raises
        n1, n2 = tbl[var]                        # name = tbl[var][0]; n1, n2 = acc(var)[:2]; ...

    are returned as the equivalent chain with synthetic assignments per key (several look-up
    statements are merged)."""
    tables = {g: v for g, v in (mod_globals or {}).items() if _str_dict(v)}
    accessors = {}
    for name, fn in (mod_funcs or {}).items():
        r = _accessor_table(fn, tables)
        if r is None:
            # an accessor written as a chain `if p == "a": return X, Y ... raise`: the same as a table with those rows
            c = _if_chain_accessor(fn)
            if c is not None and _str_dict(c[0]):
                tables["__rows_of_" + name] = c[0]
                r = ("__rows_of_" + name, c[1])
        if r is not None:
            accessors[name] = r
    per_key = {}
    order = None
    else_body = None
    first = None

    def lookup(e):
        """(table name, selector, raise body or None) for a look-up expression of `var`."""
        sel = None
        if isinstance(e, ast.Attribute):
            inner = lookup(e.value)
            if inner is not None and inner[1] is None:
                return inner[0], ("attr", e.attr), inner[2]
            return None
        if isinstance(e, ast.Subscript) and not (isinstance(e.value, ast.Name) and e.value.id in tables
                                                 and norm(e.slice) == var):
            inner = lookup(e.value)
            if inner is not None and inner[1] is None:
                return inner[0], e.slice, inner[2]
            return None
        if isinstance(e, ast.Subscript) and isinstance(e.value, ast.Name) and e.value.id in tables and norm(e.slice) == var:
            return e.value.id, sel, None
        if isinstance(e, ast.Call) and isinstance(e.func, ast.Name) and e.func.id in accessors and len(e.args) == 1 \
                and norm(e.args[0]) == var and not e.keywords:
            return accessors[e.func.id][0], None, accessors[e.func.id][1]
        return None

    def record_fields(v):
        """(Tuple of the positional arguments, field names) of a row written as a call of a module-level
        NamedTuple class; (v, None) otherwise."""
        if isinstance(v, ast.Call) and isinstance(v.func, ast.Name) and v.func.id in (mod_classes or {}) and not v.keywords:
            cd = mod_classes[v.func.id]
            if any("NamedTuple" in norm(b_) for b_ in cd.bases):
                fields = [st.target.id for st in cd.body if isinstance(st, ast.AnnAssign) and isinstance(st.target, ast.Name)]
                if len(fields) == len(v.args):
                    t_ = ast.Tuple(elts=list(v.args), ctx=ast.Load())
                    return ast.copy_location(t_, v), fields
        return v, None

    def select(v, sel):
        v, fields = record_fields(v)
        if sel is None:
            return v
        if isinstance(sel, tuple) and sel[0] == "attr":
            if fields and sel[1] in fields and isinstance(v, ast.Tuple):
                return v.elts[fields.index(sel[1])]
            return None
        if not isinstance(v, ast.Tuple):
            return None
        if isinstance(sel, ast.Constant) and isinstance(sel.value, int) and -len(v.elts) <= sel.value < len(v.elts):
            return v.elts[sel.value]
        if isinstance(sel, ast.Slice) and sel.step is None:
            try:
                lo = fold(sel.lower) if sel.lower is not None else None
                hi = fold(sel.upper) if sel.upper is not None else None
            except NotConstant:
                return None
            t = ast.Tuple(elts=v.elts[lo:hi], ctx=ast.Load())
            return ast.copy_location(t, v)
        return None

    def take(asg, guard_body, node):
        nonlocal order, else_body, first
        lk = lookup(asg.value)
        if lk is None or len(asg.targets) != 1:
            return False
        tname, sel, gb = lk
        tbl = tables[tname]
        keys = [k.value for k in tbl.keys]
        if order is None:
            order = keys
        elif set(keys) != set(order):
            raise AnalysisError(f"dispatch tables disagree on their keys: {sorted(keys)} vs {sorted(order)}")
        for k, v in zip(tbl.keys, tbl.values):
            picked = select(v, sel)
            if picked is None:
                raise AnalysisError(f"unrecognised idiom: `{norm(asg)[:60]}` selects from a non-tuple table value")
            syn = ast.Assign(targets=[asg.targets[0]], value=picked)
            ast.copy_location(syn, v)
            per_key.setdefault(k.value, []).append(syn)
        gbody = guard_body or gb
        if gbody is not None and else_body is None:
            else_body = gbody
        first = first or node
        return True
    guard = None
    for s in body:
        if isinstance(s, ast.Assign) and len(s.targets) == 1 and isinstance(s.targets[0], ast.Name) and _str_dict(s.value):
            tables[s.targets[0].id] = s.value
        elif isinstance(s, ast.If) and isinstance(s.test, ast.Compare) and len(s.test.ops) == 1 and \
                isinstance(s.test.ops[0], ast.NotIn) and norm(s.test.left) == var and \
                isinstance(s.test.comparators[0], ast.Name) and s.test.comparators[0].id in tables and \
                s.body and isinstance(s.body[-1], ast.Raise) and not s.orelse:
            guard = s
        elif isinstance(s, ast.Assign):
            take(s, guard.body if guard is not None else None, guard or s)
        elif isinstance(s, ast.Try) and len(s.body) == 1 and isinstance(s.body[0], ast.Assign) and s.handlers and \
                not s.orelse and not s.finalbody and all(h.body and isinstance(h.body[-1], ast.Raise) for h in s.handlers) \
                and any("KeyError" in norm(h.type) for h in s.handlers if h.type is not None):
            take(s.body[0], s.handlers[0].body, s)
    if not per_key:
        return None
    if else_body is None:
        else_body = [ast.Raise(exc=None, cause=None)]   # an unguarded look-up rejects unknown keys with KeyError
    return [(k, per_key[k]) for k in order], else_body, first


def module_table_lookup(e, mod_globals, mod_funcs=None, mod_classes=None):
    """For an expression that looks a key up in a module-level literal table (directly or through an
    accessor function, with an optional index / slice / field selector) return the list of the selected
    value nodes, one per key of the table; None when the expression is not such a look-up."""
    key = None
    for n in ast.walk(e):
        if isinstance(n, ast.Subscript) and isinstance(n.value, ast.Name) and n.value.id in (mod_globals or {}) and \
                _str_dict(mod_globals[n.value.id]):
            key = norm(n.slice)
        elif isinstance(n, ast.Call) and isinstance(n.func, ast.Name) and n.func.id in (mod_funcs or {}) and \
                len(n.args) == 1 and not n.keywords:
            key = norm(n.args[0])
    if key is None:
        return None
    syn = ast.Assign(targets=[ast.Name(id="__selected__", ctx=ast.Store())], value=e)
    try:
        d = _dict_dispatch([syn], key, mod_globals, mod_funcs, mod_classes)
    except AnalysisError:
        return None
    if d is None:
        return None
    return [b[0].value for _, b in d[0]]


def _eq_keys(test, var):
    """keys of `var == "k"` / `var in ("a","b")` / `var == "a" or var == "b"`."""
    if isinstance(test, ast.Compare) and len(test.ops) == 1 and norm(test.left) == var:
        c = test.comparators[0]
        if isinstance(test.ops[0], ast.Eq) and isinstance(c, ast.Constant) and isinstance(c.value, str):
            return [c.value]
        if isinstance(test.ops[0], ast.In) and isinstance(c, (ast.Tuple, ast.List, ast.Set)) and \
                all(isinstance(e, ast.Constant) and isinstance(e.value, str) for e in c.elts):
            return [e.value for e in c.elts]
    if isinstance(test, ast.BoolOp) and isinstance(test.op, ast.Or):
        out = []
        for v in test.values:
            k = _eq_keys(v, var)
            if k is None:
                return None
            out += k
        return out
    return None


def branch_assignments(body):
    """{name: value node} for simple top-level assignments of a branch (tuple targets split)."""
    out = {}
    for s in body:
        if isinstance(s, ast.Assign) and len(s.targets) == 1:
            t = s.targets[0]
            if isinstance(t, ast.Name):
                out[t.id] = s.value
            elif isinstance(t, ast.Tuple) and isinstance(s.value, ast.Tuple) and len(t.elts) == len(s.value.elts):
                for a, b in zip(t.elts, s.value.elts):
                    if isinstance(a, ast.Name):
                        out[a.id] = b
    return out


# ------------------------------------------------------------------------------ npz / npy headers
def npy_header(fh):
    magic = fh.read(6)
    if magic != b"\x93NUMPY":
        raise AnalysisError("not an npy member")
    major, _minor = fh.read(2)
    if major == 1:
        (hlen,) = struct.unpack("<H", fh.read(2))
    else:
        (hlen,) = struct.unpack("<I", fh.read(4))
    header = fh.read(hlen).decode("latin1")
    d = ast.literal_eval(header)
    return d["shape"], d["descr"], d.get("fortran_order", False)


def npz_inventory(path, small_int_members=False, max_small=4096):
    """{member: {"shape","descr", "value"?}}; ``value`` only for small integer/float *tables*
    when requested (read with the struct module, no numpy)."""
    out = {}
    try:
        zf = zipfile.ZipFile(path)
    except (zipfile.BadZipFile, OSError) as e:
        raise AnalysisError(f"cannot open archive {path}: {e}") from e
    with zf:
        for info in zf.infolist():
            name = info.filename
            if not name.endswith(".npy"):
                continue
            with zf.open(info) as fh:
                shape, descr, fortran = npy_header(fh)
                rec = {"shape": tuple(shape), "descr": descr}
                if small_int_members:
                    n = 1
                    for s in shape:
                        n *= s
                    if n <= max_small and isinstance(descr, str) and len(descr) >= 3 and descr[1] in "iuf":
                        size = int(descr[2:])
                        code = {("i", 8): "q", ("i", 4): "i", ("i", 2): "h", ("i", 1): "b",
                                ("u", 8): "Q", ("u", 4): "I", ("u", 2): "H", ("u", 1): "B",
                                ("f", 8): "d", ("f", 4): "f"}.get((descr[1], size))
                        if code:
                            end = ">" if descr[0] == ">" else "<"
                            raw = fh.read(n * size)
                            rec["value"] = list(struct.unpack(end + code * n, raw))
                out[name[:-4]] = rec
    return out


def fstring_template(node):
    """Turn f"{a}_{b}_{c}.npz" into (parts) list of ('lit', text) / ('var', name)."""
    if not isinstance(node, ast.JoinedStr):
        return None
    parts = []
    for v in node.values:
        if isinstance(v, ast.Constant):
            parts.append(("lit", v.value))
        elif isinstance(v, ast.FormattedValue):
            parts.append(("var", norm(v.value), norm(v.format_spec)[2:-1] if v.format_spec else ""))
    return parts


def render_template(parts, env):
    out = ""
    for p in parts:
        if p[0] == "lit":
            out += p[1]
        else:
            val = env[p[1]]
            out += format(val, p[2]) if p[2] else str(val)
    return out


def package_dir(repo, dotted):
    """'grid.data.lebedev' -> <pkg>/data/lebedev"""
    if not dotted.startswith("grid"):
        raise AnalysisError(f"data package {dotted} is outside the package")
    rel = dotted.split(".")[1:]
    return os.path.join(repo.pkg, *rel)


def load_json(path):
    with open(path, encoding="utf-8") as fh:
        return json.load(fh)
