"""Symbolic row streams (serves C14.R6: the order list is generated in the documented Horton order).

The statements that fill a row accumulator (append / += / extend / list displays / comprehensions,
`for` loops over range(...) or over a literal tuple, an `if` that singles out the first iteration)
are evaluated into a *stream term*

    ("row", (e1, e2, ...))                 one row of integer expressions
    ("seq", (s1, s2, ...))                 streams one after the other
    ("for", var, (start, stop, step), s)   the stream s for var = start, start+step, ... < stop

with sympy expressions for the entries and the range bounds.  Terms are normalised (loops over
literal tuples unrolled, `if v != start` peeled off the loop, nested seqs flattened, bound variables
renamed in order of appearance) and compared with the documented order *as terms*: equal terms
generate the same rows in the same order for every value of `order`.  Nothing is executed and no
particular order is enumerated.
"""
from __future__ import annotations

import ast

import sympy as sp

from gridlint.core import norm


class Undecided(Exception):
    pass


def expr(e, env):
    if isinstance(e, ast.Constant) and isinstance(e.value, int) and not isinstance(e.value, bool):
        return sp.Integer(e.value)
    if isinstance(e, ast.Name):
        if e.id in env:
            return env[e.id]
        return sp.Symbol(e.id)
    if isinstance(e, ast.UnaryOp) and isinstance(e.op, (ast.USub, ast.UAdd)):
        v = expr(e.operand, env)
        return -v if isinstance(e.op, ast.USub) else v
    if isinstance(e, ast.BinOp) and isinstance(e.op, (ast.Add, ast.Sub, ast.Mult)):
        a, b = expr(e.left, env), expr(e.right, env)
        return a + b if isinstance(e.op, ast.Add) else a - b if isinstance(e.op, ast.Sub) else a * b
    raise Undecided(f"row entry `{norm(e)[:40]}`")


def row(e, env):
    if isinstance(e, (ast.List, ast.Tuple)):
        return ("row", tuple(sp.expand(expr(x, env)) for x in e.elts))
    raise Undecided(f"row `{norm(e)[:40]}` is not a list display")


def rows_of(e, env):
    """Stream of a list-valued expression: a display of rows or a comprehension of rows."""
    if isinstance(e, (ast.List, ast.Tuple)):
        return ("seq", tuple(row(x, env) for x in e.elts))
    if isinstance(e, (ast.ListComp, ast.GeneratorExp)):
        return comp(e.elt, list(e.generators), env)
    raise Undecided(f"rows `{norm(e)[:40]}`")


def comp(elt, gens, env):
    if not gens:
        return row(elt, env)
    g = gens[0]
    if g.ifs or not isinstance(g.target, ast.Name):
        raise Undecided("comprehension with a filter / tuple target")
    return loop(g.target.id, g.iter, lambda env2: comp(elt, gens[1:], env2), env)


def loop(var, it, body_fn, env):
    if isinstance(it, (ast.Tuple, ast.List)):
        # a loop over a literal tuple is unrolled
        return ("seq", tuple(body_fn({**env, var: expr(x, env)}) for x in it.elts))
    if isinstance(it, ast.Call) and norm(it.func) == "range" and 1 <= len(it.args) <= 3 and not it.keywords:
        a = [sp.expand(expr(x, env)) for x in it.args]
        start, stop, step = (sp.Integer(0), a[0], sp.Integer(1)) if len(a) == 1 else \
            (a[0], a[1], sp.Integer(1)) if len(a) == 2 else tuple(a)
        v = sp.Symbol(f"_{var}_{len(env)}")
        return ("for", v, (start, stop, step), body_fn({**env, var: v}))
    if isinstance(it, ast.Call) and norm(it.func) == "sorted" and len(it.args) == 1 and \
            [k.arg for k in it.keywords] == ["key"] and norm(it.keywords[0].value) == "abs" and \
            isinstance(it.args[0], ast.Call) and norm(it.args[0].func) == "range" and len(it.args[0].args) == 2:
        lo, hi = (sp.expand(expr(x, env)) for x in it.args[0].args)
        if sp.expand(lo + hi - 1) == 0:
            # sorted(range(-A, A + 1), key=abs): 0, then -m, m for m = 1..A (the sort is stable, and -m
            # precedes m in the range)
            v = sp.Symbol(f"_{var}_{len(env)}")
            return ("seq", (body_fn({**env, var: sp.Integer(0)}),
                            ("for", v, (sp.Integer(1), hi, sp.Integer(1)),
                             ("seq", (body_fn({**env, var: -v}), body_fn({**env, var: v}))))))
    raise Undecided(f"loop over `{norm(it)[:40]}`")


def block(stmts, acc, env, cur=()):
    """Stream appended to the accumulator `acc` by a statement list; `cur` = stream so far (a plain
    assignment to the accumulator restarts it)."""
    out = list(cur)
    for s in stmts:
        if isinstance(s, ast.Expr) and isinstance(s.value, ast.Constant):
            continue
        if isinstance(s, ast.Assign) and len(s.targets) == 1 and norm(s.targets[0]) == acc:
            v = s.value
            if isinstance(v, ast.Call) and norm(v.func) in ("np.array", "np.asarray") and v.args and norm(v.args[0]) == acc:
                continue   # the final conversion of the accumulator
            out = [] if (isinstance(v, ast.List) and not v.elts) else [rows_of(v, env)]
        elif isinstance(s, ast.AugAssign) and norm(s.target) == acc and isinstance(s.op, ast.Add):
            out.append(rows_of(s.value, env))
        elif isinstance(s, ast.Expr) and isinstance(s.value, ast.Call) and isinstance(s.value.func, ast.Attribute) and \
                norm(s.value.func.value) == acc and s.value.func.attr in ("append", "extend") and len(s.value.args) == 1:
            a = s.value.args[0]
            out.append(row(a, env) if s.value.func.attr == "append" else rows_of(a, env))
        elif isinstance(s, ast.For) and isinstance(s.target, ast.Name) and not s.orelse:
            out.append(loop(s.target.id, s.iter, lambda env2, b=s.body: ("seq", tuple(block(b, acc, env2))), env))
        elif isinstance(s, ast.If):
            out.append(("cond", cond(s.test, env), ("seq", tuple(block(s.body, acc, env))),
                        ("seq", tuple(block(s.orelse, acc, env)))))
        elif isinstance(s, (ast.Return, ast.Raise, ast.Pass)):
            break
        elif any(isinstance(x, ast.Name) and x.id == acc for x in ast.walk(s)):
            raise Undecided(f"statement `{norm(s)[:50]}` touches the accumulator")
    return out


def cond(test, env):
    if isinstance(test, ast.Compare) and len(test.ops) == 1 and isinstance(test.ops[0], (ast.Eq, ast.NotEq)):
        return ("eq" if isinstance(test.ops[0], ast.Eq) else "ne", sp.expand(expr(test.left, env)),
                sp.expand(expr(test.comparators[0], env)))
    raise Undecided(f"condition `{norm(test)[:40]}`")


# ------------------------------------------------------------------------------------ normal form
def _nonneg(e, nonneg):
    """e is a sum of non-negative symbols with non-negative coefficients plus a non-negative constant."""
    e = sp.expand(e)
    for t in (e.as_ordered_terms() if e.is_Add else [e]):
        c, m = t.as_coeff_Mul()
        if c < 0:
            return False
        if m != 1 and m not in nonneg:
            return False
    return True


def normalise(t, nonneg):
    kind = t[0]
    if kind == "row":
        return t
    if kind == "seq":
        out = []
        for x in t[1]:
            n = normalise(x, nonneg)
            if n[0] == "seq":
                out += list(n[1])
            else:
                out.append(n)
        return out[0] if len(out) == 1 else ("seq", tuple(out))
    if kind == "cond":
        raise Undecided("a condition outside a loop over its variable")
    if kind == "for":
        v, (start, stop, step), body = t[1], t[2], t[3]
        nn = set(nonneg)
        if step == 1 and _nonneg(start, nonneg):
            nn.add(v)
        if step == -1 and _nonneg(stop + 1, nonneg):
            nn.add(v)
        # peel `if v != start: A else: B` (or `if v == start: B else: A`) off the loop
        if body[0] == "seq" and len(body[1]) == 1 and body[1][0][0] == "cond":
            body = body[1][0]
        if body[0] == "cond":
            op, a, b = body[1]
            if {a, b} == {v, start} or (a == v and b == start) or (b == v and a == start):
                first, rest = (body[3], body[2]) if op == "ne" else (body[2], body[3])
                if step == 1 and _nonneg(stop - start - 1, nonneg):     # the range is never empty
                    head = _subst(first, v, start)
                    tail = ("for", v, (start + 1, stop, step), rest)
                    return normalise(("seq", (head, tail)), nonneg)
            raise Undecided("a condition on the loop variable that is not a test of the first iteration")
        return ("for", v, (sp.expand(start), sp.expand(stop), step), normalise(body, nn))
    raise Undecided(kind)


def _subst(t, v, val):
    if t[0] == "row":
        return ("row", tuple(sp.expand(e.subs(v, val)) for e in t[1]))
    if t[0] == "seq":
        return ("seq", tuple(_subst(x, v, val) for x in t[1]))
    if t[0] == "for":
        return ("for", t[1], tuple(sp.expand(e.subs(v, val)) for e in t[2]), _subst(t[3], v, val))
    if t[0] == "cond":
        return ("cond", (t[1][0], sp.expand(t[1][1].subs(v, val)), sp.expand(t[1][2].subs(v, val))),
                _subst(t[2], v, val), _subst(t[3], v, val))
    return t


def alpha(t, counter=None, ren=None):
    """Rename bound variables v0, v1, ... in order of appearance."""
    counter = counter if counter is not None else [0]
    ren = dict(ren or {})
    if t[0] == "row":
        return ("row", tuple(sp.expand(e.subs(ren)) for e in t[1]))
    if t[0] == "seq":
        return ("seq", tuple(alpha(x, counter, ren) for x in t[1]))
    if t[0] == "for":
        rng = tuple(sp.expand(sp.sympify(e).subs(ren)) for e in t[2])
        nv = sp.Symbol(f"v{counter[0]}")
        counter[0] += 1
        ren[t[1]] = nv
        return ("for", nv, rng, alpha(t[3], counter, ren))
    return t


def show(t):
    if t[0] == "row":
        return "(" + ", ".join(str(e) for e in t[1]) + ")"
    if t[0] == "seq":
        return "[" + ", ".join(show(x) for x in t[1]) + "]"
    if t[0] == "for":
        a, b, c = t[2]
        return f"for {t[1]} in range({a}, {b}, {c}): {show(t[3])}"
    return str(t)


def stream_of(stmts, acc, nonneg=("order",)):
    nn = {sp.Symbol(n) for n in nonneg}
    t = ("seq", tuple(block(stmts, acc, {})))
    return alpha(normalise(t, nn))
