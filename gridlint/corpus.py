"""Mutation corpus for the self-test (see selftest.py).

Each variant: prop, name, kind ('fire' | 'silent'), edits, expect (fragment of the violation key
for 'fire').  Edits are ('sub', file, old, new[, count]) text substitutions, ('append', file,
text), ('rm', relative path under src/grid), ('json', path, fn), ('npz', path, fn).
"""

V = []


def fire(prop, name, expect, *edits):
    V.append({"prop": prop, "name": name, "kind": "fire", "expect": expect, "edits": list(edits)})


def silent(prop, name, *edits):
    V.append({"prop": prop, "name": name, "kind": "silent", "edits": list(edits)})


# ------------------------------------------------------------------------------------------ C20
fire("C20", "reintroduce: ode rhs accumulated in place", "ode._rearrange_to_explicit_ode",
     ("sub", "ode.py", "        result = result - b * y[i]\n", "        result -= b * y[i]\n"))
fire("C20", "reintroduce: defaults written into caller's ode_params", "poisson._solve_poisson_",
     ("sub", "poisson.py", "    ode_params = dict({}) if ode_params is None else dict(ode_params)\n",
      "    if ode_params is None:\n        ode_params = dict({})\n", 2))
fire("C20", "caller's points shifted in place via alias", "utils.convert_cart_to_sph",
     ("sub", "utils.py", "    relat_pts = points - center\n", "    relat_pts = points\n    relat_pts -= center\n"))
fire("C20", "out= into a view of the caller's array", "coulomb.coulomb_gaussian_s",
     ("sub", "coulomb.py", "    out = np.empty_like(r)\n    sqrt_alpha", "    out = r\n    sqrt_alpha"))
fire("C20", "caller's function values scaled in place", "molgrid.MolGrid.interpolate",
     ("sub", "molgrid.py", "        func_vals_atom = func_vals * self.aim_weights\n",
      "        func_vals *= self.aim_weights\n        func_vals_atom = func_vals\n"))
fire("C20", "asarray view then in-place scaling of sector list", "atomgrid.AtomGrid._generate_degree_from_radius",
     ("sub", "atomgrid.py", "        r_sectors = np.array(r_sectors) * radius\n",
      "        r_sectors = np.asarray(r_sectors)\n        r_sectors *= radius\n"))
fire("C20", "np.array copy replaced by asarray before in-place subtraction", "robust_poisson.solve_poisson_robust",
     ("sub", "robust_poisson.py", "    residual = np.array(density_vals, dtype=float)\n",
      "    residual = np.asarray(density_vals, dtype=float)\n"))
fire("C20", "mutator method on a caller-supplied list", "becke.BeckeWeights.generate_weights",
     ("sub", "becke.py", "        if pt_ind is None:\n            pt_ind = []\n        elif len(pt_ind) == 1:\n            raise ValueError(\"pt_ind need include the ends of each section\")\n        # check how many sectors for becke weights need to be calculated\n        sectors = max(len(pt_ind) - 1, 1)  # total sectors\n        if sectors != len(select):\n            raise ValueError(\"# of select does not equal to # of indices.\")\n        weights = np.zeros(len(points))\n        n_p",
      "        if pt_ind is None:\n            pt_ind = []\n        elif len(pt_ind) == 1:\n            raise ValueError(\"pt_ind need include the ends of each section\")\n        # check how many sectors for becke weights need to be calculated\n        sectors = max(len(pt_ind) - 1, 1)  # total sectors\n        if sectors != len(select):\n            raise ValueError(\"# of select does not equal to # of indices.\")\n        pt_ind.sort()\n        weights = np.zeros(len(points))\n        n_p"))
fire("C20", "stored caller array written later through a field", "basegrid.Grid.integrate",
     ("sub", "basegrid.py", "        if len(value_arrays) < 1:\n            raise ValueError(\"No array is given to integrate.\")\n",
      "        if len(value_arrays) < 1:\n            raise ValueError(\"No array is given to integrate.\")\n        self._weights[0] += 0.0\n"))
fire("C20", "callback result of a weight callable clipped in place", "molgrid.MolGrid.__init__",
     ("sub", "molgrid.py", "            self._aim_weights = aim_weights(self._points, self._atcoords, atnums, self._indices)\n",
      "            self._aim_weights = aim_weights(self._points, self._atcoords, atnums, self._indices)\n            self._aim_weights[self._aim_weights < 0] = 0.0\n"))
fire("C20", "attribute of a caller-supplied grid object re-assigned", "atomgrid.AtomGrid.__init__",
     ("sub", "atomgrid.py", "        self._input_type_check(rgrid, center)\n        # assign & check stage\n",
      "        self._input_type_check(rgrid, center)\n        rgrid.weights = np.abs(rgrid.weights)\n        # assign & check stage\n"))
fire("C20", "positional out argument of a ufunc aliases the caller's array", "utils.convert_cart_to_sph",
     ("sub", "utils.py", "    relat_pts = points - center\n", "    relat_pts = np.subtract(points, center, points)\n"))
fire("C20", "nan_to_num(copy=False) on caller's values", "basegrid.Grid.moments",
     ("sub", "basegrid.py", "        if func_vals.ndim > 1:\n", "        func_vals = np.nan_to_num(func_vals, copy=False)\n        if func_vals.ndim > 1:\n"))
silent("C20", "copy() replaced by np.array()",
       ("sub", "atomgrid.py", "            points, weights = sphere_grid.points.copy(), sphere_grid.weights.copy()\n",
        "            points, weights = np.array(sphere_grid.points), np.array(sphere_grid.weights)\n"))
silent("C20", "x += y replaced by x = x + y",
       ("sub", "hirshfeld.py", "            promolecule += proatom\n", "            promolecule = promolecule + proatom\n"))
silent("C20", "new public function that only reads its argument",
       ("append", "utils.py", "\n\ndef total_of(values):\n    \"\"\"Sum of the values.\"\"\"\n    return np.sum(np.asarray(values))\n"))
silent("C20", "private helper stops copying but all callers pass fresh arrays",
       ("sub", "rtransform.py", "            new_v = array.copy()  # change for arrays with copy\n", "            new_v = array\n"))
silent("C20", "local renamed in the ode helper",
       ("sub", "ode.py", "    result = fx\n", "    acc = fx\n"),
       ("sub", "ode.py", "        result = result - b * y[i]\n\n    return result / coeff_b[-1]", "        acc = acc - b * y[i]\n\n    return acc / coeff_b[-1]"))

# ------------------------------------------------------------------------------------------ C19
fire("C19", "reintroduce: cached arrays handed to the instance uncopied", "R1.cache-content-escapes",
     ("sub", "angular.py", "            super().__init__(points.copy(), weights.copy())\n", "            super().__init__(points, weights)\n"),
     ("sub", "angular.py", "            super().__init__(points.copy(), weights * 4 * np.pi)\n", "            super().__init__(points, weights * 4 * np.pi)\n"))
fire("C19", "only the weights of maxdet leak", "R1.cache-content-escapes",
     ("sub", "angular.py", "            super().__init__(points.copy(), weights.copy())\n", "            super().__init__(points.copy(), weights)\n"))
fire("C19", "cached weights rescaled in place on a cache hit", "R1.no-write-to-shared-state",
     ("sub", "angular.py", "            points, weights = cache_dict[degree]\n",
      "            points, weights = cache_dict[degree]\n            weights *= 1.0\n"))
fire("C19", "scale b overwritten on every call", "R3.transform-stateless",
     ("sub", "rtransform.py", "        if self.b is None:\n            self._b = np.max(x)\n", "        if True:\n            self._b = np.max(x)\n", 3))
fire("C19", "a method uses b without fixing it first", "R3.scale-set-before-use",
     ("sub", "rtransform.py", "        self.set_maximum_parameter_b(x)\n        alpha = np.log(self._rmax / self._rmin) / self.b\n        return self.deriv(x) * alpha\n",
      "        alpha = np.log(self._rmax / self._rmin) / self.b\n        return self.deriv(x) * alpha\n"))
fire("C19", "Coulomb table entry handed out without conversion", "R1.cache-content-escapes",
     ("sub", "coulomb.py", "    coeffs_s = np.asarray(data[\"coeffs_s\"], dtype=float)\n", "    coeffs_s = data[\"coeffs_s\"]\n"))
fire("C19", "two methods share one cache", "R2.cache-injective",
     ("sub", "angular.py", "            cache_dict = MAX_DET_CACHE\n", "            cache_dict = SPHERICAL_CACHE\n"))
fire("C19", "Coulomb table reloaded on every call", "R4.rebind-under-is-None",
     ("sub", "coulomb.py", "    if _ATOMIC_GAUSS_PARAMS_CACHE is None:\n", "    if True:\n"))
fire("C19", "module-level table edited by a function", "R1.no-write-to-shared-state",
     ("sub", "angular.py", "        degrees = np.zeros(len(sizes), dtype=int)\n", "        degrees = np.zeros(len(sizes), dtype=int)\n        LEBEDEV_NPOINTS[0] = 0\n"))
fire("C19", "value changed after it was stored (first grid differs from cached ones)", "R5.cache-transparent",
     ("sub", "angular.py", "            if cache:\n                cache_dict[degree] = points, weights\n",
      "            if cache:\n                cache_dict[degree] = points, weights\n            weights = weights / np.sum(weights)\n"))
fire("C19", "cache hit swaps the stored pair", "R5.cache-transparent",
     ("sub", "angular.py", "            points, weights = cache_dict[degree]\n", "            weights, points = cache_dict[degree]\n"))
fire("C19", "size->degree memo keyed by the size alone (method ignored)", "R6.memo-key-complete",
     ("sub", "angular.py", "            deg = AngularGrid._get_degree_and_size(degree=None, size=size, method=method)[0]\n",
      "            deg = _SIZE_MEMO.get(int(size))\n            if deg is None:\n                deg = AngularGrid._get_degree_and_size(degree=None, size=size, method=method)[0]\n                _SIZE_MEMO[int(size)] = deg\n"),
     ("sub", "angular.py", "# Cache is used to store the angular grid\n", "_SIZE_MEMO = {}\n# Cache is used to store the angular grid\n"))
silent("C19", "size->degree memo keyed by (method, size)",
     ("sub", "angular.py", "            deg = AngularGrid._get_degree_and_size(degree=None, size=size, method=method)[0]\n",
      "            deg = _SIZE_MEMO.get((method, int(size)))\n            if deg is None:\n                deg = AngularGrid._get_degree_and_size(degree=None, size=size, method=method)[0]\n                _SIZE_MEMO[(method, int(size))] = deg\n"),
     ("sub", "angular.py", "# Cache is used to store the angular grid\n", "_SIZE_MEMO = {}\n# Cache is used to store the angular grid\n"))
fire("C19", "inherited method re-opens the inferred scale", "R3.transform-stateless",
     ("sub", "rtransform.py", "        new_points = self.transform(oned_grid.points)\n", "        self._b = None\n        new_points = self.transform(oned_grid.points)\n"))
silent("C19", "freeze-on-fill instead of copy-on-read",
       ("sub", "angular.py", "            if cache:\n                cache_dict[degree] = points, weights\n",
        "            if cache:\n                points.setflags(write=False)\n                weights.setflags(write=False)\n                cache_dict[degree] = points, weights\n"),
       ("sub", "angular.py", "            super().__init__(points.copy(), weights.copy())\n", "            super().__init__(points, weights)\n"),
       ("sub", "angular.py", "            super().__init__(points.copy(), weights * 4 * np.pi)\n", "            super().__init__(points, weights * 4 * np.pi)\n"))
silent("C19", "copy() replaced by np.array()",
       ("sub", "angular.py", "            super().__init__(points.copy(), weights.copy())\n", "            super().__init__(np.array(points), np.array(weights))\n"))
silent("C19", "copy taken when reading the cache instead of at the boundary",
       ("sub", "angular.py", "            points, weights = cache_dict[degree]\n",
        "            points, weights = cache_dict[degree]\n            points, weights = points.copy(), weights.copy()\n"),
       ("sub", "angular.py", "            if cache:\n                cache_dict[degree] = points, weights\n",
        "            if cache:\n                cache_dict[degree] = points.copy(), weights.copy()\n"),
       ("sub", "angular.py", "            super().__init__(points.copy(), weights.copy())\n", "            super().__init__(points, weights)\n"),
       ("sub", "angular.py", "            super().__init__(points.copy(), weights * 4 * np.pi)\n", "            super().__init__(points, weights * 4 * np.pi)\n"))

# ------------------------------------------------------------------------------------------ C10
fire("C10", "reintroduce: AtomGrid never initialises the neighbour tree", "R1.definite-fields",
     ("sub", "atomgrid.py", "        self._basis = None\n        self._kdtree = None\n", "        self._basis = None\n"))
fire("C10", "reintroduce: local grid reads the raw points", "R2.raw-field-under-overridden-property",
     ("sub", "basegrid.py", "        points, weights = self.points, self.weights\n", "        points, weights = self._points, self._weights\n"))
fire("C10", "reintroduce: points setter keeps the stale tree", "R3.memo-invalidated",
     ("sub", "basegrid.py", "        # the neighbour tree was built for the old points\n        self._kdtree = None\n", ""))
fire("C10", "reintroduce: float index array for an empty sphere", "R4.index-array-from-list",
     ("sub", "basegrid.py", "query_ball_point(_center, radius, p=2.0), dtype=int)", "query_ball_point(_center, radius, p=2.0))"))
fire("C10", "reintroduce: NumPy integers rejected by selection", "R5.numpy-integers-accepted",
     ("sub", "basegrid.py", "        if isinstance(index, (int, np.integer)):\n", "        if isinstance(index, int):\n", 2))
fire("C10", "Grid.__init__ forgets the tree field", "R1.definite-fields",
     ("sub", "basegrid.py", "        self._weights = weights\n        self._kdtree = None\n", "        self._weights = weights\n"))
fire("C10", "periodic selection drops the lattice", "R6.selection-rewraps",
     ("sub", "periodicgrid.py", "                np.array(self.weights[index]),\n                self.realvecs,\n", "                np.array(self.weights[index]),\n"))
fire("C10", "one-dimensional selection drops the domain", "R6.selection-rewraps",
     ("sub", "basegrid.py", "                np.array(self.weights[index]),\n                self._domain,\n", "                np.array(self.weights[index]),\n"))
fire("C10", "field read in a constructor helper before it is assigned", "R1.definite-fields",
     ("sub", "cubic.py", "        self._axes = axes\n        self._origin = origin\n", "        self._origin = origin\n"),
     ("sub", "cubic.py", "        super().__init__(points, weights, shape)\n\n    @classmethod\n    def from_molecule",
      "        super().__init__(points, weights, shape)\n        self._axes = axes\n\n    @classmethod\n    def from_molecule"))
fire("C10", "points setter no longer checks the shape", "R3b.setter-keeps-shape",
     ("sub", "basegrid.py", "        if value.shape != self._points.shape:\n", "        if False:\n"))
fire("C10", "integer index converted to slice(i, i + 1) (empty selection for -1)", "R8.integer-to-slice",
     ("sub", "periodicgrid.py", "        if isinstance(index, (int, np.integer)):\n            return self.__class__(\n                np.array([self.points[index]]),\n                np.array([self.weights[index]]),\n                self.realvecs,\n            )\n        else:\n",
      "        if isinstance(index, (int, np.integer)):\n            index = slice(index, index + 1)\n        if True:\n"))
fire("C10", "memo reset made conditional on a value comparison", "R3.memo-invalidated",
     ("sub", "basegrid.py", "        # the neighbour tree was built for the old points\n        self._kdtree = None\n",
      "        if not np.array_equal(value, self._points):\n            self._kdtree = None\n"))
silent("C10", "memo reset guarded by the memo itself",
       ("sub", "basegrid.py", "        # the neighbour tree was built for the old points\n        self._kdtree = None\n",
        "        if self._kdtree is not None:\n            self._kdtree = None\n"))
fire("C10", "selection index forced to an integer dtype (masks become positions)", "R9.index-dtype-preserved",
     ("sub", "periodicgrid.py", "                np.array(self.points[index]),\n                np.array(self.weights[index]),\n                self.realvecs,\n            )\n\n",
      "                np.array(self.points[np.asarray(index, dtype=int)]),\n                np.array(self.weights[np.asarray(index, dtype=int)]),\n                self.realvecs,\n            )\n\n"))
silent("C10", "union-type spelling of the integer test",
       ("sub", "basegrid.py", "        if isinstance(index, (int, np.integer)):\n", "        if isinstance(index, int | np.integer):\n", 2))
silent("C10", "emptiness guard instead of integer dtype",
       ("sub", "basegrid.py", "            indices = np.array(self._kdtree.query_ball_point(_center, radius, p=2.0), dtype=int)\n",
        "            indices = np.array(self._kdtree.query_ball_point(_center, radius, p=2.0))\n            if len(indices) == 0:\n                return LocalGrid(points[:0], weights[:0], center, np.zeros(0, dtype=int))\n"))
silent("C10", "tree initialised through the base constructor helper",
       ("sub", "atomgrid.py", "        self._basis = None\n        self._kdtree = None\n", "        self._kdtree = None\n        self._basis = None\n"))

# ------------------------------------------------------------------------------------------ C12 / C02
fire("C12", "bisect result shifted by one", "O3.lower-bound-idiom",
     ("sub", "angular.py", "ang_degs[bisect_left(ang_degs, degree)]", "ang_degs[bisect_left(ang_degs, degree) - 1]"))
fire("C12", "bisect_right without membership test", "O3.lower-bound-idiom",
     ("sub", "angular.py", "            size = size if size in dict_npoints else ang_npts[bisect_left(ang_npts, size)]\n",
      "            size = ang_npts[bisect_right(ang_npts, size)]\n"),
     ("sub", "angular.py", "from bisect import bisect_left\n", "from bisect import bisect_left, bisect_right\n"))
fire("C12", "two table entries swapped", "O1.table-sorted",
     ("sub", "angular.py", "LEBEDEV_NPOINTS = {\n    6: 3,\n    18: 5,\n", "LEBEDEV_NPOINTS = {\n    18: 5,\n    6: 3,\n"))
fire("C12", "table entry without data file", "O4.file-for-pair",
     ("sub", "angular.py", "    5810: 131,\n}", "    5810: 131,\n    6000: 133,\n}"))
fire("C12", "degree branch returns a size of the wrong table", "O3.matching-pair",
     ("sub", "angular.py", "            return degree, dict_degrees[degree]\n", "            return degree, dict_npoints.get(degree, 0)\n"))
fire("C12", "resolver bisects the keys of the other table", "O3.key-list",
     ("sub", "angular.py", "            ang_degs = list(dict_degrees.keys())\n", "            ang_degs = list(dict_npoints.keys())\n"))
fire("C12", "upper guard rejects the maximum itself", "O3.range-guard",
     ("sub", "angular.py", "            if degree < 0 or degree > max_degree:\n", "            if degree < 0 or degree >= max_degree:\n"))
fire("C12", "converter writes at the wrong positions", "O5.converter-positions",
     ("sub", "angular.py", "            degrees[np.where(sizes == size)] = deg\n", "            degrees[np.where(sizes >= size)] = deg\n"))
fire("C12", "constructor stores the requested instead of the resolved degree", "O6.resolved-degree-stored",
     ("sub", "angular.py", "        degree, size = self._get_degree_and_size(degree=degree, size=size, method=method)\n",
      "        req_degree = degree\n        degree, size = self._get_degree_and_size(degree=degree, size=size, method=method)\n"),
     ("sub", "angular.py", "        self._degree = degree\n", "        self._degree = req_degree\n"))
fire("C12", "data file removed", "O4.file-for-pair", ("rm", "data/lebedev/lebedev_17_110.npz"))
fire("C12", "inverse table built from another table", "O2.inverse-table",
     ("sub", "angular.py", "SPHERICAL_DEGREES = dict([(v, k) for k, v in SPHERICAL_NPOINTS.items()])\n",
      "SPHERICAL_DEGREES = dict([(v, k) for k, v in LEBEDEV_NPOINTS.items()])\n"))
fire("C12", "bisect position advanced past some grids (statement form)", "O3.lower-bound-idiom",
     ("sub", "angular.py", "            degree = degree if degree in dict_degrees else ang_degs[bisect_left(ang_degs, degree)]\n",
      "            if degree not in dict_degrees:\n                pos = bisect_left(ang_degs, degree)\n                if ang_degs[pos] % 2 == 0:\n                    pos += 1\n                degree = ang_degs[pos]\n"))
silent("C12", "lookup written in statement form",
       ("sub", "angular.py", "            degree = degree if degree in dict_degrees else ang_degs[bisect_left(ang_degs, degree)]\n",
        "            if degree not in dict_degrees:\n                pos = bisect_left(ang_degs, degree)\n                degree = ang_degs[pos]\n"))
fire("C12", "vectorised converter clamps out-of-range sizes", "O5.converter-positions",
     ("sub", "angular.py", "        degrees = np.zeros(len(sizes), dtype=int)\n        for size in np.unique(sizes):\n",
      "        keys = np.array(list(LEBEDEV_NPOINTS.keys()))\n        vals = np.array(list(LEBEDEV_NPOINTS.values()))\n        return vals[np.minimum(np.searchsorted(keys, sizes), len(keys) - 1)]\n        degrees = np.zeros(len(sizes), dtype=int)\n        for size in np.unique(sizes):\n"))
silent("C12", "bisect_left replaced by np.searchsorted(side='left')",
       ("sub", "angular.py", "ang_degs[bisect_left(ang_degs, degree)]", "ang_degs[np.searchsorted(ang_degs, degree, side=\"left\")]"))
silent("C12", "membership shortcut removed (plain bisect_left)",
       ("sub", "angular.py", "            size = size if size in dict_npoints else ang_npts[bisect_left(ang_npts, size)]\n",
        "            size = ang_npts[bisect_left(ang_npts, size)]\n"))
silent("C12", "inversion written as a dict comprehension",
       ("sub", "angular.py", "LEBEDEV_DEGREES = dict([(v, k) for k, v in LEBEDEV_NPOINTS.items()])\n",
        "LEBEDEV_DEGREES = {v: k for k, v in LEBEDEV_NPOINTS.items()}\n"))
fire("C02", "data file removed", "R1.file-exists", ("rm", "data/spherical_design/spherical_5_12.npz"))
fire("C02", "method routed to another data directory", "R1.file-exists",
     ("sub", "angular.py", "            file_path = \"grid.data.ahrens_beylkin\"\n", "            file_path = \"grid.data.maxdet\"\n"))
fire("C02", "archive holds a grid of another size", "R1.points-shape",
     ("npz", "data/lebedev/lebedev_5_18.npz", lambda m, np: m.update(points=m["points"][:14], weights=m["weights"][:14])))
fire("C02", "embedded label disagrees with the file name", "R1.embedded-label",
     ("npz", "data/lebedev/lebedev_7_26.npz", lambda m, np: m.update(degree=np.array(9)) if "degree" in m else False))
fire("C02", "loader reads a member the archives do not have", "R1.members",
     ("sub", "angular.py", "        return data[\"points\"], data[\"weights\"]\n", "        return data[\"points\"], data[\"w\"]\n"))
fire("C02", "a method key dropped from one dispatch chain", "R2.dispatch-keys-agree",
     ("sub", "angular.py", "        elif method == \"ahrens_beylkin\":\n            cache_dict = AHRENS_BEYLKIN_CACHE\n", ""))
silent("C02", "single weight stored for a constant-weight grid",
       ("npz", "data/spherical_design/spherical_3_6.npz", lambda m, np: m.update(weights=m["weights"][:1])))

# ------------------------------------------------------------------------------------------ C17
fire("C17", "negative exponent in a shipped parameter set", "entry-positive-exponents",
     ("json", "data/atomic_gauss_params.json", lambda d: d[sorted(d)[0]]["alphas_s"].__setitem__(0, -1.0)))
fire("C17", "coefficient list shorter than exponent list", "entry-lengths",
     ("json", "data/atomic_gauss_params.json", lambda d: d[sorted(d)[0]]["coeffs_s"].pop()))
fire("C17", "entry lacks a key the loader reads", "entry-keys",
     ("json", "data/atomic_gauss_params.json", lambda d: d[sorted(d)[0]].pop("alphas_s")))
fire("C17", "entry under an unknown symbol", "entry-reachable",
     ("json", "data/atomic_gauss_params.json", lambda d: d.__setitem__("Xx", d[sorted(d)[0]])))
fire("C17", "loader hands the raw list out", "loader-fresh-conversion",
     ("sub", "coulomb.py", "    alphas_s = np.asarray(data[\"alphas_s\"], dtype=float)\n", "    alphas_s = data[\"alphas_s\"]\n"))
silent("C17", "additional well-formed element",
       ("json", "data/atomic_gauss_params.json", lambda d: d.__setitem__("He", {"coeffs_s": [1.0, 1.0], "alphas_s": [2.0, 0.5]})))

# analytic clause (E8 with an erf generator)
fire("C17", "s-type potential with the exponent instead of its root inside erf", "P1.poisson-identity/coulomb.coulomb_gaussian_s",
     ("sub", "coulomb.py", "    np.divide(erf(sqrt_alpha * r), r, out=out, where=r >= _R_ZERO_THRESHOLD)\n    # safe division\n    out[r < _R_ZERO_THRESHOLD] = 2.0 * sqrt_alpha / np.sqrt(np.pi)\n",
      "    np.divide(erf(alpha * r), r, out=out, where=r >= _R_ZERO_THRESHOLD)\n    # safe division\n    out[r < _R_ZERO_THRESHOLD] = 2.0 * alpha / np.sqrt(np.pi)\n"))
fire("C17", "s-type small-r constant without the factor 2", "P2.small-r-limit/coulomb.coulomb_gaussian_s",
     ("sub", "coulomb.py", "    out[r < _R_ZERO_THRESHOLD] = 2.0 * sqrt_alpha / np.sqrt(np.pi)\n",
      "    out[r < _R_ZERO_THRESHOLD] = sqrt_alpha / np.sqrt(np.pi)\n"))
fire("C17", "unnormalised s-type prefactor with the wrong power", "P1.poisson-identity/coulomb.coulomb_gaussian_s/unnormalized",
     ("sub", "coulomb.py", "    prefactor = (np.pi / alpha) ** 1.5\n", "    prefactor = (np.pi / alpha) ** 2.5\n"))
fire("C17", "s-type potential shifted by a constant", "P3.total-charge-at-infinity/coulomb.coulomb_gaussian_s",
     ("sub", "coulomb.py", "    if normalized:\n        return out\n\n    prefactor = (np.pi / alpha) ** 1.5\n    return prefactor * out\n",
      "    out = out + sqrt_alpha\n    if normalized:\n        return out\n\n    prefactor = (np.pi / alpha) ** 1.5\n    return prefactor * out\n"))
silent("C17", "repair of the known finding: the p-type Gaussian term and its r -> 0 value corrected",
       ("sub", "coulomb.py", "    term2 = (4.0 / 3.0) * (sqrt_alpha / np.sqrt(np.pi)) * np.exp(-alpha * r**2)\n",
        "    term2 = -(2.0 / 3.0) * (sqrt_alpha / np.sqrt(np.pi)) * np.exp(-alpha * r**2)\n"),
       ("sub", "coulomb.py", "    out[r < _R_ZERO_THRESHOLD] = (10.0 / 3.0) * (sqrt_alpha / np.sqrt(np.pi))\n",
        "    out[r < _R_ZERO_THRESHOLD] = (4.0 / 3.0) * (sqrt_alpha / np.sqrt(np.pi))\n"))
silent("C17", "s-type prefactor spelled pi * sqrt(pi) / (alpha * sqrt(alpha))",
       ("sub", "coulomb.py", "    prefactor = (np.pi / alpha) ** 1.5\n",
        "    prefactor = np.pi * np.sqrt(np.pi) / (alpha * sqrt_alpha)\n"))

silent("C13", "repair of the known finding: the molecule box anchored at min - extension",
       ("sub", "cubic.py", "        origin = com - np.dot((0.5 * shape), axes)\n",
        "        lower = min_coordinate - extension\n        origin = com + np.dot(lower / spacing, axes) if rotate else lower\n"))
# ------------------------------------------------------------------------------------------ C01
fire("C01", "tanh-sinh weights lose the factor pi/2", "R1.weights-are-node-map-derivative/onedgrid.TanhSinh",
     ("sub", "onedgrid.py", "        weights *= 0.5 * np.pi * delta\n", "        weights *= delta\n"))
fire("C01", "exp-exp weights with e^t - 1 instead of e^t + 1", "R1.weights-are-node-map-derivative/onedgrid.ExpExp",
     ("sub", "onedgrid.py", "        weights = h * np.exp(-np.exp(-k * h)) * (np.exp(k * h) + 1)\n",
      "        weights = h * np.exp(-np.exp(-k * h)) * (np.exp(k * h) - 1)\n"))
fire("C01", "arcsinh-exp weights with the wrong sign under the root", "R1.weights-are-node-map-derivative/onedgrid.SingleArcSinhExp",
     ("sub", "onedgrid.py", "        weights = h * np.exp(k * h) / np.sqrt(np.exp(2 * h * k) + 1)\n",
      "        weights = h * np.exp(k * h) / np.sqrt(np.exp(2 * h * k) - 1)\n"))
fire("C01", "single-tanh weights with cosh to the first power", "R1.weights-are-node-map-derivative/onedgrid.SingleTanh",
     ("sub", "onedgrid.py", "        weights = h / np.cosh(k * h) ** 2\n", "        weights = h / np.cosh(k * h)\n"))
fire("C01", "exp-sinh weights forget the step", "R1.weights-are-node-map-derivative/onedgrid.ExpSinh",
     ("sub", "onedgrid.py", "        weights = points * np.pi * h * np.cosh(k * h) / 2\n",
      "        weights = points * np.pi * np.cosh(k * h) / 2\n"))
fire("C01", "a coefficient of the derivative of the degree-9 Trefethen map", "R2.map-derivative-pair/onedgrid._derg3",
     ("sub", "onedgrid.py", "    return (1 / 53089) * (40320 + 20160 * x**2 + 15120 * x**4 + 12600 * x**6 + 11025 * x**8)\n",
      "    return (1 / 53089) * (40320 + 20160 * x**2 + 15120 * x**4 + 12600 * x**6 + 11052 * x**8)\n"))
fire("C01", "degree-9 map paired with the derivative of the degree-5 map", "R2.map-applied-with-its-derivative/onedgrid.TrefethenCC",
     ("sub", "onedgrid.py", "            weights = _derg3(grid.points) * grid.weights\n        else:\n            raise ValueError(f\"Degree {d} should be either 1, 5, 9.\")\n\n        super().__init__(points, weights, (-1, 1))\n\n\nclass TrefethenGC2",
      "            weights = _derg2(grid.points) * grid.weights\n        else:\n            raise ValueError(f\"Degree {d} should be either 1, 5, 9.\")\n\n        super().__init__(points, weights, (-1, 1))\n\n\nclass TrefethenGC2"))
silent("C01", "tanh-sinh weights with the square of cosh written as a product",
       ("sub", "onedgrid.py", "        weights = np.cosh(theta) / np.cosh(0.5 * np.pi * np.sinh(theta)) ** 2\n",
        "        arg = 0.5 * np.pi * np.sinh(theta)\n        weights = np.cosh(theta) / (np.cosh(arg) * np.cosh(arg))\n"))
silent("C01", "single-exp nodes reused in the weights",
       ("sub", "onedgrid.py", "        points = np.exp(k * h)\n        weights = h * np.exp(k * h)\n",
        "        points = np.exp(k * h)\n        weights = h * points\n"))
silent("C01", "arcsinh-exp weights with the root spelled as a power",
       ("sub", "onedgrid.py", "        weights = h * np.exp(k * h) / np.sqrt(np.exp(2 * h * k) + 1)\n",
        "        weights = h * np.exp(k * h) * (np.exp(h * k) ** 2 + 1) ** -0.5\n"))

# ------------------------------------------------------------------------------------------ C03
fire("C03", "coefficient changed in one copy of the third inverse derivative", "R1.inverse-formulas-agree",
     ("sub", "rtransform.py", "        return (3 * d2(r) ** 2 - d1(r) * d3(r)) / self._d1(r) ** 5\n",
      "        return (2 * d2(r) ** 2 - d1(r) * d3(r)) / self._d1(r) ** 5\n"))
fire("C03", "power changed in the base second inverse derivative", "R1.inverse-formulas-agree",
     ("sub", "rtransform.py", "        return -d2 / d1**3\n", "        return -d2 / d1**2\n"))
fire("C03", "a transform forgets its codomain", "R2.domain-fields-defined",
     ("sub", "rtransform.py", "    def __init__(self):\n        self._domain = (0, np.inf)\n        self._codomain = (0, np.inf)\n",
      "    def __init__(self):\n        self._domain = (0, np.inf)\n"))
fire("C03", "trimming ignored by one forward map", "R3.trim-honoured-by-transform",
     ("sub", "rtransform.py", "        rf_array = -self._R * np.log((x + 1) / 2) + self._rmin\n        if self.trim_inf:\n            rf_array = self._convert_inf(rf_array)\n",
      "        rf_array = -self._R * np.log((x + 1) / 2) + self._rmin\n"))
fire("C03", "negative infinity no longer replaced", "R3.convert-inf-two-sided",
     ("sub", "rtransform.py", "            new_v[new_v == -np.inf] = -replace_inf\n", ""))
silent("C03", "third inverse derivative re-factored through the lower ones (algebraically equal)",
       ("sub", "rtransform.py", "        return (3 * d2(r) ** 2 - d1(r) * d3(r)) / self._d1(r) ** 5\n",
        "        dx = 1 / self._d1(r)\n        d2x = -d2(r) * dx**3\n        return -d3(r) * dx**4 - 3 * d2(r) * dx**2 * d2x\n"))
fire("C03", "third inverse derivative re-factored with a sign slip", "R1.inverse-formulas-agree",
     ("sub", "rtransform.py", "        return (3 * d2(r) ** 2 - d1(r) * d3(r)) / self._d1(r) ** 5\n",
      "        dx = 1 / self._d1(r)\n        d2x = -d2(r) * dx**3\n        return -d3(r) * dx**4 + 3 * d2(r) * dx**2 * d2x\n"))
silent("C03", "commutative reordering in one copy",
       ("sub", "rtransform.py", "        return (3 * d2**2 - d1 * d3) / d1**5\n", "        return (d2**2 * 3 - d3 * d1) / d1**5\n"))
silent("C03", "trimming written as a conditional expression",
       ("sub", "rtransform.py", "        rf_array = -self._R * np.log((x + 1) / 2) + self._rmin\n        if self.trim_inf:\n            rf_array = self._convert_inf(rf_array)\n        return rf_array\n",
        "        rf_array = -self._R * np.log((x + 1) / 2) + self._rmin\n        return self._convert_inf(rf_array) if self.trim_inf else rf_array\n"))

# analytic identities (E8)
fire("C03", "reintroduce: HandyMod third derivative with 2*2**m instead of (2**m)**2", "R5.derivative-chain/rtransform.HandyModRTransform.deriv3",
     ("sub", "rtransform.py", "                    two_m**2 * (self._m - 2) * (self._m - 1) * (1 - two_m + size_r) ** 2\n",
      "                    2 * two_m * (self._m - 2) * (self._m - 1) * (1 - two_m + size_r) ** 2\n"))
fire("C03", "Becke second derivative with the wrong power", "R5.derivative-chain/rtransform.BeckeRTransform.deriv2",
     ("sub", "rtransform.py", "            return 4 * self._R / (1 - x) ** 3\n", "            return 4 * self._R / (1 - x) ** 4\n"))
fire("C03", "Knowles first derivative loses the factor k", "R5.derivative-chain/rtransform.KnowlesRTransform.deriv",
     ("sub", "rtransform.py", "        deriv = self._R * self._k * (qi ** (self._k - 1)) / (2**self._k - qi**self._k)\n",
      "        deriv = self._R * (qi ** (self._k - 1)) / (2**self._k - qi**self._k)\n"))
fire("C03", "Power transform third derivative misses (power - 2)", "R5.derivative-chain/rtransform.PowerRTransform.deriv3",
     ("sub", "rtransform.py", "        return power * (power - 1) * (power - 2) * self._rmin * np.power(x + 1, power - 3)\n",
      "        return power * (power - 1) * (power - 1) * self._rmin * np.power(x + 1, power - 3)\n"))
fire("C03", "MultiExp derivative sign", "R5.derivative-chain/rtransform.MultiExpRTransform.deriv",
     ("sub", "rtransform.py", "        return -self._R / (1 + x)\n", "        return self._R / (1 + x)\n"))
fire("C03", "Handy power base written (x - 1): not real for non-integer m", "R5.derivative-chain/rtransform.HandyRTransform.deriv",
     ("sub", "rtransform.py", "        dr = 2 * self._m * self._R * (1 + x) ** (self._m - 1) / (1 - x) ** (self._m + 1)\n",
      "        dr = 2 * self._m * self._R * (1 + x) ** (self._m - 1) / (x - 1) ** (self._m + 1)\n"))
fire("C03", "Knowles inverse takes the k-th power instead of the k-th root", "R6.inverse-undoes-forward/rtransform.KnowlesRTransform.inverse",
     ("sub", "rtransform.py", "        return -1 + 2 * (1 - np.exp((self._rmin - r) / self._R)) ** (1 / self._k)\n",
      "        return -1 + 2 * (1 - np.exp((self._rmin - r) / self._R)) ** self._k\n"))
fire("C03", "Becke inverse forgets rmin in the denominator", "R6.inverse-undoes-forward/rtransform.BeckeRTransform.inverse",
     ("sub", "rtransform.py", "        return (r - self._rmin - self._R) / (r - self._rmin + self._R)\n",
      "        return (r - self._rmin - self._R) / (r + self._R)\n"))
fire("C03", "Exp inverse uses rmax as the reference radius", "R6.inverse-undoes-forward/rtransform.ExpRTransform.inverse",
     ("sub", "rtransform.py", "        return np.log(r / self._rmin) / alpha\n", "        return np.log(r / self._rmax) / alpha\n"))
fire("C03", "both copies of the third inverse derivative changed alike", "R7.inverse-function-theorem/rtransform.BaseTransform.deriv3_inverse",
     ("sub", "rtransform.py", "        return (3 * d2**2 - d1 * d3) / d1**5\n", "        return (2 * d2**2 - d1 * d3) / d1**5\n"),
     ("sub", "rtransform.py", "        return (3 * d2(r) ** 2 - d1(r) * d3(r)) / self._d1(r) ** 5\n",
      "        return (2 * d2(r) ** 2 - d1(r) * d3(r)) / self._d1(r) ** 5\n"))
fire("C03", "second inverse derivative evaluates deriv2 at r instead of inverse(r)", "R7.inverse-function-theorem/rtransform.BaseTransform.deriv2_inverse",
     ("sub", "rtransform.py", "        x = self.inverse(r)\n        d1 = self.deriv(x)\n        d2 = self.deriv2(x)\n        if np.any(d1 == 0):\n            raise ZeroDivisionError(\"First derivative of original transformation has 0 value\")\n        return -d2 / d1**3\n",
      "        x = self.inverse(r)\n        d1 = self.deriv(x)\n        d2 = self.deriv2(r)\n        if np.any(d1 == 0):\n            raise ZeroDivisionError(\"First derivative of original transformation has 0 value\")\n        return -d2 / d1**3\n"))
fire("C03", "linear map offset by rmax: end points no longer hit the codomain ends", "R8.end-point-images/rtransform.LinearFiniteRTransform.transform",
     ("sub", "rtransform.py", "        return (1 + x) * (self._rmax - self._rmin) / 2 + self._rmin\n",
      "        return (1 + x) * (self._rmax - self._rmin) / 2 + self._rmax\n"),
     ("sub", "rtransform.py", "        return (2 * r - (self._rmax + self._rmin)) / (self._rmax - self._rmin)\n",
      "        return (2 * r - (3 * self._rmax - self._rmin)) / (self._rmax - self._rmin)\n"))
fire("C03", "MultiExp declares the codomain of the Becke map but maps x=1 to rmin - R log 1... shifted", "R8.end-point-images/rtransform.MultiExpRTransform.transform",
     ("sub", "rtransform.py", "        rf_array = -self._R * np.log((x + 1) / 2) + self._rmin\n",
      "        rf_array = -self._R * np.log((x + 1) / 4) + self._rmin\n"),
     ("sub", "rtransform.py", "        return 2 * np.exp(-(r - self._rmin) / self._R) - 1\n",
      "        return 4 * np.exp(-(r - self._rmin) / self._R) - 1\n"))
silent("C03", "Becke derivatives spelled with repeated division", 
       ("sub", "rtransform.py", "            return 4 * self._R / (1 - x) ** 3\n", "            return 4 * self._R / (1 - x) / (1 - x) / (1 - x)\n"))
silent("C03", "Handy third derivative in product-rule form (the correct one)",
       ("sub", "rtransform.py", "            * (1 + 6 * self._m * x + 2 * self._m**2 + 3 * x**2)\n",
        "            * ((1 + x) * (1 - x) + (self._m + x) * ((self._m + 2) * (1 + x) + (self._m - 2) * (1 - x)))\n"))
silent("C03", "Power map written with exp/log", 
       ("sub", "rtransform.py", "        return self._rmin * np.power(x + 1, power)\n", "        return self._rmin * np.exp(power * np.log(x + 1))\n"))
silent("C03", "Knowles transform with the 2**k factored into the base",
       ("sub", "rtransform.py", "        rf_array = -self._R * np.log(1 - (2**-self._k) * (x + 1) ** self._k) + self._rmin\n",
        "        rf_array = -self._R * np.log(1 - ((x + 1) / 2) ** self._k) + self._rmin\n"))
silent("C03", "MultiExp inverse with the logarithm of 2 folded into the exponent",
       ("sub", "rtransform.py", "        return 2 * np.exp(-(r - self._rmin) / self._R) - 1\n",
        "        return np.exp(np.log(2) - (r - self._rmin) / self._R) - 1\n"))
silent("C03", "HandyMod derivative denominator expanded differently",
       ("sub", "rtransform.py", "            / (two_m * (1 - two_m + size_r) + (two_m - size_r) * (1 + x) ** self._m) ** 2\n",
        "            / (two_m - two_m * two_m + two_m * size_r + (two_m - size_r) * (1 + x) ** self._m) ** 2\n"))

# ------------------------------------------------------------------------------------------ C04
fire("C04", "Jacobian evaluated with the second derivative", "b.weights-times-jacobian",
     ("sub", "rtransform.py", "        new_weights = self.deriv(oned_grid.points) * oned_grid.weights\n",
      "        new_weights = self.deriv2(oned_grid.points) * oned_grid.weights\n"))
fire("C04", "image domain no longer ordered", "d.domain-is-ordered-image",
     ("sub", "rtransform.py", "            new_domain = tuple(np.sort(self.transform(np.array(oned_grid.domain))))\n",
      "            new_domain = tuple(self.transform(np.array(oned_grid.domain)))\n"))
fire("C04", "nodes shifted after mapping", "a.points-are-mapped-nodes",
     ("sub", "rtransform.py", "        new_points = self.transform(oned_grid.points)\n", "        new_points = self.transform(oned_grid.points) + 1e-9\n"))
fire("C04", "containment check disarmed", "f.containment-check-armed",
     ("sub", "basegrid.py", "            if domain[1] + 1e-7 < max_p:\n", "            if False:\n"))
fire("C04", "precondition checks one end only", "e.domain-precondition",
     ("sub", "rtransform.py", "        if oned_grid.domain[0] < self.domain[0] or oned_grid.domain[1] > self.domain[1]:\n",
      "        if oned_grid.domain[0] < self.domain[0]:\n"))
silent("C04", "magnitude of the Jacobian (repairs the known finding)",
       ("sub", "rtransform.py", "        new_weights = self.deriv(oned_grid.points) * oned_grid.weights\n",
        "        new_weights = np.abs(self.deriv(oned_grid.points)) * oned_grid.weights\n"))
silent("C04", "factors of the weight product exchanged",
       ("sub", "rtransform.py", "        new_weights = self.deriv(oned_grid.points) * oned_grid.weights\n",
        "        new_weights = oned_grid.weights * self.deriv(oned_grid.points)\n"))

# ------------------------------------------------------------------------------------------ C05
fire("C05", "shell extraction rotates with a different seed", "R2.shell-sibling",
     ("sub", "atomgrid.py", "            rot_mt = R.random(random_state=self.rotate + index).as_matrix()\n",
      "            rot_mt = R.random(random_state=self.rotate).as_matrix()\n"))
fire("C05", "shell extraction uses another radial Jacobian", "R2.shell-sibling",
     ("sub", "atomgrid.py", "            wts = wts * self.rgrid[index].points ** 2\n", "            wts = wts * self.rgrid[index].points ** 3\n"))
fire("C05", "reintroduce: potassium routed to the sector branch", "R1.preset-table-fits-branch",
     ("sub", "atomgrid.py", "preset == \"sg_1\" and atnum >= 19", "preset == \"sg_1\" and atnum > 19"))
fire("C05", "centre added while generating the shells", "R3.centre-added-once",
     ("sub", "atomgrid.py", "            points = points * rgrid[i].points\n", "            points = points * rgrid[i].points + center\n"),
     ("sub", "atomgrid.py", "        rotate: int = 0,\n        method: str = \"lebedev\",\n    ):\n        \"\"\"Generate atomic grid for each radial point",
      "        rotate: int = 0,\n        method: str = \"lebedev\",\n        center=0.0,\n    ):\n        \"\"\"Generate atomic grid for each radial point"))
fire("C05", "unseeded rotation", "R4.rotation-seeded",
     ("sub", "atomgrid.py", "                rot_mt = R.random(random_state=rotate + i).as_matrix()\n", "                rot_mt = R.random().as_matrix()\n"))
fire("C05", "count-style preset passed as degrees", "R5.count-presets-pass-sizes",
     ("sub", "atomgrid.py", "            return cls(rgrid, None, sizes=sector_sizes, center=center, rotate=rotate, method=method)\n",
      "            return cls(rgrid, sector_sizes, center=center, rotate=rotate, method=method)\n", 2))
fire("C05", "preset table with a size beyond the largest grid", "R1.preset-sizes-supported",
     ("npz", "data/prune_grid/prune_grid_g1.npz", lambda m, np: m.update({"8_npt": np.array([14, 50, 9000])})))
fire("C05", "preset drops the rotation seed", "R5.preset-forwards-arguments",
     ("sub", "atomgrid.py", "            return cls(rgrid, degrees=rad_degs, center=center, rotate=rotate, method=method)\n",
      "            return cls(rgrid, degrees=rad_degs, center=center, method=method)\n"))
silent("C05", "shell weights re-associated in one sibling",
       ("sub", "atomgrid.py", "            weights = weights * rgrid[i].weights * rgrid[i].points ** 2\n",
        "            weights = weights * (rgrid[i].points ** 2 * rgrid[i].weights)\n"))
silent("C05", "matrix product spelled np.dot in one sibling",
       ("sub", "atomgrid.py", "            pts = pts.dot(rot_mt)\n", "            pts = np.dot(pts, rot_mt)\n"))

# ------------------------------------------------------------------------------------------ C06
fire("C06", "nan policy changed in the per-atom clone only", "R1.becke-routes-agree",
     ("sub", "becke.py", "        s_ab[np.isnan(s_ab)] = 1\n        # product up A_B, A_C, A_D ... along rows\n        s_ab = np.prod(s_ab, axis=-1)\n        # calculate weight for each point in select\n        weights += s_ab[:, select]",
      "        s_ab[np.isnan(s_ab)] = 0\n        # product up A_B, A_C, A_D ... along rows\n        s_ab = np.prod(s_ab, axis=-1)\n        # calculate weight for each point in select\n        weights += s_ab[:, select]"))
fire("C06", "switching function iterated once more in one clone", "R1.becke-routes-agree",
     ("sub", "becke.py", "        s_ab = 0.5 * (1 - BeckeWeights._switch_func(v_pp, order=self._order))\n        del v_pp\n        # convert nan to 1\n        s_ab[np.isnan(s_ab)] = 1\n        # product up A_B, A_C, A_D ... along rows\n        s_ab = np.prod(s_ab, axis=-1)\n        # calculate weight for each point in select\n        if sectors == 1:",
      "        s_ab = 0.5 * (1 - BeckeWeights._switch_func(v_pp, order=self._order + 1))\n        del v_pp\n        # convert nan to 1\n        s_ab[np.isnan(s_ab)] = 1\n        # product up A_B, A_C, A_D ... along rows\n        s_ab = np.prod(s_ab, axis=-1)\n        # calculate weight for each point in select\n        if sectors == 1:"))
fire("C06", "shifted segment table no longer clipped", "R2.chunk-table-clipped",
     ("sub", "becke.py", "                    pt_ind=(indices - ibegin).clip(min=0),\n", "                    pt_ind=(indices - ibegin),\n"))
fire("C06", "segment table not shifted by the chunk start", "R2.chunk-table-shift",
     ("sub", "becke.py", "                    pt_ind=(indices - ibegin).clip(min=0),\n", "                    pt_ind=indices.clip(min=0),\n"))
fire("C06", "cut-off above one half", "R3.cutoff-below-half",
     ("sub", "becke.py", "    def _calculate_alpha(radii, cutoff=0.45):\n", "    def _calculate_alpha(radii, cutoff=0.55):\n"))
fire("C06", "lower clip removed", "R3.clipped-both-sides",
     ("sub", "becke.py", "        alpha[alpha < -cutoff] = -cutoff\n", ""))
fire("C06", "reintroduce: segment loop indexes with the atom number", "R4.segment-pairing",
     ("sub", "becke.py", "            for i, atom in enumerate(select):\n", "            for i in select:\n                atom = i\n"))
silent("C06", "local renamed in one clone",
       ("sub", "becke.py", "        v_pp = mu_p_n_n + alpha * (1 - mu_p_n_n**2)\n        del mu_p_n_n\n        s_ab = 0.5 * (1 - BeckeWeights._switch_func(v_pp, order=self._order))\n        del v_pp\n        # convert nan to 1\n        s_ab[np.isnan(s_ab)] = 1\n        # product up A_B, A_C, A_D ... along rows\n        s_ab = np.prod(s_ab, axis=-1)\n        # calculate weight for each point in select\n        if sectors == 1:",
        "        vv = mu_p_n_n + alpha * (1 - mu_p_n_n**2)\n        del mu_p_n_n\n        s_ab = 0.5 * (1 - BeckeWeights._switch_func(vv, order=self._order))\n        del vv\n        # convert nan to 1\n        s_ab[np.isnan(s_ab)] = 1\n        # product up A_B, A_C, A_D ... along rows\n        s_ab = np.prod(s_ab, axis=-1)\n        # calculate weight for each point in select\n        if sectors == 1:"))
silent("C06", "clip written with np.clip",
       ("sub", "becke.py", "                    pt_ind=(indices - ibegin).clip(min=0),\n", "                    pt_ind=np.clip(indices - ibegin, 0, None),\n"))

fire("C06", "Hirshfeld segment takes the wrong slice of the pro-atom", "R5.hirshfeld-share",
     ("sub", "hirshfeld.py", "            aim_weights[start:end] = proatom[start:end]\n", "            aim_weights[start:end] = proatom[: end - start]\n"))
fire("C06", "Hirshfeld pro-molecule misses atoms after normalisation moved into the loop", "R5.hirshfeld-share",
     ("sub", "hirshfeld.py", "            aim_weights[start:end] = proatom[start:end]\n", "            aim_weights[start:end] = proatom[start:end] / promolecule[start:end]\n"),
     ("sub", "hirshfeld.py", "        aim_weights /= promolecule\n", ""))
silent("C06", "Hirshfeld locals renamed",
       ("sub", "hirshfeld.py", "            start, end = indices[index], indices[index + 1]\n            aim_weights[start:end] = proatom[start:end]\n",
        "            lo, hi = indices[index], indices[index + 1]\n            aim_weights[lo:hi] = proatom[lo:hi]\n"))
fire("C05", "shell index table advanced by the angular degree instead of the shell size", "R6.shell-index-table",
     ("sub", "atomgrid.py", "            indices[i + 1] = indices[i] + len(points)\n", "            indices[i + 1] = indices[i] + deg_i\n"))
silent("C05", "shell loop index aliased by a local",
       ("sub", "atomgrid.py", "            sphere_grid = AngularGrid(degree=deg_i, method=method)\n",
        "            sphere_grid = AngularGrid(degree=deg_i, method=method)\n            shell = i\n"),
       ("sub", "atomgrid.py", "            indices[i + 1] = indices[i] + len(points)\n", "            indices[shell + 1] = indices[shell] + len(points)\n"))
# ------------------------------------------------------------------------------------------ C07
fire("C07", "default radial grid of MolGrid uses other units than AtomGrid.from_preset", "R4.default-rgrid-siblings",
     ("sub", "molgrid.py", "        rmax = rmax * scipy.constants.angstrom / scipy.constants.value(\"atomic unit of length\")\n", "        rmax = rmax * 1.8897259886\n"))
silent("C07", "constructor loop locals renamed",
       ("sub", "molgrid.py", "            start, end = self._indices[i], self._indices[i + 1]\n            self._points[start:end] = atom_grid.points  # centers it at the atomic grid.\n            self._atweights[start:end] = atom_grid.weights\n",
        "            lo, hi = self._indices[i], self._indices[i + 1]\n            self._atweights[lo:hi] = atom_grid.weights\n            self._points[lo:hi] = atom_grid.points\n"))
fire("C07", "rotation seed not forwarded by from_size", "R1.argument-fan-out",
     ("sub", "molgrid.py", "AtomGrid(rad_grid, degrees=None, sizes=[size], center=atcoord, rotate=rotate)", "AtomGrid(rad_grid, degrees=None, sizes=[size], center=atcoord)"))
fire("C07", "list of radial grids indexed by atomic number", "R1.per-atom-dispatch",
     ("sub", "molgrid.py", "            elif isinstance(rgrid, list):\n                rad = rgrid[i]\n            elif isinstance(rgrid, dict):\n                rad = rgrid[atnums[i]]\n",
      "            elif isinstance(rgrid, list):\n                rad = rgrid[atnums[i]]\n            elif isinstance(rgrid, dict):\n                rad = rgrid[atnums[i]]\n"))
fire("C07", "store flag dropped by from_pruned", "R1.argument-fan-out",
     ("sub", "molgrid.py", "        return cls(atnums, at_grids, aim_weights, store=store)\n", "        return cls(atnums, at_grids, aim_weights)\n"))
fire("C07", "sector arguments crossed", "R1.argument-fan-out",
     ("sub", "molgrid.py", "                    r_sectors=r_sectors[i],\n                    d_sectors=d_sectors[i],\n", "                    r_sectors=d_sectors[i],\n                    d_sectors=r_sectors[i],\n"))
fire("C07", "aim weights applied twice", "R3.aim-weights-applied-once",
     ("sub", "molgrid.py", "        super().__init__(self.points, self._atweights * self._aim_weights)\n",
      "        super().__init__(self.points, self._atweights * self._aim_weights * self._aim_weights)\n"))
fire("C07", "get_atomic_grid returns molecular weights without storage", "R2.store-invariant-weights",
     ("sub", "molgrid.py", "        wts = self._atweights[self._indices[index] : self._indices[index + 1]]\n",
      "        wts = self.weights[self._indices[index] : self._indices[index + 1]]\n"))
fire("C07", "index table not cumulative", "R3.concatenation",
     ("sub", "molgrid.py", "            self._indices[i + 1] += self._indices[i] + atom_grid.size\n", "            self._indices[i + 1] += atom_grid.size\n"))
silent("C07", "__getitem__ made store-invariant (repairs the known finding)",
       ("sub", "molgrid.py", "                self.weights[s_ind:f_ind],\n", "                self._atweights[s_ind:f_ind],\n"))

fire("C07", "default radial grid of one atom reused for the following atoms", "R5.no-loop-carried-per-atom-state",
     ("sub", "molgrid.py", "            if rgrid is None:\n                rad_grid = _generate_default_rgrid(atnum)\n            else:\n                rad_grid = rgrid\n",
      "            if rgrid is None:\n                rgrid = _generate_default_rgrid(atnum)\n            rad_grid = rgrid\n"))
# ------------------------------------------------------------------------------------------ C11
fire("C11", "reintroduce: signed plane spacing in 1D", "R2.spacings-nonnegative",
     ("sub", "periodicgrid.py", "            spacings = np.abs(1 / self._recivecs)\n", "            spacings = 1 / self._recivecs\n"))
fire("C11", "reintroduce: empty accumulators concatenated", "R1.accumulator-tested-before-stacking",
     ("sub", "periodicgrid.py", "        if len(local_indices) == 0:\n            # no periodic image lies inside the sphere: empty local grid\n            return LocalGrid(\n                self._points[:0], self._weights[:0], center, np.zeros(0, dtype=int)\n            )\n", ""))
fire("C11", "negative radius rejected only with a lattice? no: new unconditional rejection", "R3.no-stricter-than-plain-grid",
     ("sub", "periodicgrid.py", "        if radius < 0:\n            raise ValueError(f\"Negative radius: {radius}\")\n",
      "        if radius < 0:\n            raise ValueError(f\"Negative radius: {radius}\")\n        if radius > 1e6:\n            raise ValueError(\"radius too large\")\n"))
fire("C11", "reintroduce: flat 1-D points without lattice vectors cannot be constructed", "R5.constructs-in-every-configuration",
     ("sub", "periodicgrid.py", "            frac_points = points * recivecs if realvecs.size > 0 else np.zeros(0)\n", "            frac_points = points * recivecs\n"))
fire("C11", "spacings computed along the wrong axis of the reciprocal vectors", "R5.constructs-in-every-configuration",
     ("sub", "periodicgrid.py", "            spacings = 1 / np.linalg.norm(self._recivecs, axis=1)\n", "            spacings = 1 / np.linalg.norm(self._recivecs, axis=0)\n"))
fire("C11", "fractional coordinates formed without transposing the reciprocal vectors", "R5.constructs-in-every-configuration",
     ("sub", "periodicgrid.py", "            frac_points = points @ recivecs.T\n", "            frac_points = points @ recivecs\n"))
silent("C11", "no-lattice case delegated to the plain grid (repairs the known finding)",
       ("sub", "periodicgrid.py", "        if not np.isfinite(radius):\n            raise ValueError(f\"Invalid radius: {radius}\")\n",
        "        if self._realvecs.size == 0:\n            return super().get_localgrid(center, radius)\n        if not np.isfinite(radius):\n            raise ValueError(f\"Invalid radius: {radius}\")\n"))
silent("C11", "emptiness tested on another accumulator",
       ("sub", "periodicgrid.py", "        if len(local_indices) == 0:\n", "        if len(local_points) == 0:\n"))

# ------------------------------------------------------------------------------------------ C13
fire("C13", "reintroduce: Fourier2 uses the third axis unconditionally", "third-axis-guarded",
     ("sub", "cubic.py", "            if len(shape) == 3:\n                weight_z = _fourier2(shape, 2)\n", "            if True:\n                weight_z = _fourier2(shape, 2)\n"))
fire("C13", "volume helper reads the third axis in 2D", "third-axis-guarded",
     ("sub", "cubic.py", "        if len(shape) == 3:\n            volume = np.dot(", "        if len(shape) >= 2:\n            volume = np.dot("))
fire("C13", "index map uses shape[2] for every dimension", "third-axis-guarded",
     ("sub", "cubic.py", "        if self.ndim == 3:\n            n_1d, n_2d = self.shape[2], self.shape[1] * self.shape[2]\n",
      "        if self.ndim >= 2:\n            n_1d, n_2d = self.shape[2], self.shape[1] * self.shape[2]\n"))
silent("C13", "dimension test spelled on the grid attribute",
       ("sub", "cubic.py", "            if len(shape) == 3:\n                weight_z = _fourier2(shape, 2)\n", "            if dim == 3:\n                weight_z = _fourier2(shape, 2)\n"),
       ("sub", "cubic.py", "            alt_volume = self._calculate_alternative_volume(shape)\n\n            def _fourier2",
        "            alt_volume = self._calculate_alternative_volume(shape)\n            dim = len(shape)\n\n            def _fourier2"))

fire("C13", "cube reader converts origin and axes in a loop placed after the grid-only exit", "cube-reader-exits-agree",
     ("sub", "cubic.py", "                axes *= ANGSTROM_TO_BOHR\n                origin *= ANGSTROM_TO_BOHR\n", "                pass\n"),
     ("sub", "cubic.py", "                coordinates *= ANGSTROM_TO_BOHR\n",
      "                for lengths in (origin, axes, coordinates):\n                    lengths *= ANGSTROM_TO_BOHR\n"))
silent("C13", "cube reader converts origin and axes in a loop before the grid-only exit",
       ("sub", "cubic.py", "                axes *= ANGSTROM_TO_BOHR\n                origin *= ANGSTROM_TO_BOHR\n",
        "                for lengths in (axes, origin):\n                    lengths *= ANGSTROM_TO_BOHR\n"))
fire("C13", "2-D Fourier2 weights built transposed by broadcasting", "tensor-weight-layout",
     ("sub", "cubic.py", "                weight = np.einsum(\"ij,i,j->ij\", weight, weight_x, weight_y) * alt_volume\n",
      "                weight = weight_x[None, :] * weight_y[:, None] * alt_volume\n"))
silent("C13", "2-D Fourier2 weights built by (correct) broadcasting",
       ("sub", "cubic.py", "                weight = np.einsum(\"ij,i,j->ij\", weight, weight_x, weight_y) * alt_volume\n",
        "                weight = weight_x[:, None] * weight_y[None, :] * alt_volume\n"))
fire("C13", "tensor-product weights kron'ed in another order than the points", "tensor-weight-layout",
     ("sub", "cubic.py", "            weights = np.kron(oned_x.weights, oned_y.weights)\n", "            weights = np.kron(oned_y.weights, oned_x.weights)\n"))
fire("C13", "einsum multiplies the x-weights along the y axis", "tensor-weight-layout",
     ("sub", "cubic.py", "                        return np.einsum(\"ij,i->ij\", weight, weight_dir)\n", "                        return np.einsum(\"ij,j->ij\", weight, weight_dir)\n"))
fire("C13", "inverse index map peels the middle coordinate with the wrong radix", "index-map-strides",
     ("sub", "cubic.py", "            n_1d, n_2d = self.shape[2], self.shape[1] * self.shape[2]\n", "            n_1d, n_2d = self.shape[1], self.shape[1] * self.shape[2]\n"))
fire("C13", "forward strides from a cumulative product taken from the wrong end", "index-map-strides",
     ("sub", "cubic.py", "        strides = np.empty(self.ndim, dtype=int)\n        strides[-1] = 1\n", "        strides = np.append(np.cumprod(self.shape[1:])[::-1], 1)\n        return np.dot(indices, strides)\n        strides = np.empty(self.ndim, dtype=int)\n        strides[-1] = 1\n"))
silent("C13", "forward strides from a cumulative product taken from the right end",
     ("sub", "cubic.py", "        strides = np.empty(self.ndim, dtype=int)\n        strides[-1] = 1\n", "        strides = np.append(np.cumprod(self.shape[:0:-1])[::-1], 1)\n        return np.dot(indices, strides)\n        strides = np.empty(self.ndim, dtype=int)\n        strides[-1] = 1\n"))
silent("C13", "three-dimensional test spelled `!= 2`",
       ("sub", "cubic.py", "            if len(shape) == 3:\n                weight_z = _fourier2(shape, 2)\n", "            if len(shape) != 2:\n                weight_z = _fourier2(shape, 2)\n"))
silent("C04", "precondition spelled with the operands exchanged",
       ("sub", "rtransform.py", "        if oned_grid.domain[0] < self.domain[0] or oned_grid.domain[1] > self.domain[1]:\n",
        "        if self.domain[0] > oned_grid.domain[0] or self.domain[1] < oned_grid.domain[1]:\n"))
# ------------------------------------------------------------------------------------------ C14
fire("C14", "reintroduce: 1D orders through the removed alias np.int", "R2.order-rows",
     ("sub", "utils.py", "        elif dim == 1:\n            orders.append([order])\n", "        elif dim == 1:\n            return np.arange(0, order + 1, dtype=np.int)\n"))
fire("C14", "removed NumPy alias used elsewhere", "R1.third-party-name-resolves",
     ("sub", "becke.py", "        weights = np.zeros(len(points))\n        n_p = np.linalg.norm(atcoords[:, None] - points, axis=-1)\n        # shape of n_p",
      "        weights = np.zeros(len(points), dtype=np.float)\n        n_p = np.linalg.norm(atcoords[:, None] - points, axis=-1)\n        # shape of n_p"))
fire("C14", "row of the wrong width in 2D", "R2.order-rows",
     ("sub", "utils.py", "                orders.append([m_x, order - m_x])\n", "                orders.append([m_x, order - m_x, 0])\n"))
fire("C14", "a moment type no longer computes its integral", "R3.moment-type-computed",
     ("sub", "basegrid.py", "                elif type_mom == \"radial\":\n                    cent_pts_with_order", "                elif type_mom == \"Radial\":\n                    cent_pts_with_order"))
fire("C14", "Cartesian powers taken column by column for three columns only", "R4.cartesian-dimension-generic",
     ("sub", "basegrid.py", "                cent_pts_with_order = centered_pts ** all_orders[:, None]\n",
      "                x_c, y_c, z_c = centered_pts.T\n                cent_pts_with_order = centered_pts ** all_orders[:, None]\n"))
silent("C14", "modern spelling of an integer dtype",
       ("sub", "utils.py", "    orders = np.array(orders, dtype=int)\n    return orders\n", "    orders = np.array(orders, dtype=np.int64)\n    return orders\n"))

# ------------------------------------------------------------------------------------------ C18
fire("C18", "repeat count changed in weights only", "R1.properties-lockstep",
     ("sub", "ngrid.py", "                self.grid_list[0].weights, repeat=self.num_domains\n", "                self.grid_list[0].weights, repeat=self.num_domains - 1\n"))
fire("C18", "grid order reversed for the points only", "R1.properties-lockstep",
     ("sub", "ngrid.py", "            points_combinations = itertools.product(*[grid.points for grid in self.grid_list])\n",
      "            points_combinations = itertools.product(*[grid.points for grid in self.grid_list[::-1]])\n"))
fire("C18", "values and weights chunked with different sizes", "R3.same-chunk-size",
     ("sub", "ngrid.py", "            chunked_values = _chunked_iterator(values, integration_chunk_size)\n",
      "            chunked_values = _chunked_iterator(values, integration_chunk_size + 1)\n"))
fire("C18", "partial weight products skip the first domain instead of the last", "R2.partial-combinations-lockstep",
     ("sub", "ngrid.py", "                    *[grid.weights for grid in self.grid_list[:-1]]\n", "                    *[grid.weights for grid in self.grid_list[1:]]\n"))
fire("C18", "size counts one domain too few", "R4.size-repeated",
     ("sub", "ngrid.py", "            return self.grid_list[0].size ** self.num_domains\n", "            return self.grid_list[0].size ** (self.num_domains - 1)\n"))
fire("C18", "weights enumerated through a default (xy) meshgrid", "R1.properties-lockstep",
     ("sub", "ngrid.py", "        # Yield the product of weights for each combination\n        return (np.prod(combination) for combination in weight_combinations)\n",
      "        mesh = np.meshgrid(*[g.weights for g in self.grid_list], sparse=True)\n        return iter(np.prod(mesh, axis=0).ravel())\n"))
silent("C18", "local renamed in the points property",
       ("sub", "ngrid.py", "            points_combinations = itertools.product(*[grid.points for grid in self.grid_list])\n\n        return points_combinations\n",
        "            combos = itertools.product(*[grid.points for grid in self.grid_list])\n            return combos\n\n        return points_combinations\n"))

VARIANTS = V

# ------------------------------------------------------------------------------------------ C15
fire("C15", "third-order Bell term loses its multiplicity 3", "T1.faa-di-bruno-coefficients/ode._transform_ode_from_derivs/b[2]",
     ("sub", "ode.py", "coeff_a_mtr[3] * 3 * derivs[0] * derivs[1]", "coeff_a_mtr[3] * derivs[0] * derivs[1]"))
fire("C15", "second-order ODE forgets g'' in the first-derivative coefficient", "T1.faa-di-bruno-coefficients/ode._transform_ode_from_derivs/b[1]",
     ("sub", "ode.py", "        coeff_b[1] += coeff_a_mtr[2] * derivs[1]\n", ""))
fire("C15", "g' squared written as 2 g'", "T1.faa-di-bruno-coefficients/ode._transform_ode_from_derivs/b[2]",
     ("sub", "ode.py", "coeff_b[2] += coeff_a_mtr[2] * derivs[0] ** 2", "coeff_b[2] += coeff_a_mtr[2] * derivs[0] * 2"))
fire("C15", "derivative methods passed in the wrong order", "T1.faa-di-bruno-coefficients/ode._transform_ode_from_rtransform",
     ("sub", "ode.py", "    deriv_func = [tf.deriv, tf.deriv2, tf.deriv3]\n    return _transform_ode_from_derivs",
      "    deriv_func = [tf.deriv, tf.deriv3, tf.deriv2]\n    return _transform_ode_from_derivs"))
fire("C15", "derivative matrix transposed", "T2.derivative-matrix/ode._derivative_transformation_matrix",
     ("sub", "ode.py", "deriv_transf[i, j] = float(bell(i + 1, j + 1, derivs_at_pt))", "deriv_transf[j, i] = float(bell(i + 1, j + 1, derivs_at_pt))"))
fire("C15", "Bell indices off by one", "T2.derivative-matrix/ode._derivative_transformation_matrix",
     ("sub", "ode.py", "float(bell(i + 1, j + 1, derivs_at_pt))", "float(bell(i + 1, j, derivs_at_pt))"))
fire("C15", "explicit form adds the lower terms", "T3.explicit-form/ode._rearrange_to_explicit_ode",
     ("sub", "ode.py", "        result = result - b * y[i]\n", "        result = result + b * y[i]\n"))
fire("C15", "explicit form divides by the wrong coefficient", "T3.explicit-form/ode._rearrange_to_explicit_ode",
     ("sub", "ode.py", "    return result / coeff_b[-1]\n", "    return result / coeff_b[0]\n"))
fire("C15", "coefficients evaluated at the new variable instead of inverse(r)", "T4.first-order-system/ode.solve_ode_bvp.func/last-row",
     ("sub", "ode.py", "            orig_dom = transform.inverse(x)\n            dy_dx = _transform_and_rearrange_to_explicit_ode(orig_dom, y, coeffs, transform, fx)\n        else:\n            coeffs_mt = _evaluate_coeffs_on_points(x, coeffs)\n            dy_dx = _rearrange_to_explicit_ode(y, coeffs_mt, fx(x))\n        # (*y[1:, :],) returns a tuple of all rows excluding the first row.\n        #    This is due to conversion to first-order ODE form.",
      "            orig_dom = x\n            dy_dx = _transform_and_rearrange_to_explicit_ode(orig_dom, y, coeffs, transform, fx)\n        else:\n            coeffs_mt = _evaluate_coeffs_on_points(x, coeffs)\n            dy_dx = _rearrange_to_explicit_ode(y, coeffs_mt, fx(x))\n        # (*y[1:, :],) returns a tuple of all rows excluding the first row.\n        #    This is due to conversion to first-order ODE form."))
fire("C15", "system rows shifted the wrong way", "T4.first-order-system/ode.solve_ode_ivp.func/row",
     ("sub", "ode.py", "        #    This is due to conversion to system of first-order ODE form.\n        return np.vstack((*y[1:, :], dy_dx))",
      "        #    This is due to conversion to system of first-order ODE form.\n        return np.vstack((*y[:-1, :], dy_dx))"))
fire("C15", "chain-rule matrix of the initial data taken at the transformed point", "T5.initial-data-mapping/ode.solve_ode_ivp/y0",
     ("sub", "ode.py", "        deriv = _derivative_transformation_matrix(\n            [transform.deriv, transform.deriv2, transform.deriv3],\n            x_span[0],",
      "        deriv = _derivative_transformation_matrix(\n            [transform.deriv, transform.deriv2, transform.deriv3],\n            transform.transform(x_span[0]),"))
fire("C15", "initial derivatives multiplied by the matrix instead of solved", "T5.initial-data-mapping/ode.solve_ode_ivp/y0",
     ("sub", "ode.py", "        y_derivs = solve(deriv, np.array(y0[1:]))\n", "        y_derivs = deriv.dot(np.array(y0[1:]))\n"))
fire("C15", "span not transformed", "T5.initial-data-mapping/ode.solve_ode_ivp/span",
     ("sub", "ode.py", "        x_span = transform.transform(np.array(list(x_span)))\n", "        x_span = np.array(list(x_span))\n"))
fire("C15", "returned derivatives converted at the transformed point", "T6.returned-derivatives/ode.solve_ode_",
     ("sub", "ode.py", "deriv = _derivative_transformation_matrix(deriv_funcs, pt[i], order - 1)", "deriv = _derivative_transformation_matrix(deriv_funcs, transf_pts[i], order - 1)"))
fire("C15", "returned derivatives: the function row is skipped", "T6.returned-derivatives/ode.solve_ode_",
     ("sub", "ode.py", "        new_interpolate[0, :] = interpolated[0, :]\n", ""))
fire("C15", "dense output evaluated at the original points", "T6.returned-derivatives/ode.solve_ode_",
     ("sub", "ode.py", "        interpolated = result.sol(transf_pts)\n", "        interpolated = result.sol(pt)\n"))
fire("C15", "boundary residual indexes the wrong axis", "T7.boundary-data/ode.solve_ode_bvp.bc",
     ("sub", "ode.py", "            conds.append(bonds[i][deriv] - value)\n", "            conds.append(bonds[deriv % 2][i] - value)\n"))
fire("C15", "mesh not transformed", "T7.boundary-data/ode.solve_ode_bvp/mesh",
     ("sub", "ode.py", "        res = solve_bvp(func, bc, pts_tf, y=initial_guess_y", "        res = solve_bvp(func, bc, x, y=initial_guess_y"))
silent("C15", "third-order terms collected in one statement per coefficient",
       ("sub", "ode.py", "        coeff_b[1] += coeff_a_mtr[3] * derivs[2]\n        coeff_b[2] += coeff_a_mtr[3] * 3 * derivs[0] * derivs[1]\n        coeff_b[3] += coeff_a_mtr[3] * derivs[0] ** 3\n",
        "        a3 = coeff_a_mtr[3]\n        coeff_b[1:4] += np.array([a3 * derivs[2], 3 * a3 * derivs[1] * derivs[0], a3 * derivs[0] * derivs[0] * derivs[0]])\n"))
silent("C15", "coefficient transformation as a loop over Bell polynomials",
       ("sub", "ode.py", "    if total > 1:\n        coeff_b[1] += coeff_a_mtr[1] * derivs[0]\n    if total > 2:\n        coeff_b[1] += coeff_a_mtr[2] * derivs[1]\n        coeff_b[2] += coeff_a_mtr[2] * derivs[0] ** 2\n    if total > 3:\n        coeff_b[1] += coeff_a_mtr[3] * derivs[2]\n        coeff_b[2] += coeff_a_mtr[3] * 3 * derivs[0] * derivs[1]\n        coeff_b[3] += coeff_a_mtr[3] * derivs[0] ** 3\n",
        "    for k in range(1, min(total, 4)):\n        for j in range(1, k + 1):\n            for i_pt in range(len(x)):\n                coeff_b[j, i_pt] += coeff_a_mtr[k, i_pt] * float(bell(k, j, derivs[:, i_pt]))\n"))
silent("C15", "explicit form accumulates the lower terms first",
       ("sub", "ode.py", "    result = fx\n    # Go through all rows except the last-element.\n    for i, b in enumerate(coeff_b[:-1]):\n        # array of size N: a_k(x_n) * (d^k y(x_n) / d x^k)\n        result = result - b * y[i]\n\n    return result / coeff_b[-1]\n",
        "    lower = sum(b * y[i] for i, b in enumerate(coeff_b[:-1]))\n    return (fx - lower) / coeff_b[-1]\n"))
silent("C15", "matrix loop written with explicit Bell orders",
       ("sub", "ode.py", "    for i in range(0, order):\n        for j in range(0, i + 1):\n            deriv_transf[i, j] = float(bell(i + 1, j + 1, derivs_at_pt))\n",
        "    for n_ in range(1, order + 1):\n        for k_ in range(1, n_ + 1):\n            deriv_transf[n_ - 1, k_ - 1] = float(bell(n_, k_, derivs_at_pt))\n"))

# ------------------------------------------------------------------------------------------ C16
fire("C16", "reintroduce: every atom's Laplacian closure calls the function of the last atom", "P4.molecular-assembly/poisson.interpolate_laplacian/segment",
     ("sub", "poisson.py", "lambda points, cut_off, atom_grid=atom_grid, func=interpolate_laplacian_atom_grid: func(\n", "lambda points, cut_off, atom_grid=atom_grid: interpolate_laplacian_atom_grid(\n"))
fire("C16", "bvp right-hand side forgets the factor r", "P1.radial-equation/poisson._solve_poisson_bvp_atomgrid",
     ("sub", "poisson.py", "                return radial_components[i_spline](r) * -4 * np.pi * r\n", "                return radial_components[i_spline](r) * -4 * np.pi\n"))
fire("C16", "bvp reconstruction forgets the division by r", "P1.radial-equation/poisson._solve_poisson_bvp_atomgrid",
     ("sub", "poisson.py", "r_values = np.array([spline(r_pts) / r_pts for spline in splines])", "r_values = np.array([spline(r_pts) for spline in splines])"))
fire("C16", "ivp first-derivative coefficient 1/r", "P1.radial-equation/poisson._solve_poisson_ivp_atomgrid",
     ("sub", "poisson.py", "                return 2.0 / r\n", "                return 1.0 / r\n"))
fire("C16", "centrifugal term l(l-1)", "P1.radial-equation/poisson._solve_poisson_ivp_atomgrid",
     ("sub", "poisson.py", "                a = -l_deg * (l_deg + 1) / r**2\n                return a\n", "                a = -l_deg * (l_deg - 1) / r**2\n                return a\n"))
fire("C16", "right-hand side with the factor 4 pi of the wrong sign", "P1.radial-equation/poisson._solve_poisson_ivp_atomgrid",
     ("sub", "poisson.py", "                return radial_components[i_spline](r) * -4 * np.pi\n", "                return radial_components[i_spline](r) * 4 * np.pi\n"))
fire("C16", "spline counter not advanced", "P1.radial-equation/poisson._solve_poisson_bvp_atomgrid",
     ("sub", "poisson.py", "            u_lm = solve_ode_bvp(rad_points, f_x, coeffs, bd_cond, transform, **ode_params)\n\n            i_spline += 1\n",
      "            u_lm = solve_ode_bvp(rad_points, f_x, coeffs, bd_cond, transform, **ode_params)\n\n"))
fire("C16", "ivp initial slope with the wrong sign", "P2.monopole-data/poisson._solve_poisson_ivp_atomgrid/monopole",
     ("sub", "poisson.py", "ivp = [boundary / r_max, -boundary / r_max**2.0]", "ivp = [boundary / r_max, boundary / r_max**2.0]"))
fire("C16", "bvp: every component gets the monopole boundary", "P2.monopole-data/poisson._solve_poisson_bvp_atomgrid/higher-components",
     ("sub", "poisson.py", "            if l_deg == 0 and m_ord == 0:\n                bd_cond = [(0, 0, 0), (1, 0, boundary)]", "            if m_ord == 0:\n                bd_cond = [(0, 0, 0), (1, 0, boundary)]"))
fire("C16", "bvp: monopole boundary is the bare integral", "P2.monopole-data/poisson._solve_poisson_bvp_atomgrid/monopole",
     ("sub", "poisson.py", "        boundary = atomgrid.integrate(func_vals) / sph_o_l[0, 0]\n\n    # Check if the domain", "        boundary = atomgrid.integrate(func_vals)\n\n    # Check if the domain"))
fire("C16", "ivp loops one degree short", "P3.one-ode-per-harmonic/poisson._solve_poisson_ivp_atomgrid",
     ("sub", "poisson.py", "    for l_deg in range(0, atomgrid.l_max // 2 + 1):\n        for m_ord in [x for x in range(0, l_deg + 1)] + [-x for x in range(-l_deg, 0)]:\n\n            def f_x(r, i_spline=i_spline):\n                return radial_components[i_spline](r) * -4 * np.pi\n",
      "    for l_deg in range(0, atomgrid.l_max // 2):\n        for m_ord in [x for x in range(0, l_deg + 1)] + [-x for x in range(-l_deg, 0)]:\n\n            def f_x(r, i_spline=i_spline):\n                return radial_components[i_spline](r) * -4 * np.pi\n"))
fire("C16", "molecular helper forgets the atom-in-molecule weights", "P4.molecular-assembly/poisson._interpolate_molgrid_helper/segment",
     ("sub", "poisson.py", "            interpolate_callable(atom_grid, func_vals_atom[start_index:final_index])\n", "            interpolate_callable(atom_grid, func_vals[start_index:final_index])\n"))
fire("C16", "molecular sum drops the last atom", "P4.molecular-assembly/poisson._interpolate_molgrid_helper/sum",
     ("sub", "poisson.py", "        output = interpolate_funcs[0](points)\n        for interpolate in interpolate_funcs[1:]:", "        output = interpolate_funcs[0](points)\n        for interpolate in interpolate_funcs[1:-1]:"))
fire("C16", "Laplacian: first-derivative term with 1/r", "P5.laplacian-per-component/poisson.interpolate_laplacian",
     ("sub", "poisson.py", "                second_component *= 2.0 / r_pts\n", "                second_component *= 1.0 / r_pts\n"))
fire("C16", "Laplacian: angular eigenvalue l^2", "P5.laplacian-per-component/poisson.interpolate_laplacian",
     ("sub", "poisson.py", "[[x * (x + 1)] * (2 * x + 1) for x in", "[[x * x] * (2 * x + 1) for x in"))
fire("C16", "wrapper pins include_origin", "P6.options-forwarded/poisson.solve_poisson_bvp/include_origin",
     ("sub", "poisson.py", "            atom_grid, func_vals, transform, boundary, include_origin, remove_large_pts, ode_params\n", "            atom_grid, func_vals, transform, boundary, True, remove_large_pts, ode_params\n"))
silent("C16", "right-hand-side closure reads the loop counter directly (it is consumed inside the iteration)",
       ("sub", "poisson.py", "            def f_x(r, i_spline=i_spline):\n                return radial_components[i_spline](r) * -4 * np.pi * r\n", "            def f_x(r):\n                return radial_components[i_spline](r) * -4 * np.pi * r\n"))
silent("C16", "reconstruction multiplies by the reciprocal radius",
       ("sub", "poisson.py", "r_values = np.array([spline(r_pts) / r_pts for spline in splines])", "r_values = np.array([spline(r_pts) * (1.0 / r_pts) for spline in splines])"))
silent("C16", "centrifugal coefficient respelled",
       ("sub", "poisson.py", "                a = -l_deg * (l_deg + 1) / r**2\n                return a\n", "                return -(l_deg**2 + l_deg) / (r * r)\n"))
silent("C16", "molecular helper iterates over index pairs",
       ("sub", "poisson.py", "    for i in range(len(molgrid.atcoords)):\n        # Get the atomic grid\n        start_index = molgrid.indices[i]\n        final_index = molgrid.indices[i + 1]\n        atom_grid = molgrid[i]\n\n        # Add the interpolation",
        "    for i, (start_index, final_index) in enumerate(zip(molgrid.indices[:-1], molgrid.indices[1:])):\n        atom_grid = molgrid[i]\n\n        # Add the interpolation"))
fire("C16", "robust: subtracted primitives lose their normalisation exponent", "P7.robust-recombination/robust_poisson.solve_poisson_robust/subtracted-density",
     ("sub", "robust_poisson.py", "        prefactor = c * (alpha / np.pi) ** 1.5\n", "        prefactor = c * (alpha / np.pi) ** 0.5\n"))
fire("C16", "robust: core potential of unnormalised primitives added back", "P7.robust-recombination/robust_poisson.solve_poisson_robust/core-potential",
     ("sub", "robust_poisson.py", "                alphas_s=alphas_s,\n                normalized=True,\n", "                alphas_s=alphas_s,\n                normalized=False,\n"))
fire("C16", "robust: bonding potential dropped from the sum", "P7.robust-recombination/robust_poisson.solve_poisson_robust/sum",
     ("sub", "robust_poisson.py", "        return v_core + v_bonding + v_residual\n", "        return v_core + v_residual\n"))
fire("C16", "robust: core potential centred on the first atom only", "P7.robust-recombination/robust_poisson.solve_poisson_robust/core-potential",
     ("sub", "robust_poisson.py", "            centers_rep = np.tile(center, (len(coeffs_s), 1))\n", "            centers_rep = np.tile(atcoords[0], (len(coeffs_s), 1))\n"))
silent("C16", "robust: sum in another order of the same three parts",
       ("sub", "robust_poisson.py", "        return v_core + v_bonding + v_residual\n", "        total = v_residual + v_bonding\n        return total + v_core\n"))

# C15, orderings of the integration span
fire("C15", "chain-rule matrix taken at the lower end of the span (wrong when integrating downwards)", "T5.initial-data-mapping/ode.solve_ode_ivp/y0",
     ("sub", "ode.py", "            [transform.deriv, transform.deriv2, transform.deriv3],\n            x_span[0],", "            [transform.deriv, transform.deriv2, transform.deriv3],\n            min(x_span),"))
silent("C15", "span bounds named for the domain check, matrix still at the initial point",
       ("sub", "ode.py", "        if min(x_span) < transform.domain[0] or max(x_span) > transform.domain[1]:\n", "        x_lower, x_upper = min(x_span), max(x_span)\n        if x_lower < transform.domain[0] or x_upper > transform.domain[1]:\n"))
fire("C15", "second-order shortcut divides by g' at the already transformed initial point", "T5.initial-data-mapping/ode.solve_ode_ivp/y0[1]",
     ("sub", "ode.py", "        y_derivs = solve(deriv, np.array(y0[1:]))\n", "        y_derivs = solve(deriv, np.array(y0[1:])) if order != 2 else np.atleast_1d(y0[1] / transform.deriv(x_span[0]))\n"))
silent("C15", "second-order shortcut for the initial slope (division by g' at the original initial point)",
       ("sub", "ode.py", "        x_span = transform.transform(np.array(list(x_span)))\n        # Solve for derivatives in original domain by solving A(original derivs) = new derivs\n        y_derivs = solve(deriv, np.array(y0[1:]))\n",
        "        slope = np.atleast_1d(y0[1] / transform.deriv(x_span[0])) if order == 2 else None\n        x_span = transform.transform(np.array(list(x_span)))\n        y_derivs = solve(deriv, np.array(y0[1:])) if slope is None else slope\n"))

# ------------------------------------------------------------------------------------------ C09
fire("C09", "angular integration removes r w instead of r^2 w", "D5.angular-integration/atomgrid.AtomGrid.integrate_angular_coordinates",
     ("sub", "atomgrid.py", "            radial_coefficients /= self.rgrid.points**2 * self.rgrid.weights\n", "            radial_coefficients /= self.rgrid.points * self.rgrid.weights\n"))
fire("C09", "shell segment one point short", "D5.angular-integration/atomgrid.AtomGrid.integrate_angular_coordinates",
     ("sub", "atomgrid.py", "                np.sum(prod_value[..., self.indices[i] : self.indices[i + 1]], axis=-1)\n", "                np.sum(prod_value[..., self.indices[i] : self.indices[i + 1] - 1], axis=-1)\n"))
fire("C09", "spherical average divided by 2 pi", "D6.spherical-average/atomgrid.AtomGrid.spherical_average",
     ("sub", "atomgrid.py", "        f_radial /= 4.0 * np.pi\n", "        f_radial /= 2.0 * np.pi\n"))
fire("C09", "truncation of lower-degree shells one degree too low", "D4.radial-components/atomgrid.AtomGrid.radial_component_splines/projection",
     ("sub", "atomgrid.py", "                num_nonzero_sph = (self.degrees[i] // 2 + 1) ** 2\n", "                num_nonzero_sph = (self.degrees[i] // 2) ** 2\n"))
fire("C09", "truncation of lower-degree shells removed", "D4.radial-components/atomgrid.AtomGrid.radial_component_splines/truncation",
     ("sub", "atomgrid.py", "                radial_components[num_nonzero_sph:, i] = 0.0\n", "                pass\n"))
fire("C09", "basis generated up to l_max instead of l_max // 2", "D4.radial-components/atomgrid.AtomGrid.radial_component_splines/basis-degree",
     ("sub", "atomgrid.py", "            self._basis = generate_real_spherical_harmonics(self.l_max // 2, theta, phi)\n", "            self._basis = generate_real_spherical_harmonics(self.l_max, theta, phi)\n"))
fire("C09", "interpolant ignores the requested radial derivative order", "D1.interpolant-is-sum/atomgrid.AtomGrid.interpolate/radial derivative",
     ("sub", "atomgrid.py", "            r_values = np.array([spline(r_pts, deriv) for spline in splines])\n", "            r_values = np.array([spline(r_pts) for spline in splines])\n"))
fire("C09", "theta and phi derivative rows of the harmonics exchanged", "D2.spherical-derivatives/atomgrid.AtomGrid.interpolate",
     ("sub", "atomgrid.py", "                deriv_theta = np.einsum(\"ij,ij->j\", radial_components, deriv_sph_harm[0, :, :])\n                deriv_phi = np.einsum(\"ij,ij->j\", radial_components, deriv_sph_harm[1, :, :])\n",
      "                deriv_theta = np.einsum(\"ij,ij->j\", radial_components, deriv_sph_harm[1, :, :])\n                deriv_phi = np.einsum(\"ij,ij->j\", radial_components, deriv_sph_harm[0, :, :])\n"))
fire("C09", "angular derivatives use the differentiated splines", "D2.spherical-derivatives/atomgrid.AtomGrid.interpolate",
     ("sub", "atomgrid.py", "                deriv_theta = np.einsum(\"ij,ij->j\", radial_components, deriv_sph_harm[0, :, :])\n", "                deriv_theta = np.einsum(\"ij,ij->j\", r_values, deriv_sph_harm[0, :, :])\n"))
fire("C09", "Jacobian: sign of dphi/dz", "D3.cartesian-chain-rule/utils.convert_derivative_from_spherical_to_cartesian/z",
     ("sub", "utils.py", "                [np.cos(phi), 0.0, -np.sin(phi) / r],\n", "                [np.cos(phi), 0.0, np.sin(phi) / r],\n"))
fire("C09", "Jacobian: dtheta/dx without the polar sine", "D3.cartesian-chain-rule/utils.convert_derivative_from_spherical_to_cartesian/x",
     ("sub", "utils.py", "                    -np.sin(theta) / (r * np.sin(phi)),\n", "                    -np.sin(theta) / r,\n"))
fire("C09", "chain rule called with theta and phi exchanged", "D3.cartesian-chain-rule/utils.convert_derivative_from_spherical_to_cartesian",
     ("sub", "atomgrid.py", "                        radial_i,\n                        theta_i,\n                        phi_i,\n", "                        radial_i,\n                        phi_i,\n                        theta_i,\n"))
fire("C09", "molecular interpolation forgets the atom-in-molecule weights", "D7.molecular-assembly/molgrid.MolGrid.interpolate/segment",
     ("sub", "molgrid.py", "            interpolate_funcs.append(atom_grid.interpolate(func_vals_atom[start_index:final_index]))\n", "            interpolate_funcs.append(atom_grid.interpolate(func_vals[start_index:final_index]))\n"))
fire("C09", "molecular interpolation forwards the options in the wrong order", "D7.molecular-assembly/molgrid.MolGrid.interpolate/options",
     ("sub", "molgrid.py", "                output += interpolate(points, deriv, deriv_spherical, only_radial_derivs)\n", "                output += interpolate(points, deriv, only_radial_derivs, deriv_spherical)\n"))
silent("C09", "contraction with the harmonics written as an elementwise product and a sum",
       ("sub", "atomgrid.py", "            return np.einsum(\"ij, ij -> j\", r_values, r_sph_harm)\n\n        return interpolate_low", "            return np.sum(r_values * r_sph_harm, axis=0)\n\n        return interpolate_low"))
silent("C09", "Jacobian entry with the factors in another order",
       ("sub", "utils.py", "                    np.cos(theta) * np.cos(phi) / r,\n", "                    np.cos(phi) * np.cos(theta) / r,\n"))
silent("C09", "shell sums collected in an explicit loop",
       ("sub", "atomgrid.py", "        radial_coefficients = np.array(\n            [\n                np.sum(prod_value[..., self.indices[i] : self.indices[i + 1]], axis=-1)\n                for i in range(self.n_shells)\n            ]\n        )\n",
        "        shell_sums = []\n        for i in range(self.n_shells):\n            start, stop = self.indices[i], self.indices[i + 1]\n            shell_sums.append(np.sum(prod_value[..., start:stop], axis=-1))\n        radial_coefficients = np.array(shell_sums)\n"))

# ------------------------------------------------------------------------------------------ C08
fire("C08", "solid harmonics normalised with 2l - 1", "S1.solid-harmonics/utils.solid_harmonics",
     ("sub", "utils.py", "np.sqrt(4.0 * np.pi / (2 * degrees[:, None] + 1))", "np.sqrt(4.0 * np.pi / (2 * degrees[:, None] - 1))"))
fire("C08", "solid harmonics with r^(l+1)", "S1.solid-harmonics/utils.solid_harmonics",
     ("sub", "utils.py", "spherical_harm * r ** degrees[:, None] * np.sqrt", "spherical_harm * r ** (degrees[:, None] + 1) * np.sqrt"))
fire("C08", "polar angle from the y component", "S2.cart-to-sph-inverts/utils.convert_cart_to_sph",
     ("sub", "utils.py", "        phi = np.arccos(relat_pts[:, 2] / r)\n", "        phi = np.arccos(relat_pts[:, 1] / r)\n"))
fire("C08", "azimuth with the arguments of arctan2 exchanged", "S2.cart-to-sph-inverts/utils.convert_cart_to_sph",
     ("sub", "utils.py", "    theta = np.arctan2(relat_pts[:, 1], relat_pts[:, 0])\n", "    theta = np.arctan2(relat_pts[:, 0], relat_pts[:, 1])\n"))
fire("C08", "the centre is not subtracted", "S2.cart-to-sph-inverts/utils.convert_cart_to_sph",
     ("sub", "utils.py", "    relat_pts = points - center\n", "    relat_pts = points - 0.0 * center\n"))
fire("C08", "azimuthal derivative with the wrong sign", "S3.azimuthal-derivative/utils.generate_derivative_real_spherical_harmonics",
     ("sub", "utils.py", "            output[0, i_output, :] = -float(m) * sph_harm_degree[index_m(-m), :]\n", "            output[0, i_output, :] = float(m) * sph_harm_degree[index_m(-m), :]\n"))
fire("C08", "azimuthal derivative pairs m with itself", "S3.azimuthal-derivative/utils.generate_derivative_real_spherical_harmonics",
     ("sub", "utils.py", "            output[0, i_output, :] = -float(m) * sph_harm_degree[index_m(-m), :]\n", "            output[0, i_output, :] = -float(m) * sph_harm_degree[index_m(m), :]\n"))
fire("C08", "row position of positive orders off by one", "S3.azimuthal-derivative/utils.generate_derivative_real_spherical_harmonics",
     ("sub", "utils.py", "                return 2 * m - 1 if m > 0 else int(2 * np.fabs(m))\n", "                return 2 * m if m > 0 else int(2 * np.fabs(m)) - 1\n"))
silent("C08", "solid harmonics: constant pulled out of the root",
       ("sub", "utils.py", "np.sqrt(4.0 * np.pi / (2 * degrees[:, None] + 1))", "2.0 * np.sqrt(np.pi / (2 * degrees[:, None] + 1))"))
silent("C08", "conversion with unpacked components",
       ("sub", "utils.py", "    theta = np.arctan2(relat_pts[:, 1], relat_pts[:, 0])\n", "    x_rel, y_rel, _ = relat_pts.T\n    theta = np.arctan2(y_rel, x_rel)\n"))

# ------------------------------------------------------------------------------------------ C14 R7 / R8
fire("C14", "Cartesian moments without the quadrature weights", "R7.entries-are-quadratures/basegrid.Grid.moments/cartesian",
     ("sub", "basegrid.py", "                integral = np.einsum(\"ln,n,n->l\", cent_pts_with_order, func_vals, self.weights)\n            elif type_mom in",
      "                integral = np.einsum(\"ln,n->l\", cent_pts_with_order, func_vals)\n            elif type_mom in"))
fire("C14", "every centre uses the first centre", "R7.entries-are-quadratures/basegrid.Grid.moments",
     ("sub", "basegrid.py", "            centered_pts = self.points - center\n", "            centered_pts = self.points - centers[0]\n"))
fire("C14", "pure-radial: row of positive orders off by one", "R7.entries-are-quadratures/basegrid.Grid.moments/pure-radial",
     ("sub", "basegrid.py", "indices[m_orders > 0] += 2 * m_orders[m_orders > 0] - 1", "indices[m_orders > 0] += 2 * m_orders[m_orders > 0]"))
fire("C14", "radial moments with the exponent shifted", "R7.entries-are-quadratures/basegrid.Grid.moments/radial",
     ("sub", "basegrid.py", "cent_pts_with_order ** np.ravel(all_orders)[:, None]", "cent_pts_with_order ** (np.ravel(all_orders)[:, None] + 1)"))
fire("C14", "dipole: electronic part added instead of subtracted", "R8.dipole-assembly/utils.dipole_moment_of_molecule/nuclear-minus-electronic",
     ("sub", "utils.py", "    result = (result - integrals.T).flatten()[1:]\n", "    result = (result + integrals.T).flatten()[1:]\n"))
fire("C14", "dipole about the centre of charge", "R8.dipole-assembly/utils.dipole_moment_of_molecule/centre-of-mass",
     ("sub", "utils.py", "    masses = np.array([isotopic_masses[charge] for charge in charges])\n", "    masses = np.array([float(charge) for charge in charges])\n"))
silent("C14", "solid harmonics of all centres in one batch, reshaped centre-major",
       ("sub", "basegrid.py", "        integrals = []\n        for center in centers:\n", "        if type_mom in (\"pure\", \"pure-radial\"):\n            all_centered_pts = self.points[None, :, :] - centers[:, None, :]\n            all_solid_harm = solid_harmonics(orders[-1], convert_cart_to_sph(all_centered_pts.reshape(-1, dim)))\n            all_solid_harm = all_solid_harm.reshape(-1, len(centers), self.points.shape[0])\n        integrals = []\n        for i_center, center in enumerate(centers):\n"),
       ("sub", "basegrid.py", "                    sph_pts = convert_cart_to_sph(centered_pts)\n                    solid_harm = solid_harmonics(orders[-1], sph_pts)\n", "                    solid_harm = all_solid_harm[:, i_center, :]\n"))
silent("C14", "Cartesian contraction as a weighted sum",
       ("sub", "basegrid.py", "                integral = np.einsum(\"ln,n,n->l\", cent_pts_with_order, func_vals, self.weights)\n            elif type_mom in",
        "                integral = np.sum(cent_pts_with_order * (func_vals * self.weights), axis=1)\n            elif type_mom in"))

# ------------------------------------------------------------------------------------------ C13 log-interpolant
fire("C13", "log branch: closed forms with the cross term 2 g' g'' instead of 3", "log-interpolant-derivative/cubic._HyperRectangleGrid.interpolate/order[3]",
     ("sub", "cubic.py", "                # Sympy symbols and dictionary of symbols pointing to the derivative values\n",
      "                if deriv_var == 3:\n                    g1, g2, g3 = (np.asarray(d, dtype=float) for d in derivs)\n                    return interpolated * (g1**3 + 2.0 * g1 * g2 + g3)\n                # Sympy symbols and dictionary of symbols pointing to the derivative values\n"))
fire("C13", "log branch: derivatives of the values instead of their logarithm", "log-interpolant-derivative/cubic._HyperRectangleGrid.interpolate/log-values",
     ("sub", "cubic.py", "        if use_log:\n            values = np.log(values)\n", "        log_values = np.log(values) if use_log else values\n"),
     ("sub", "cubic.py", "                self.interpolate(points, values, use_log=False, nu_x=0, nu_y=0, nu_z=0)\n            )\n            # Only consider",
      "                self.interpolate(points, log_values, use_log=False, nu_x=0, nu_y=0, nu_z=0)\n            )\n            # Only consider"))
fire("C13", "log branch: Bell sum starts at the second term", "log-interpolant-derivative/cubic._HyperRectangleGrid.interpolate/order",
     ("sub", "cubic.py", "                                    for i in range(1, deriv_var + 1)\n                                ]", "                                    for i in range(2, deriv_var + 1)\n                                ]"))
silent("C13", "log branch: correct closed forms for the orders 1 to 3",
       ("sub", "cubic.py", "                # Sympy symbols and dictionary of symbols pointing to the derivative values\n",
        "                if deriv_var <= 3:\n                    g = [np.asarray(d, dtype=float) for d in derivs]\n                    poly = g[0] if deriv_var == 1 else g[0] ** 2 + g[1] if deriv_var == 2 else g[0] ** 3 + 3.0 * g[0] * g[1] + g[2]\n                    return interpolated * poly\n                # Sympy symbols and dictionary of symbols pointing to the derivative values\n"))

# ------------------------------------------------------------------------------------------ C18 R5
fire("C18", "point-by-point route: a chunk that is not full is dropped", "R5.integral-is-product-quadrature/ngrid.MultiDomainGrid.integrate/point-by-point",
     ("sub", "ngrid.py", "        if not chunk:\n            break\n", "        if len(chunk) < size:\n            break\n"))
fire("C18", "vectorised route integrates over the first grid instead of the last", "ngrid.MultiDomainGrid.integrate",
     ("sub", "ngrid.py", "                integral_value += pre_weight * self.grid_list[-1].integrate(np.array(values))\n", "                integral_value += pre_weight * self.grid_list[0].integrate(np.array(values))\n"))
silent("C18", "point-by-point route: chunk sums collected and added at the end",
       ("sub", "ngrid.py", "                integral_value += np.sum(values_array * weights_array)\n", "                integral_value = integral_value + np.dot(values_array, weights_array)\n"))

# C15 zero-coefficient configurations, C16 P8 / neutral configuration, C09 even degrees
fire("C15", "coefficient loop stops at the first identically-zero coefficient", "T1.faa-di-bruno-coefficients/ode._transform_ode_from_derivs",
     ("sub", "ode.py", "    if total > 1:\n        coeff_b[1] += coeff_a_mtr[1] * derivs[0]\n    if total > 2:\n        coeff_b[1] += coeff_a_mtr[2] * derivs[1]\n        coeff_b[2] += coeff_a_mtr[2] * derivs[0] ** 2\n    if total > 3:\n        coeff_b[1] += coeff_a_mtr[3] * derivs[2]\n        coeff_b[2] += coeff_a_mtr[3] * 3 * derivs[0] * derivs[1]\n        coeff_b[3] += coeff_a_mtr[3] * derivs[0] ** 3\n",
      "    polys = {1: lambda d: (d[0],), 2: lambda d: (d[1], d[0] ** 2), 3: lambda d: (d[2], 3 * d[0] * d[1], d[0] ** 3)}\n    for k in range(min(total - 1, 3), 0, -1):\n        if not np.any(coeff_a_mtr[k]):\n            break\n        for j, b_kj in enumerate(polys[k](derivs), start=1):\n            coeff_b[j] += coeff_a_mtr[k] * b_kj\n"))
silent("C15", "coefficient loop skips identically-zero coefficients",
       ("sub", "ode.py", "    if total > 1:\n        coeff_b[1] += coeff_a_mtr[1] * derivs[0]\n    if total > 2:\n        coeff_b[1] += coeff_a_mtr[2] * derivs[1]\n        coeff_b[2] += coeff_a_mtr[2] * derivs[0] ** 2\n    if total > 3:\n        coeff_b[1] += coeff_a_mtr[3] * derivs[2]\n        coeff_b[2] += coeff_a_mtr[3] * 3 * derivs[0] * derivs[1]\n        coeff_b[3] += coeff_a_mtr[3] * derivs[0] ** 3\n",
        "    polys = {1: lambda d: (d[0],), 2: lambda d: (d[1], d[0] ** 2), 3: lambda d: (d[2], 3 * d[0] * d[1], d[0] ** 3)}\n    for k in range(min(total - 1, 3), 0, -1):\n        if not np.any(coeff_a_mtr[k]):\n            continue\n        for j, b_kj in enumerate(polys[k](derivs), start=1):\n            coeff_b[j] += coeff_a_mtr[k] * b_kj\n"))
fire("C16", "bvp shortcut: zero net charge taken for zero density", "P1.radial-equation/poisson._solve_poisson_bvp_atomgrid",
     ("sub", "poisson.py", "    # Check if the domain of transform is in [0, \\infty)\n    domain = transform.domain\n", "    if np.isclose(boundary, 0.0):\n        return lambda points: np.zeros(len(points))\n    # Check if the domain of transform is in [0, \\infty)\n    domain = transform.domain\n"))
fire("C16", "second split fits a sorted basis but reports the caller's order", "P8.fit-consistency/robust_poisson._fit_residual_gaussians",
     ("sub", "robust_poisson.py", "        prefactors = (alphas_basis / np.pi) ** 1.5\n        A = prefactors[None, :] * np.exp(-r_sq[:, None] * alphas_basis[None, :])\n",
      "        sorted_basis = np.sort(alphas_basis)\n        prefactors = (sorted_basis / np.pi) ** 1.5\n        A = prefactors[None, :] * np.exp(-r_sq[:, None] * sorted_basis[None, :])\n"))
silent("C16", "second split sorts the basis once and uses the sorted basis everywhere",
       ("sub", "robust_poisson.py", "    residual = residual.copy()\n    all_coeffs = []\n", "    residual = residual.copy()\n    alphas_basis = np.sort(alphas_basis)\n    all_coeffs = []\n"))
fire("C09", "truncation keeps (d + 1) // 2 degrees (wrong for shells of even degree)", "D4.radial-components/atomgrid.AtomGrid.radial_component_splines",
     ("sub", "atomgrid.py", "                num_nonzero_sph = (self.degrees[i] // 2 + 1) ** 2\n", "                num_nonzero_sph = ((self.degrees[i] + 1) // 2) ** 2\n"))
fire("C09", "harmonic basis shared between grids through a module cache keyed without the rotation", "D8.own-basis/atomgrid.AtomGrid.radial_component_splines",
     ("sub", "atomgrid.py", "        if self._basis is None:\n            theta, phi = self.convert_cartesian_to_spherical().T[1:]\n",
      "        key = (self.method, tuple(int(d) for d in self.degrees))\n        if self._basis is None and key in _SHARED_BASIS:\n            self._basis = _SHARED_BASIS[key]\n        if self._basis is None:\n            theta, phi = self.convert_cartesian_to_spherical().T[1:]\n"),
     ("sub", "atomgrid.py", "        # Multiply spherical harmonic basis with the function values to project.\n", "        _SHARED_BASIS[key] = self._basis\n        # Multiply spherical harmonic basis with the function values to project.\n"),
     ("sub", "atomgrid.py", "class AtomGrid(Grid):\n", "_SHARED_BASIS = {}\n\n\nclass AtomGrid(Grid):\n"))
silent("C09", "harmonic basis shared between grids through a module cache keyed with the rotation",
       ("sub", "atomgrid.py", "        if self._basis is None:\n            theta, phi = self.convert_cartesian_to_spherical().T[1:]\n",
        "        key = (self.method, tuple(int(d) for d in self.degrees), self.rotate)\n        if self._basis is None and key in _SHARED_BASIS:\n            self._basis = _SHARED_BASIS[key]\n        if self._basis is None:\n            theta, phi = self.convert_cartesian_to_spherical().T[1:]\n"),
       ("sub", "atomgrid.py", "        # Multiply spherical harmonic basis with the function values to project.\n", "        _SHARED_BASIS[key] = self._basis\n        # Multiply spherical harmonic basis with the function values to project.\n"),
       ("sub", "atomgrid.py", "class AtomGrid(Grid):\n", "_SHARED_BASIS = {}\n\n\nclass AtomGrid(Grid):\n"))

# ------------------------------------------------------------------------------------------ C06 R7 / R8
fire("C06", "normaliser leaves out the last atom", "R7.partition-of-unity/becke.BeckeWeights.generate_weights",
     ("sub", "becke.py", "            weights += s_ab[:, select[0]] / np.sum(s_ab, axis=-1)\n", "            weights += s_ab[:, select[0]] / np.sum(s_ab[:, :-1], axis=-1)\n"))
fire("C06", "per-atom route normalises with its own cell counted twice", "R7.partition-of-unity/becke.BeckeWeights.compute_atom_weight",
     ("sub", "becke.py", "        weights += s_ab[:, select] / np.sum(s_ab, axis=-1)\n", "        weights += s_ab[:, select] / (np.sum(s_ab, axis=-1) + s_ab[:, select])\n"))
silent("C06", "cell factor written as a quotient",
       ("sub", "becke.py", "        s_ab = 0.5 * (1 - BeckeWeights._switch_func(v_pp, order=self._order))\n", "        s_ab = (1 - BeckeWeights._switch_func(v_pp, order=self._order)) / 2\n", 2))

# ------------------------------------------------------------------------------------------ C05 R8
fire("C05", "shell weights forget the radial Jacobian r^2", "R8.radial-times-shell/atomgrid.AtomGrid._generate_atomic_grid/weights",
     ("sub", "atomgrid.py", "            weights = weights * rgrid[i].weights * rgrid[i].points ** 2\n", "            weights = weights * rgrid[i].weights * rgrid[i].points\n"))
fire("C05", "rotation applied from the left", "R8.radial-times-shell/atomgrid.AtomGrid._generate_atomic_grid/points",
     ("sub", "atomgrid.py", "                points = points @ rot_mt\n", "                points = (rot_mt @ points.T).T\n"))
silent("C05", "shell scaled by a named radius and radial weight",
       ("sub", "atomgrid.py", "            points = points * rgrid[i].points\n            weights = weights * rgrid[i].weights * rgrid[i].points ** 2\n",
        "            shell = rgrid[i]\n            points = shell.points * points\n            weights = (shell.points**2 * shell.weights) * weights\n"))

# ------------------------------------------------------------------------------------------ C07 R7
fire("C07", "aim weights applied twice", "R7.molecular-assembly/molgrid.MolGrid.__init__/weights",
     ("sub", "molgrid.py", "        super().__init__(self.points, self._atweights * self._aim_weights)\n", "        super().__init__(self.points, self._atweights * self._aim_weights * self._aim_weights)\n"))
fire("C07", "weight callable receives the index table without its last entry", "R7.molecular-assembly/molgrid.MolGrid.__init__/aim-callable-arguments",
     ("sub", "molgrid.py", "            self._aim_weights = aim_weights(self._points, self._atcoords, atnums, self._indices)\n", "            self._aim_weights = aim_weights(self._points, self._atcoords, atnums, self._indices[:-1])\n"))
silent("C07", "base class initialised with a named weight product",
       ("sub", "molgrid.py", "        super().__init__(self.points, self._atweights * self._aim_weights)\n", "        total_weights = self._aim_weights * self._atweights\n        super().__init__(self.points, total_weights)\n"))

# ------------------------------------------------------------------------------------------ C17 S2
fire("C17", "p primitives evaluated with the exponents of the s primitives", "S2.superposition-evaluated/coulomb.coulomb_potential/p-family",
     ("sub", "coulomb.py", "        for c, alpha, center in zip(coeffs_p, alphas_p, centers_p):\n", "        for c, alpha, center in zip(coeffs_p, alphas_s, centers_p):\n"))
fire("C17", "normalisation flag not handed to the s primitives", "S2.superposition-evaluated/coulomb.coulomb_potential",
     ("sub", "coulomb.py", "        V += c * coulomb_gaussian_s(r, alpha, normalized=normalized)\n", "        V += c * coulomb_gaussian_s(r, alpha)\n"))
silent("C17", "s primitives accumulated through an index loop",
       ("sub", "coulomb.py", "    for c, alpha, center in zip(coeffs_s, alphas_s, centers_s):\n        r = np.linalg.norm(points - center, axis=-1)\n        V += c * coulomb_gaussian_s(r, alpha, normalized=normalized)\n",
        "    for k in range(len(coeffs_s)):\n        r = np.linalg.norm(points - centers_s[k], axis=-1)\n        V = V + coeffs_s[k] * coulomb_gaussian_s(r, alphas_s[k], normalized=normalized)\n"))

# ------------------------------------------------------------------------------------------ C07 R8, C05 R9, C06 order
fire("C07", "boolean rotate translated into a seed by the molecular constructor", "R8.constructor-fan-out-evaluated/molgrid.MolGrid.from_size/rotate",
     ("sub", "molgrid.py", "                AtomGrid(rad_grid, degrees=None, sizes=[size], center=atcoord, rotate=rotate)\n",
      "                AtomGrid(rad_grid, degrees=None, sizes=[size], center=atcoord, rotate=37 if rotate is True else rotate)\n"))
silent("C07", "from_size builds the atomic grids in a comprehension with a helper for the radial grid",
       ("sub", "molgrid.py", "        atgrids = []\n        for atnum, atcoord in zip(atnums, atcoords):\n            if rgrid is None:\n                rad_grid = _generate_default_rgrid(atnum)\n            else:\n                rad_grid = rgrid\n            atgrids.append(\n                AtomGrid(rad_grid, degrees=None, sizes=[size], center=atcoord, rotate=rotate)\n            )\n",
        "        atgrids = [\n            AtomGrid(_generate_default_rgrid(atnum) if rgrid is None else rgrid, degrees=None, sizes=[size], center=atcoord, rotate=rotate)\n            for atnum, atcoord in zip(atnums, atcoords)\n        ]\n"))
fire("C05", "get_shell_grid rotates with the seed of the previous shell", "R9.shell-grid-evaluated/atomgrid.AtomGrid.get_shell_grid",
     ("sub", "atomgrid.py", "            rot_mt = R.random(random_state=self.rotate + index).as_matrix()\n            pts = pts.dot(rot_mt)\n", "            rot_mt = R.random(random_state=self.rotate + index - 1).as_matrix()\n            pts = pts.dot(rot_mt)\n"))
fire("C06", "per-atom route ignores the configured switching order", "R7.partition-of-unity/becke.BeckeWeights.compute_atom_weight",
     ("sub", "becke.py", "        s_ab = 0.5 * (1 - BeckeWeights._switch_func(v_pp, order=self._order))\n        del v_pp\n        # convert nan to 1\n        s_ab[np.isnan(s_ab)] = 1\n        # product up A_B, A_C, A_D ... along rows\n        s_ab = np.prod(s_ab, axis=-1)\n        # calculate weight for each point in select\n        weights += s_ab[:, select]",
      "        s_ab = 0.5 * (1 - BeckeWeights._switch_func(v_pp))\n        del v_pp\n        # convert nan to 1\n        s_ab[np.isnan(s_ab)] = 1\n        # product up A_B, A_C, A_D ... along rows\n        s_ab = np.prod(s_ab, axis=-1)\n        # calculate weight for each point in select\n        weights += s_ab[:, select]"))

# ------------------------------------------------------------------------------------------ helpers reached by inlining (round 12)
_TRIM_OLD = "        rf_array = -self._R * np.log((x + 1) / 2) + self._rmin\n        if self.trim_inf:\n            rf_array = self._convert_inf(rf_array)\n        return rf_array\n"
_TRIM_NEW = "        rf_array = -self._R * np.log((x + 1) / 2) + self._rmin\n        return _trim_helper(self, rf_array)\n"
silent("C03", "trimming of MultiExp.transform moved into a module-level helper that tests the flag",
       ("sub", "rtransform.py", _TRIM_OLD, _TRIM_NEW),
       ("sub", "rtransform.py", "class MultiExpRTransform(BaseTransform):\n",
        "def _trim_helper(tf, values):\n    if tf.trim_inf:\n        values = tf._convert_inf(values)\n    return values\n\n\nclass MultiExpRTransform(BaseTransform):\n"))
fire("C03", "trimming helper discards the converted array", "R3.trim-honoured-by-transform",
     ("sub", "rtransform.py", _TRIM_OLD, _TRIM_NEW),
     ("sub", "rtransform.py", "class MultiExpRTransform(BaseTransform):\n",
      "def _trim_helper(tf, values):\n    if tf.trim_inf:\n        tf._convert_inf(values)\n    return values\n\n\nclass MultiExpRTransform(BaseTransform):\n"))
_SETB_OLD = ("class LinearInfiniteRTransform(BaseTransform):\n", "    def set_maximum_parameter_b(self, x):\n        r\"\"\"Sets up the parameter b from taken the maximum over some grid x.\"\"\"\n        if self.b is None:\n            self._b = np.max(x)\n            if np.abs(self.b) < 1e-16:\n                raise ValueError(\n                    f\"The parameter b {self.b} is taken from the maximum of the grid\"\n                    f\"and can't be zero.\"\n                )\n")
silent("C19", "set-once scale of LinearInfinite fixed by a module-level helper under the None test",
       ("sub", "rtransform.py", _SETB_OLD[1], "    def set_maximum_parameter_b(self, x):\n        r\"\"\"Sets up the parameter b from taken the maximum over some grid x.\"\"\"\n        _fix_b(self, x)\n"),
       ("sub", "rtransform.py", _SETB_OLD[0], "def _fix_b(tf, x):\n    if tf.b is None:\n        tf._b = np.max(x)\n        if np.abs(tf.b) < 1e-16:\n            raise ValueError(\"The parameter b can't be zero.\")\n\n\n" + _SETB_OLD[0]))
fire("C19", "module-level helper overwrites the scale on every call", "R3.transform-stateless",
     ("sub", "rtransform.py", _SETB_OLD[1], "    def set_maximum_parameter_b(self, x):\n        r\"\"\"Sets up the parameter b from taken the maximum over some grid x.\"\"\"\n        _fix_b(self, x)\n"),
     ("sub", "rtransform.py", _SETB_OLD[0], "def _fix_b(tf, x):\n    tf._b = np.max(x)\n    if np.abs(tf.b) < 1e-16:\n        raise ValueError(\"The parameter b can't be zero.\")\n\n\n" + _SETB_OLD[0]))
_STR_OLD = "        strides = np.empty(self.ndim, dtype=int)\n        strides[-1] = 1\n        # Row-major, right to left: each stride equals the next stride times the next dimension size.\n        for i in range(self.ndim - 2, -1, -1):\n            strides[i] = strides[i + 1] * self.shape[i + 1]\n        return np.dot(indices, strides)\n"
fire("C13", "strides moved into a private helper that multiplies by the wrong axis", "index-map-strides",
     ("sub", "cubic.py", _STR_OLD,
      "        return np.dot(indices, self._index_strides())\n\n    def _index_strides(self):\n        strides = np.empty(self.ndim, dtype=int)\n        strides[-1] = 1\n        for i in range(self.ndim - 2, -1, -1):\n            strides[i] = strides[i + 1] * self.shape[i]\n        return strides\n"))
silent("C13", "strides moved into a private helper",
       ("sub", "cubic.py", _STR_OLD,
        "        return np.dot(indices, self._index_strides())\n\n    def _index_strides(self):\n        strides = np.empty(self.ndim, dtype=int)\n        strides[-1] = 1\n        for i in range(self.ndim - 2, -1, -1):\n            strides[i] = strides[i + 1] * self.shape[i + 1]\n        return strides\n"))
import os as _os
_RK11_2 = _os.path.join(_os.path.dirname(_os.path.dirname(_os.path.abspath(__file__))), "refactors", "RK11-2", "patch.diff")
if _os.path.exists(_RK11_2):
    fire("C01", "table-driven Trefethen maps: the row of order 9 pairs _g3 with the derivative of _g2", "R2.map-applied-with-its-derivative",
         ("patch", _RK11_2),
         ("sub", "onedgrid.py", "(9, _g3, _derg3))", "(9, _g3, _derg2))"))
    fire("C01", "pair-returning strip helper weights with the map itself", "R2.map-applied-with-its-derivative",
         ("patch", _RK11_2),
         ("sub", "onedgrid.py", "    return _gstrip(rho, grid.points), _dergstrip(rho, grid.points) * grid.weights\n",
          "    return _gstrip(rho, grid.points), _gstrip(rho, grid.points) * grid.weights\n"))
_RK11_5 = _os.path.join(_os.path.dirname(_os.path.dirname(_os.path.abspath(__file__))), "refactors", "RK11-5", "patch.diff")
if _os.path.exists(_RK11_5):
    fire("C03", "derivatives gathered by a comprehension over bound methods in the wrong order", "R7.inverse-function-theorem",
         ("patch", _RK11_5),
         ("sub", "rtransform.py", "(self.deriv, self.deriv2, self.deriv3)[:order]", "(self.deriv, self.deriv3, self.deriv2)[:order]"))
