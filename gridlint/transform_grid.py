"""C04, rule g.assembly-evaluated (E10): transform_1d_grid evaluated over a symbolic one-dimensional grid.

With the transformation's methods as uninterpreted functions T, D the returned OneDGrid must be built from
points T(x_i), weights D(x_i) w_i (or |D(x_i)| w_i -- the sign clause belongs to rule c) and, for both orderings of
the images of the domain ends (an increasing and a decreasing map), the ordered pair of T(a), T(b).
"""
from __future__ import annotations

import ast

from gridlint.core import AnalysisError


def rule_assembly_evaluated(rep, repo):
    import sympy as sp
    from gridlint import e10
    f = repo.resolve_method("BaseTransform", "transform_1d_grid")
    if f is None:
        raise AnalysisError("anchor vanished: BaseTransform.transform_1d_grid")
    here = f.loc()
    mod_funcs = {g.name: g.node for g in repo.funcs.values()
                 if g.module == "rtransform" and g.cls is None and g.parent is None and isinstance(g.node, ast.FunctionDef)}
    n = 0
    for decreasing in (False, True):
        x = [sp.Symbol(f"x{i}") for i in range(3)]
        w = [sp.Symbol(f"w{i}") for i in range(3)]
        a, b = sp.Symbol("DA"), sp.Symbol("DB")
        made = {}

        def oned(points=None, weights=None, domain=None, *args, **kw):
            made.update(points=points, weights=weights, domain=domain)
            return e10.Obj("new-grid", cls="OneDGrid")
        grid = e10.Obj("oned", cls="OneDGrid", points=e10.arr(x), weights=e10.arr(w), domain=(a, b), size=3)
        T, D = e10.Fn("T"), e10.Fn("D")
        obj = e10.Obj("transform", cls="BaseTransform", transform=T, deriv=D, domain=(sp.Symbol("TA"), sp.Symbol("TB")),
                      codomain=(sp.Symbol("CA"), sp.Symbol("CB")))
        it = e10.Interp(mod_funcs, {"OneDGrid": e10.Cls("OneDGrid", oned)})
        obj.resolver = e10.class_resolver(repo, "BaseTransform", obj, it)
        Ta, Tb = sp.Function("T")(a), sp.Function("T")(b)
        it.chain = [Tb, Ta] if decreasing else [Ta, Tb]
        try:
            it.call_def(f.node, [obj, grid], {}, {})
        except e10.Undecided as e:
            raise AnalysisError(f"BaseTransform.transform_1d_grid is outside the fragment the symbolic array evaluator knows: {e}") from e
        except (IndexError, ValueError, TypeError, KeyError, AttributeError) as e:
            raise AnalysisError(f"BaseTransform.transform_1d_grid: the evaluation over symbolic arrays failed ({type(e).__name__}: {e})") from e
        cfg = "decreasing map" if decreasing else "increasing map"
        cons = "rtransform.BaseTransform.transform_1d_grid"
        n += 1
        if not made:
            rep.violation("g.assembly-evaluated", cons, "result", f"{cfg}: no OneDGrid is constructed", here)
            continue
        P, W, Dm = made["points"], made["weights"], made["domain"]
        ok = True
        if P is None or len(list(P)) != 3 or any(sp.expand(P[i] - sp.Function("T")(x[i])) != 0 for i in range(3)):
            rep.violation("g.assembly-evaluated", cons, "points",
                          f"{cfg}: the new nodes are {[str(v) for v in (list(P) if P is not None else [])]}, expected T(x_i)", here)
            ok = False
        if W is None or len(list(W)) != 3 or any(
                sp.expand(W[i] - sp.Function("D")(x[i]) * w[i]) != 0 and sp.expand(W[i] - sp.Abs(sp.Function("D")(x[i])) * w[i]) != 0
                for i in range(3)):
            rep.violation("g.assembly-evaluated", cons, "weights",
                          f"{cfg}: the new weights are {[str(v) for v in (list(W) if W is not None else [])]}, expected the derivative "
                          f"of the map at the same node times the old weight", here)
            ok = False
        want = (Tb, Ta) if decreasing else (Ta, Tb)
        if Dm is None or len(list(Dm)) != 2 or any(sp.expand(u - v) != 0 for u, v in zip(list(Dm), want)):
            rep.violation("g.assembly-evaluated", cons, "domain",
                          f"{cfg}: the new domain is {[str(v) for v in (list(Dm) if Dm is not None else [])]}, expected the ordered image "
                          f"{[str(v) for v in want]} of the old domain", here)
            ok = False
        if ok:
            rep.ok("g.assembly-evaluated", f"transform_1d_grid[{cfg}]", here, "points T(x), weights D(x) w, domain = ordered image")
    rep.floor("g configurations", n, 2)
