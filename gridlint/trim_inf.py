"""C03, rule R3.convert-inf-two-sided by evaluation (E10).

BaseTransform._convert_inf is evaluated on an array and on scalars that contain +inf, -inf, a finite symbol and a
finite literal above the replacement value: +inf becomes +replace, -inf becomes -replace and every finite value --
however large -- is returned unchanged; the input array is not the object that is returned.
"""
from __future__ import annotations

import ast

from gridlint.core import AnalysisError


def rule_convert_inf(rep, repo):
    import sympy as sp
    from gridlint import e10
    f = repo.resolve_method("BaseTransform", "_convert_inf")
    if f is None:
        raise AnalysisError("anchor vanished: BaseTransform._convert_inf")
    here = f.loc()
    cons = "rtransform.BaseTransform._convert_inf"
    RI = sp.Symbol("REPLACE", positive=True, finite=True)
    x = sp.Symbol("x", finite=True, real=True)
    big = sp.Integer(2) * 10 ** 17
    mod_funcs = {g.name: g.node for g in repo.funcs.values()
                 if g.module == "rtransform" and g.cls is None and g.parent is None and isinstance(g.node, ast.FunctionDef)}

    def run(value):
        obj = e10.Obj("transform", cls="BaseTransform")
        it = e10.Interp(mod_funcs, {})
        obj.resolver = e10.class_resolver(repo, "BaseTransform", obj, it)
        try:
            return it.call_def(f.node, [obj, value], {"replace_inf": RI}, {})
        except e10.Undecided as e:
            raise AnalysisError(f"BaseTransform._convert_inf is outside the fragment the symbolic array evaluator knows: {e}") from e
        except (IndexError, ValueError, TypeError, KeyError, AttributeError) as e:
            raise AnalysisError(f"BaseTransform._convert_inf: the evaluation over symbolic arrays failed ({type(e).__name__}: {e})") from e
    arr_in = e10.arr([sp.oo, -sp.oo, x, big, sp.Integer(-3)])
    out = run(arr_in)
    want = [RI, -RI, x, big, sp.Integer(-3)]
    got = list(out) if hasattr(out, "__len__") else None
    roles = (("array+inf", 0, "array input, +inf replaced by +large"), ("array-inf", 1, "array input, -inf replaced by -large"),
             ("array-finite", 2, "array input, a finite value is returned unchanged"),
             ("array-finite", 3, "array input, a finite value above the replacement is returned unchanged"),
             ("array-finite", 4, "array input, a negative finite value is returned unchanged"))
    for role, i, what in roles:
        if got is not None and len(got) == 5 and sp.simplify(got[i] - want[i]) == 0:
            rep.ok("R3.convert-inf-two-sided", f"BaseTransform._convert_inf[{role}:{i}]", here, what)
        else:
            rep.violation("R3.convert-inf-two-sided", cons, role,
                          f"_convert_inf does not handle: {what} (entry {arr_in[i]} became {got[i] if got and len(got) == 5 else got})", here)
    if out is arr_in:
        rep.violation("R3.convert-inf-two-sided", cons, "array-copy", "the caller's array is modified and returned", here)
    for val, wv, what in ((sp.oo, RI, "scalar +inf"), (-sp.oo, -RI, "scalar -inf"), (sp.Float(5), sp.Float(5), "finite scalar"),
                          (big, big, "finite scalar above the replacement")):
        r = run(val)
        if isinstance(r, (sp.Basic, int, float)) and sp.simplify(sp.sympify(r) - wv) == 0:
            rep.ok("R3.convert-inf-two-sided", f"BaseTransform._convert_inf[scalar:{what}]", here, what)
        else:
            rep.violation("R3.convert-inf-two-sided", cons, "scalar",
                          f"_convert_inf does not handle: scalar input (sign-preserving replacement of +-inf, finite values unchanged): "
                          f"{what} became {r}", here)
