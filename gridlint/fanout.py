"""C07, rule R8.constructor-fan-out-evaluated (E10).

MolGrid.from_size / from_preset / from_pruned are evaluated with the atomic constructors, the default radial grid, the
default weights and `cls` as recording stubs.  For every form the per-atom arguments can take (one radial grid for all /
a list / a dictionary by element / none; one preset / a list / a dictionary) and for rotate in {True, False, 7, 37},
store in {True, False}, aim weights given or not:

  * atom i is built from its own radial grid, preset, sectors, centre atcoords[i] and atomic number atnums[i];
  * `rotate` reaches the atomic constructor as the very value the caller gave (True stays True);
  * the molecular grid is built from (atnums, the atomic grids in atom order, the caller's weights or BeckeWeights(order=3),
    store=store) and returned.
"""
from __future__ import annotations

import ast

from gridlint.core import AnalysisError


def rule_fanout(rep, repo):
    import sympy as sp
    from gridlint import e10
    n = 0
    mod_funcs = {g.name: g.node for g in repo.funcs.values()
                 if g.module == "molgrid" and g.cls is None and g.parent is None and isinstance(g.node, ast.FunctionDef)}
    globs = {k: v for k, v in e10.module_globals_of(repo.modules["molgrid"].tree).items() if not isinstance(v, ast.ClassDef)}
    for ctor in ("from_size", "from_preset", "from_pruned"):
        f = repo.resolve_method("MolGrid", ctor)
        if f is None:
            raise AnalysisError(f"anchor vanished: MolGrid.{ctor}")
        here = f.loc()
        params = [a.arg for a in f.node.args.args] + [a.arg for a in f.node.args.kwonlyargs]
        configs = []
        rots = [True, False, 7, 37]
        for i_r, rform in enumerate(("one", "list", "dict", "none")):
            if ctor == "from_size" and rform in ("list", "dict"):
                continue
            configs.append((rform, ("str", "list", "dict")[i_r % 3], rots[i_r % 4], bool(i_r % 2), i_r % 2 == 0))
        configs.append(("one", "str", True, True, False))
        configs.append(("one", "str", 7, False, "array"))
        for rform, pform, rotate, store, given_aim in configs:
            Z = [sp.Symbol("Z0"), sp.Symbol("Z1")]
            atnums = e10.arr(Z)
            atcoords = e10._obj_array([[sp.Symbol(f"c{a}{c}") for c in range(3)] for a in range(2)])
            one = e10.Obj("rgrid-all", cls="OneDGrid")
            rg = {"one": one, "list": [e10.Obj("rg0", cls="OneDGrid"), e10.Obj("rg1", cls="OneDGrid")],
                  "dict": {Z[0]: e10.Obj("rgZ0", cls="OneDGrid"), Z[1]: e10.Obj("rgZ1", cls="OneDGrid")}, "none": None}[rform]
            defaults = {}

            def default_rgrid(atnum):
                return defaults.setdefault(atnum, e10.Obj(f"default-rgrid[{atnum}]", cls="OneDGrid", atnum=atnum))
            want_rg = [one, one] if rform == "one" else rg if rform == "list" else [rg[Z[0]], rg[Z[1]]] if rform == "dict" else None
            preset = {"str": "fine", "list": ["coarse", "fine"], "dict": {Z[0]: "coarse", Z[1]: "ultrafine"}}[pform]
            want_preset = ["fine", "fine"] if pform == "str" else preset if pform == "list" else [preset[Z[0]], preset[Z[1]]]
            built, made = [], {}

            def record(kind):
                def make(*args, **kw):
                    g = e10.Obj(f"atomgrid{len(built)}", cls="AtomGrid")
                    built.append((kind, args, kw, g))
                    return g
                return make
            AtomGrid = e10.Obj("AtomGrid-class", cls="type", __call__=record("init"), from_preset=record("from_preset"),
                               from_pruned=record("from_pruned"))
            becke = []

            def becke_ctor(*args, **kw):
                b = e10.Obj("BeckeWeights()", cls="BeckeWeights", args=args, kw=kw)
                becke.append(b)
                return b

            def cls_call(*args, **kw):
                made["args"], made["kw"] = args, kw
                return e10.Obj("molgrid", cls="MolGrid")
            klass = e10.Obj("cls", cls="type", __call__=cls_call)
            ext = {"AtomGrid": AtomGrid, "BeckeWeights": e10.Cls("BeckeWeights", becke_ctor), "OneDGrid": e10.Cls("OneDGrid"),
                   "_generate_default_rgrid": default_rgrid}
            it = e10.Interp({k: v for k, v in mod_funcs.items() if k not in ext}, ext, module_globals=globs)
            AW = e10.arr([sp.Symbol(f"aw{k_}") for k_ in range(4)]) if given_aim == "array" else e10.Obj("caller-aim-weights", cls="callable")
            kw = {"atnums": atnums, "atcoords": atcoords, "rgrid": rg, "rotate": rotate, "store": store,
                  "aim_weights": AW if given_aim else None}
            if ctor == "from_size":
                kw["size"] = sp.Symbol("SIZE")
            elif ctor == "from_preset":
                kw["preset"] = preset
            else:
                kw.update(radius=[sp.Symbol("RA0"), sp.Symbol("RA1")], r_sectors=[[sp.Symbol("rs0")], [sp.Symbol("rs1")]],
                          d_sectors=[[sp.Symbol("d00"), sp.Symbol("d01")], [sp.Symbol("d10"), sp.Symbol("d11")]])
            missing = [k for k in kw if k not in params]
            if missing:
                raise AnalysisError(f"unrecognised signature of MolGrid.{ctor}: no parameter(s) {missing}")
            cfg0 = f"rgrid as {rform}, rotate={rotate!r}, store={store}, aim weights {'as an array' if given_aim == 'array' else 'given' if given_aim else 'not given'}"
            try:
                ret = it.call_def(f.node, [klass], kw, {})
            except e10.RuntimeFailure as e:
                rep.violation("R8.constructor-fan-out-evaluated", f"molgrid.MolGrid.{ctor}", "raises",
                              f"{cfg0}: the constructor fails at run time: {e}", here)
                n += 1
                continue
            except e10.Undecided as e:
                raise AnalysisError(f"MolGrid.{ctor} is outside the fragment the symbolic array evaluator knows: {e}") from e
            except (IndexError, ValueError, TypeError, KeyError, AttributeError) as e:
                raise AnalysisError(f"MolGrid.{ctor}: the evaluation over symbolic arrays failed ({type(e).__name__}: {e})") from e
            cfg = f"rgrid as {rform}" + (f", preset as {pform}" if ctor == "from_preset" else "") + f", rotate={rotate!r}, store={store}"
            cons = f"molgrid.MolGrid.{ctor}"
            n += 1
            if len(built) != 2:
                rep.violation("R8.constructor-fan-out-evaluated", cons, "every-atom",
                              f"{cfg}: {len(built)} atomic grids are built for two atoms", here)
                continue
            bad = None
            for i, (kind, args, k2, g) in enumerate(built):
                allv = dict(k2)
                if kind == "init":
                    names = ("rgrid", "degrees", "sizes", "center", "rotate")
                elif kind == "from_preset":
                    names = ("rgrid", "atnum", "preset", "center", "rotate")
                else:
                    names = ("rgrid", "radius", "r_sectors", "d_sectors", "s_sectors", "center", "rotate")
                for nm, v in zip(names, args):
                    allv.setdefault(nm, v)
                rgot = allv.get("rgrid")
                rwant = want_rg[i] if want_rg is not None else defaults.get(Z[i])
                if rgot is None or rgot is not rwant:
                    bad = ("radial-grid", f"atom {i} is built on {rgot!r}, expected {rwant!r}")
                cen = allv.get("center")
                if bad is None and (cen is None or any(sp.expand(cen[c] - atcoords[i, c]) != 0 for c in range(3))):
                    bad = ("centre", f"atom {i} is not centred on atcoords[{i}]")
                rot = allv.get("rotate", "<absent>")
                if bad is None and not (type(rot) is type(rotate) and rot == rotate):
                    bad = ("rotate", f"atom {i} is built with rotate={rot!r}; the caller passed rotate={rotate!r}")
                if bad is None and ctor == "from_preset" and (allv.get("preset") != want_preset[i] or allv.get("atnum") != Z[i]):
                    bad = ("preset", f"atom {i} is built with preset={allv.get('preset')!r}, atnum={allv.get('atnum')}; expected "
                                     f"{want_preset[i]!r}, {Z[i]}")
                if bad is None and ctor == "from_size" and list(allv.get("sizes") or []) != [sp.Symbol("SIZE")]:
                    bad = ("size", f"atom {i} is built with sizes={allv.get('sizes')!r}; expected [size]")
                if bad is None and ctor == "from_pruned":
                    if allv.get("radius") != sp.Symbol(f"RA{i}") or list(allv.get("r_sectors") or []) != [sp.Symbol(f"rs{i}")] or \
                            list(allv.get("d_sectors") or []) != [sp.Symbol(f"d{i}0"), sp.Symbol(f"d{i}1")] or allv.get("s_sectors") is not None:
                        bad = ("sectors", f"atom {i} does not receive its own radius / radial sectors / angular degrees")
                if bad:
                    break
            if bad is None:
                a_ = list(made.get("args", ())) + [None] * 4
                k_ = made.get("kw", {})
                grids = a_[1] if a_[1] is not None else k_.get("atgrids")
                aim = a_[2] if a_[2] is not None else k_.get("aim_weights")
                st = k_.get("store", a_[3])
                if not made or a_[0] is not atnums or grids is None or list(grids) != [b[3] for b in built]:
                    bad = ("molecule", "the molecular grid is not built from the atomic numbers and the atomic grids in atom order")
                elif given_aim and aim is not AW:
                    bad = ("aim-weights", "the caller's atom-in-molecule weights are not handed on")
                elif not given_aim and not (len(becke) == 1 and aim is becke[0] and becke[0].attrs["kw"].get("order", (list(becke[0].attrs["args"]) + [None])[0]) == 3):
                    bad = ("aim-weights", "without weights from the caller the default must be BeckeWeights(order=3)")
                elif st is not store:
                    bad = ("store", f"store={st!r} is handed on; the caller passed {store!r}")
                elif not (isinstance(ret, e10.Obj) and ret.cls == "MolGrid"):
                    bad = ("result", "the constructed molecular grid is not returned")
            if bad:
                rep.violation("R8.constructor-fan-out-evaluated", cons, bad[0], f"{cfg}: {bad[1]}", here)
            else:
                rep.ok("R8.constructor-fan-out-evaluated", f"MolGrid.{ctor}[{cfg}]", here, "every argument reaches its atom unchanged")
    rep.floor("R8 configurations", n, 10)
