"""C13, rule log-interpolant-derivative (E10).

_HyperRectangleGrid.interpolate(use_log=True, nu > 0) interpolates g = ln f and returns derivatives
of f = exp(g).  The statement's interpolation clause needs the returned value to be the derivative
of that same exp(g): d^k/dx^k exp(g) = exp(g) B_k(g', .., g^(k)) (complete Bell polynomial).  The
method is evaluated over symbolic arrays with its own recursive calls (the spline interpolation of
g and of its derivatives) replaced by a recording stub, and the result is compared with the
derivative obtained from the two rules D e = e g_1, D g_i = g_(i+1) only -- for each axis and the
orders 1, 2, 3 (a cubic spline has no more).  Also decided: the recursive calls interpolate the
*logarithm* of the caller's values, without use_log, along the same axis.
"""
from __future__ import annotations

import ast

from gridlint.core import AnalysisError


def _exp_chain(k, E, g):
    """[T_0..T_k]: derivatives of exp(g) in terms of E = exp(g) and g_i."""
    import sympy as sp
    out = [E]
    for _ in range(k):
        t = out[-1]
        d = sp.diff(t, E) * E * g[1]
        for i in range(1, len(g) - 1):
            d += sp.diff(t, g[i]) * g[i + 1]
        out.append(sp.expand(d))
    return out


def rule_log_derivative(rep, repo):
    import sympy as sp
    from gridlint import e10
    f = repo.resolve_method("_HyperRectangleGrid", "interpolate")
    if f is None:
        raise AnalysisError("anchor vanished: _HyperRectangleGrid.interpolate")
    here = f.loc()
    params = [a.arg for a in f.node.args.args]
    for need in ("points", "values", "use_log", "nu_x", "nu_y", "nu_z"):
        if need not in params:
            raise AnalysisError(f"unrecognised signature of _HyperRectangleGrid.interpolate: no parameter `{need}`")
    n = 0
    M = 2
    for axis, nu_name in enumerate(("nu_x", "nu_y", "nu_z")):
        for k in (1, 2, 3):
            vals = e10.arr([sp.Symbol(f"v{i}", positive=True) for i in range(8)])
            P = e10._obj_array([[sp.Symbol(f"q{j}{c}") for c in range(3)] for j in range(M)])
            calls = []

            def rec(points, values, use_log=False, nu_x=0, nu_y=0, nu_z=0, method="cubic"):
                nus = (nu_x, nu_y, nu_z)
                calls.append({"values": values, "use_log": use_log, "nus": nus, "points": points})
                order = sum(int(x) for x in nus)
                ax = [i for i, x in enumerate(nus) if x]
                tag = "".join("xyz"[i] for i in ax) or "0"
                return e10.arr([sp.Symbol(f"G_{tag}_{order}_{j}") for j in range(M)])
            obj = e10.Obj("grid", cls="_HyperRectangleGrid", ndim=3, shape=(2, 2, 2), interpolate=rec,
                          points=e10._obj_array([[sp.Symbol(f"gp{i}{c}") for c in range(3)] for i in range(8)]))
            ext = {"symbols": lambda spec: sp.symbols(spec), "bell": lambda a, b, seq: e10.bell_incomplete(a, b, list(seq)),
                   "CubicSpline": e10.Cls("CubicSpline"), "RegularGridInterpolator": e10.Cls("RegularGridInterpolator")}
            mod_funcs = {g.name: g.node for g in repo.funcs.values()
                         if g.module == "cubic" and g.cls is None and g.parent is None and isinstance(g.node, ast.FunctionDef)}
            globs = {k_: v for k_, v in e10.module_globals_of(repo.modules["cubic"].tree).items() if not isinstance(v, ast.ClassDef)}
            it = e10.Interp(mod_funcs, ext, module_globals=globs)

            def resolver(name, obj=obj, it=it):
                fdef = repo.resolve_method("_HyperRectangleGrid", name)
                if fdef is None or not isinstance(fdef.node, ast.FunctionDef):
                    return False, None
                decos = {getattr(d, "id", getattr(d, "attr", None)) for d in fdef.node.decorator_list}
                if "property" in decos:
                    return True, it.call_def(fdef.node, [obj], {}, {})
                if "staticmethod" in decos:
                    return True, (lambda *a, **k2: it.call_def(fdef.node, list(a), k2, {}))
                return True, (lambda *a, **k2: it.call_def(fdef.node, [obj] + list(a), k2, {}))
            obj.resolver = resolver
            kw = {"use_log": True, nu_name: k}
            try:
                out = it.call_def(f.node, [obj, P, vals], kw, {})
            except e10.Undecided as e:
                raise AnalysisError(f"_HyperRectangleGrid.interpolate(use_log=True, {nu_name}={k}) is outside the fragment the "
                                    f"symbolic array evaluator knows: {e}") from e
            except (IndexError, ValueError, TypeError, KeyError, AttributeError) as e:
                raise AnalysisError(f"_HyperRectangleGrid.interpolate(use_log=True): the evaluation over symbolic arrays failed "
                                    f"({type(e).__name__}: {e})") from e
            cfg = f"use_log, {nu_name} = {k}"
            # the recursive calls: logarithm of the values, no use_log, only this axis
            bad_calls = [c for c in calls if c["use_log"] or any(sp.simplify(a - sp.log(b)) != 0 for a, b in zip(list(c["values"]), list(vals)))
                         or any(x for i, x in enumerate(c["nus"]) if i != axis)]
            if bad_calls or not calls:
                rep.violation("log-interpolant-derivative", "cubic._HyperRectangleGrid.interpolate", "log-values",
                              f"{cfg}: the spline interpolations behind the logarithmic branch must interpolate ln(values), with "
                              f"use_log=False and derivatives along the requested axis only; found "
                              f"{[(c['use_log'], c['nus']) for c in (bad_calls or calls)][:4]}", here)
                continue
            if not hasattr(out, "shape") or out.shape != (M,):
                rep.violation("log-interpolant-derivative", "cubic._HyperRectangleGrid.interpolate", "shape",
                              f"{cfg}: the result has shape {getattr(out, 'shape', None)} for {M} points", here)
                continue
            tag = "xyz"[axis]
            for j in range(M):
                E = sp.Symbol("E_")
                g = [None] + [sp.Symbol(f"g{i}_") for i in range(1, k + 2)]
                T = _exp_chain(k, E, g)[k]
                sub = {E: sp.exp(sp.Symbol(f"G_0_0_{j}"))}
                sub.update({g[i]: sp.Symbol(f"G_{tag}_{i}_{j}") for i in range(1, k + 1)})
                want = T.subs(sub)
                n += 1
                if sp.simplify(sp.expand(out[j] - want)) != 0:
                    rep.violation("log-interpolant-derivative", "cubic._HyperRectangleGrid.interpolate", f"order[{k}]",
                                  f"{cfg}: the value returned for a point is `{str(sp.expand(out[j]))[:200]}`; the order-{k} derivative of "
                                  f"exp(g) is `{str(sp.expand(want))[:200]}` (G_0: interpolated ln f, G_{tag}_i: its i-th derivative along "
                                  f"{tag})", here)
                    break
            else:
                rep.ok("log-interpolant-derivative", f"_HyperRectangleGrid.interpolate[{cfg}]", here, "exp(g) x complete Bell polynomial")
    rep.floor("log-derivative entries", n, 18)
