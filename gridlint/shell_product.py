"""C05, rule R8.radial-times-shell (E10).

AtomGrid._generate_atomic_grid is evaluated over a symbolic radial grid (3 shells) with angular grids
of 2, 3 and 2 symbolic points and a symbolic rotation matrix per seed.  The assembled arrays must be
the tensor structure the statement describes:

    point  (i, k) = r_i * (Omega_k^(i) @ M_(rotate + i))     (no rotation matrix for rotate = 0)
    weight (i, k) = omega_k^(i) * w_i * r_i^2
    indices       = running shell sizes, degrees actually used = those of the angular grids

so that a sum over the atomic grid factorises into sum_i w_i r_i^2 sum_k omega_k f(r_i Omega_k).
The centre is added on read (R3).  NOT decided: the numeric content of the angular grids.
"""
from __future__ import annotations

import ast

from gridlint.core import AnalysisError


def rule_shell_product(rep, repo):
    import sympy as sp
    from gridlint import e10
    f = repo.resolve_method("AtomGrid", "_generate_atomic_grid")
    if f is None:
        raise AnalysisError("anchor vanished: AtomGrid._generate_atomic_grid")
    here = f.loc()
    sizes = {3: 2, 5: 3, 7: 2}
    degs = [3, 5, 7]
    n = 0
    for rotate in (0, 4):
        r = [sp.Symbol(f"r{i}", positive=True) for i in range(3)]
        w = [sp.Symbol(f"w{i}", positive=True) for i in range(3)]
        made = []

        def angular(degree=None, size=None, method="lebedev", **kw):
            d = int(degree)
            k = len(made)
            pts = e10._obj_array([[sp.Symbol(f"O{d}_{j}{c}") for c in range(3)] for j in range(sizes[d])])
            wts = e10.arr([sp.Symbol(f"om{d}_{j}") for j in range(sizes[d])])
            g = e10.Obj(f"angular{k}", cls="AngularGrid", points=pts, weights=wts, degree=d, size=sizes[d], method=method)
            made.append(g)
            return g

        def getitem(i):
            i = int(i)
            return e10.Obj(f"rgrid[{i}]", cls="OneDGrid", points=e10.arr([r[i]]), weights=e10.arr([w[i]]), size=1)
        rgrid = e10.Obj("rgrid", cls="OneDGrid", size=3, points=e10.arr(r), weights=e10.arr(w), __getitem__=getitem)

        def random(random_state=None, **kw):
            seed = int(random_state)
            M = e10._obj_array([[sp.Symbol(f"M{seed}_{a}{b}") for b in range(3)] for a in range(3)])
            return e10.Obj(f"rotation{seed}", as_matrix=lambda: M)
        ext = {"AngularGrid": e10.Cls("AngularGrid", angular), "R": e10.Obj("Rotation", random=random)}
        it = e10.Interp({}, ext)
        try:
            out = it.call_def(f.node, [rgrid, list(degs)], {"rotate": rotate, "method": "lebedev"}, {})
        except e10.Undecided as e:
            raise AnalysisError(f"AtomGrid._generate_atomic_grid is outside the fragment the symbolic array evaluator knows: {e}") from e
        except (IndexError, ValueError, TypeError, KeyError, AttributeError) as e:
            raise AnalysisError(f"AtomGrid._generate_atomic_grid: the evaluation over symbolic arrays failed ({type(e).__name__}: {e})") from e
        if not isinstance(out, (tuple, list)) or len(out) != 4:
            raise AnalysisError("AtomGrid._generate_atomic_grid does not return (points, weights, indices, degrees)")
        pts, wts, idx, used = out
        cfg = f"rotate = {rotate}"
        want_idx = [0, 2, 5, 7]
        if [int(x) for x in list(idx)] != want_idx:
            rep.violation("R8.radial-times-shell", "atomgrid.AtomGrid._generate_atomic_grid", "indices",
                          f"{cfg}: the shell index table is {[int(x) for x in list(idx)]} for shells of 2, 3 and 2 points", here)
            continue
        if [int(x) for x in list(used)] != degs:
            rep.violation("R8.radial-times-shell", "atomgrid.AtomGrid._generate_atomic_grid", "degrees",
                          f"{cfg}: the degrees reported as used are {list(used)}, the angular grids have {degs}", here)
        if getattr(pts, "shape", None) != (7, 3) or getattr(wts, "shape", None) != (7,):
            rep.violation("R8.radial-times-shell", "atomgrid.AtomGrid._generate_atomic_grid", "shape",
                          f"{cfg}: points {getattr(pts, 'shape', None)}, weights {getattr(wts, 'shape', None)} for 7 grid points", here)
            continue
        bad = False
        for i, d in enumerate(degs):
            for k in range(sizes[d]):
                row = want_idx[i] + k
                omega = [sp.Symbol(f"O{d}_{k}{c}") for c in range(3)]
                if rotate:
                    seed = rotate + i
                    omega = [sum(omega[a] * sp.Symbol(f"M{seed}_{a}{c}") for a in range(3)) for c in range(3)]
                n += 1
                if any(sp.expand(pts[row, c] - r[i] * omega[c]) != 0 for c in range(3)):
                    rep.violation("R8.radial-times-shell", "atomgrid.AtomGrid._generate_atomic_grid", "points",
                                  f"{cfg}: point {k} of shell {i} is `{[str(x)[:50] for x in pts[row]]}`; expected the radius r_{i} times "
                                  f"the angular point{' rotated with the matrix of seed rotate + shell index' if rotate else ''}", here)
                    bad = True
                    break
                if sp.expand(wts[row] - sp.Symbol(f"om{d}_{k}") * w[i] * r[i] ** 2) != 0:
                    rep.violation("R8.radial-times-shell", "atomgrid.AtomGrid._generate_atomic_grid", "weights",
                                  f"{cfg}: weight {k} of shell {i} is `{str(wts[row])[:80]}`; expected angular weight x radial weight x r^2", here)
                    bad = True
                    break
            if bad:
                break
        if not bad:
            rep.ok("R8.radial-times-shell", f"AtomGrid._generate_atomic_grid[{cfg}]", here, "points r_i Omega_k (rotated), weights omega_k w_i r_i^2")
    rep.floor("R8 grid points", n, 14)
