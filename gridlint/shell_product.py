"""C05, rule R8.radial-times-shell (E10).

AtomGrid._generate_atomic_grid is evaluated over a symbolic radial grid (3 shells) with angular grids
of 2, 3 and 2 symbolic points and a symbolic rotation matrix per seed.  The assembled arrays must be
the tensor structure the statement describes:

    point  (i, k) = r_i * (Omega_k^(i) @ M_(rotate + i))     (no rotation matrix for rotate = 0)
    weight (i, k) = omega_k^(i) * w_i * r_i^2
    indices       = running shell sizes, degrees actually used = those of the angular grids

so that a sum over the atomic grid factorises into sum_i w_i r_i^2 sum_k omega_k f(r_i Omega_k).
The centre is added on read (R3).  NOT decided: the numeric content of the angular grids.
"""
from __future__ import annotations

import ast

from gridlint.core import AnalysisError


def rule_shell_product(rep, repo):
    import sympy as sp
    from gridlint import e10
    f = repo.resolve_method("AtomGrid", "_generate_atomic_grid")
    if f is None:
        raise AnalysisError("anchor vanished: AtomGrid._generate_atomic_grid")
    here = f.loc()
    sizes = {3: 2, 5: 3, 7: 2}
    n = 0
    # shells of three different degrees, and two consecutive shells of the same degree (whatever is reused between
    # shells of equal degree must not carry the rotation of the previous shell)
    for degs, rotate in (([3, 5, 7], 0), ([3, 5, 7], 4), ([3, 3, 5], 4)):
        r = [sp.Symbol(f"r{i}", positive=True) for i in range(3)]
        w = [sp.Symbol(f"w{i}", positive=True) for i in range(3)]
        made = []

        def angular(degree=None, size=None, method="lebedev", **kw):
            d = int(degree)
            k = len(made)
            pts = e10._obj_array([[sp.Symbol(f"O{d}_{j}{c}") for c in range(3)] for j in range(sizes[d])])
            wts = e10.arr([sp.Symbol(f"om{d}_{j}") for j in range(sizes[d])])
            g = e10.Obj(f"angular{k}", cls="AngularGrid", points=pts, weights=wts, degree=d, size=sizes[d], method=method)
            made.append(g)
            return g

        def getitem(i):
            i = int(i)
            return e10.Obj(f"rgrid[{i}]", cls="OneDGrid", points=e10.arr([r[i]]), weights=e10.arr([w[i]]), size=1)
        rgrid = e10.Obj("rgrid", cls="OneDGrid", size=3, points=e10.arr(r), weights=e10.arr(w), __getitem__=getitem)

        def random(random_state=None, **kw):
            seed = int(random_state)
            M = e10._obj_array([[sp.Symbol(f"M{seed}_{a}{b}") for b in range(3)] for a in range(3)])
            return e10.Obj(f"rotation{seed}", as_matrix=lambda: M)
        klass = e10.Obj("AtomGrid-class", cls="AtomGrid")
        ext = {"AngularGrid": e10.Cls("AngularGrid", angular), "R": e10.Obj("Rotation", random=random), "AtomGrid": klass}
        it = e10.Interp({}, ext)
        klass.resolver = e10.class_resolver(repo, "AtomGrid", klass, it)      # static helpers reached through the class name
        try:
            out = it.call_def(f.node, [rgrid, list(degs)], {"rotate": rotate, "method": "lebedev"}, {})
        except e10.Undecided as e:
            raise AnalysisError(f"AtomGrid._generate_atomic_grid is outside the fragment the symbolic array evaluator knows: {e}") from e
        except (IndexError, ValueError, TypeError, KeyError, AttributeError) as e:
            raise AnalysisError(f"AtomGrid._generate_atomic_grid: the evaluation over symbolic arrays failed ({type(e).__name__}: {e})") from e
        if not isinstance(out, (tuple, list)) or len(out) != 4:
            raise AnalysisError("AtomGrid._generate_atomic_grid does not return (points, weights, indices, degrees)")
        pts, wts, idx, used = out
        cfg = f"degrees {degs}, rotate = {rotate}"
        want_idx = [0]
        for d_ in degs:
            want_idx.append(want_idx[-1] + sizes[d_])
        if [int(x) for x in list(idx)] != want_idx:
            rep.violation("R8.radial-times-shell", "atomgrid.AtomGrid._generate_atomic_grid", "indices",
                          f"{cfg}: the shell index table is {[int(x) for x in list(idx)]}, expected {want_idx}", here)
            continue
        if [int(x) for x in list(used)] != degs:
            rep.violation("R8.radial-times-shell", "atomgrid.AtomGrid._generate_atomic_grid", "degrees",
                          f"{cfg}: the degrees reported as used are {list(used)}, the angular grids have {degs}", here)
        if getattr(pts, "shape", None) != (want_idx[-1], 3) or getattr(wts, "shape", None) != (want_idx[-1],):
            rep.violation("R8.radial-times-shell", "atomgrid.AtomGrid._generate_atomic_grid", "shape",
                          f"{cfg}: points {getattr(pts, 'shape', None)}, weights {getattr(wts, 'shape', None)} for {want_idx[-1]} grid points", here)
            continue
        bad = False
        for i, d in enumerate(degs):
            for k in range(sizes[d]):
                row = want_idx[i] + k
                omega = [sp.Symbol(f"O{d}_{k}{c}") for c in range(3)]
                if rotate:
                    seed = rotate + i
                    omega = [sum(omega[a] * sp.Symbol(f"M{seed}_{a}{c}") for a in range(3)) for c in range(3)]
                n += 1
                if any(sp.expand(pts[row, c] - r[i] * omega[c]) != 0 for c in range(3)):
                    rep.violation("R8.radial-times-shell", "atomgrid.AtomGrid._generate_atomic_grid", "points",
                                  f"{cfg}: point {k} of shell {i} is `{[str(x)[:50] for x in pts[row]]}`; expected the radius r_{i} times "
                                  f"the angular point{' rotated with the matrix of seed rotate + shell index' if rotate else ''}", here)
                    bad = True
                    break
                if sp.expand(wts[row] - sp.Symbol(f"om{d}_{k}") * w[i] * r[i] ** 2) != 0:
                    rep.violation("R8.radial-times-shell", "atomgrid.AtomGrid._generate_atomic_grid", "weights",
                                  f"{cfg}: weight {k} of shell {i} is `{str(wts[row])[:80]}`; expected angular weight x radial weight x r^2", here)
                    bad = True
                    break
            if bad:
                break
        if not bad:
            rep.ok("R8.radial-times-shell", f"AtomGrid._generate_atomic_grid[{cfg}]", here, "points r_i Omega_k (rotated), weights omega_k w_i r_i^2")
    rep.floor("R8 grid points", n, 21)


def rule_shell_grid(rep, repo):
    """R9: get_shell_grid(i) is the same shell: r_i (Omega M_(rotate+i)), weights omega w_i (r_i^2 when r_sq)."""
    import sympy as sp
    from gridlint import e10
    f = repo.resolve_method("AtomGrid", "get_shell_grid")
    if f is None:
        raise AnalysisError("anchor vanished: AtomGrid.get_shell_grid")
    here = f.loc()
    sizes = {3: 2, 5: 3}
    degs = [3, 3, 5]
    n = 0
    for rotate in (0, 4):
        for index in (1, 2):
            for r_sq in (True, False):
                r = [sp.Symbol(f"r{i}", positive=True) for i in range(3)]
                w = [sp.Symbol(f"w{i}", positive=True) for i in range(3)]

                def angular(degree=None, size=None, method="lebedev", **kw):
                    d = int(degree)
                    pts = e10._obj_array([[sp.Symbol(f"O{d}_{j}{c}") for c in range(3)] for j in range(sizes[d])])
                    wts = e10.arr([sp.Symbol(f"om{d}_{j}") for j in range(sizes[d])])
                    return e10.Obj("angular", cls="AngularGrid", points=pts, weights=wts, degree=d, size=sizes[d], method=method)

                def getitem(i):
                    i = int(i)
                    return e10.Obj(f"rgrid[{i}]", cls="OneDGrid", points=e10.arr([r[i]]), weights=e10.arr([w[i]]), size=1)
                rgrid = e10.Obj("rgrid", cls="OneDGrid", size=3, points=e10.arr(r), weights=e10.arr(w), __getitem__=getitem)

                def random(random_state=None, **kw):
                    seed = int(random_state)
                    M = e10._obj_array([[sp.Symbol(f"M{seed}_{a}{b}") for b in range(3)] for a in range(3)])
                    return e10.Obj(f"rotation{seed}", as_matrix=lambda: M)
                obj = e10.Obj("atomgrid", cls="AtomGrid", degrees=list(degs), _degs=list(degs), method="lebedev", _method="lebedev",
                              rotate=rotate, _rot=rotate, rgrid=rgrid, _rgrid=rgrid)
                klass = e10.Obj("AtomGrid-class", cls="AtomGrid")
                it = e10.Interp({}, {"AngularGrid": e10.Cls("AngularGrid", angular), "R": e10.Obj("Rotation", random=random),
                                     "AtomGrid": klass})
                obj.resolver = e10.class_resolver(repo, "AtomGrid", obj, it)
                klass.resolver = e10.class_resolver(repo, "AtomGrid", klass, it)
                try:
                    g = it.call_def(f.node, [obj, index], {"r_sq": r_sq}, {})
                except e10.Undecided as e:
                    raise AnalysisError(f"AtomGrid.get_shell_grid is outside the fragment the symbolic array evaluator knows: {e}") from e
                except (IndexError, ValueError, TypeError, KeyError, AttributeError) as e:
                    raise AnalysisError(f"AtomGrid.get_shell_grid: the evaluation over symbolic arrays failed ({type(e).__name__}: {e})") from e
                cfg = f"shell {index} of degrees {degs}, rotate = {rotate}, r_sq = {r_sq}"
                pts = g.attrs.get("points") if isinstance(g, e10.Obj) else None
                wts = g.attrs.get("weights") if isinstance(g, e10.Obj) else None
                d = degs[index]
                n += 1
                good = getattr(pts, "shape", None) == (sizes[d], 3) and getattr(wts, "shape", None) == (sizes[d],)
                for k in range(sizes[d]) if good else ():
                    omega = [sp.Symbol(f"O{d}_{k}{c}") for c in range(3)]
                    if rotate:
                        omega = [sum(omega[a] * sp.Symbol(f"M{rotate + index}_{a}{c}") for a in range(3)) for c in range(3)]
                    good = good and all(sp.expand(pts[k, c] - r[index] * omega[c]) == 0 for c in range(3))
                    good = good and sp.expand(wts[k] - sp.Symbol(f"om{d}_{k}") * w[index] * (r[index] ** 2 if r_sq else 1)) == 0
                if good:
                    rep.ok("R9.shell-grid-evaluated", f"AtomGrid.get_shell_grid[{cfg}]", here, "the same shell as the stored one")
                else:
                    rep.violation("R9.shell-grid-evaluated", "atomgrid.AtomGrid.get_shell_grid", "shell",
                                  f"{cfg}: the returned grid is not radius x (rotated) angular points with weights angular x radial"
                                  f"{' x r^2' if r_sq else ''} of that shell (rotation seed rotate + shell index)", here)
                    return
    rep.floor("R9 configurations", n, 8)
