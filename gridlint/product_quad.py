"""C18, rule R5.integral-is-product-quadrature (E10).

MultiDomainGrid.integrate is evaluated over symbolic one-dimensional grids (points and weights are
symbols, the integrand is an uninterpreted function, each sub-grid's own `integrate` is its
quadrature sum -- the contract of Grid.integrate).  For every configuration

    grids (2, 3) | (3, 2) | (2, 1, 2) | (2, 3, 1) | one grid of 2 points repeated over 3 domains | a single domain of 3 points
    x  vectorised route | point-by-point route with chunk sizes 1, 2, 4, 5, 6000

the returned value must equal the full tensor-product quadrature
    sum_(i1..ik) w1_i1 ... wk_ik F(p1_i1, .., pk_ik)
as a polynomial identity in the weights and the values of F.  This decides "all evaluation routes
return the same number" up to re-association of the floating-point sum, for the listed sizes; the
sizes are concrete (a bounded sweep), everything else is symbolic.  Also: `size` equals the number
of terms, `points` / `weights` enumerate the same combinations.
"""
from __future__ import annotations

import ast
import itertools

from gridlint.core import AnalysisError


def rule_product_quadrature(rep, repo):
    import sympy as sp
    from gridlint import e10
    integ = repo.resolve_method("MultiDomainGrid", "integrate")
    if integ is None:
        raise AnalysisError("anchor vanished: MultiDomainGrid.integrate")
    here = integ.loc()
    mod_funcs = {g.name: g.node for g in repo.funcs.values()
                 if g.module == "ngrid" and g.cls is None and g.parent is None and isinstance(g.node, ast.FunctionDef)}
    params = [a.arg for a in integ.node.args.args]
    n = 0

    def make_grid(tag, size):
        pts = [sp.Symbol(f"{tag}p{i}") for i in range(size)]
        wts = [sp.Symbol(f"{tag}w{i}") for i in range(size)]

        def integrate(vals):
            vals = list(vals)
            if len(vals) != size:
                raise e10.Undecided(f"sub-grid of {size} points integrates {len(vals)} values")
            return sum(w * v for w, v in zip(wts, vals))
        return e10.Obj(f"grid{tag}", cls="Grid", points=e10.arr(pts), weights=e10.arr(wts), size=size, integrate=integrate), pts, wts

    def F(*args):
        # vectorised in the last argument
        last = args[-1]
        if hasattr(last, "shape") and getattr(last, "ndim", 0) == 1:
            return e10.arr([sp.Function("F")(*args[:-1], x) for x in last])
        return sp.Function("F")(*args)

    configs = [("two grids (2, 3)", [2, 3], None), ("two grids (3, 2), the larger one first", [3, 2], None),
               ("three grids (2, 1, 2)", [2, 1, 2], None), ("three grids (2, 3, 1), the last one smallest", [2, 3, 1], None),
               ("one grid of 2 points over 3 domains", [2], 3), ("a single domain of 3 points", [3], 1)]
    for label, sizes, ndom in configs:
        grids, P, W = [], [], []
        for k, sz in enumerate(sizes):
            g, p, w = make_grid("abc"[k], sz)
            grids.append(g)
            P.append(p)
            W.append(w)
        doms = ndom if ndom is not None else len(sizes)
        axes_p = P * doms if len(sizes) == 1 else P
        axes_w = W * doms if len(sizes) == 1 else W
        want = sp.Integer(0)
        for combo in itertools.product(*[range(len(a)) for a in axes_p]):
            want += sp.Mul(*[axes_w[d][i] for d, i in enumerate(combo)]) * sp.Function("F")(*[axes_p[d][i] for d, i in enumerate(combo)])
        nterms = 1
        for a in axes_p:
            nterms *= len(a)
        routes = [("vectorised", {"non_vectorized": False})] + \
                 [(f"point-by-point, chunk size {c}", {"non_vectorized": True, "integration_chunk_size": c}) for c in (1, 2, 4, 5, 6000)]
        for rname, kw in routes:
            obj = e10.Obj("mdgrid", cls="MultiDomainGrid")
            klass = e10.Obj("MultiDomainGrid-class", cls="type")
            it = e10.Interp(mod_funcs, {"Grid": e10.Cls("Grid"), "MultiDomainGrid": klass})
            klass.resolver = e10.class_resolver(repo, "MultiDomainGrid", klass, it)      # static helpers through the class name

            obj.resolver = e10.class_resolver(repo, "MultiDomainGrid", obj, it)
            what = f"MultiDomainGrid.integrate[{label}; {rname}]"
            try:
                init = repo.resolve_method("MultiDomainGrid", "__init__")
                if init is None:
                    raise AnalysisError("anchor vanished: MultiDomainGrid.__init__")
                it.call_def(init.node, [obj, list(grids), ndom if (len(sizes) == 1 and ndom != 1) else None], {}, {})
                out = it.call_def(integ.node, [obj, F], kw, {})
            except e10.Undecided as e:
                raise AnalysisError(f"{what} is outside the fragment the symbolic array evaluator knows: {e}") from e
            except (IndexError, ValueError, TypeError, KeyError, AttributeError) as e:
                raise AnalysisError(f"{what}: the evaluation over symbolic arrays failed ({type(e).__name__}: {e})") from e
            n += 1
            if rname == "vectorised":
                # the reported size is the number of terms of that sum
                try:
                    found, sz = obj.resolver("size")
                    sz = int(sz) if found else None
                except (e10.Undecided, TypeError, ValueError) as e:
                    raise AnalysisError(f"MultiDomainGrid.size is outside the fragment the symbolic array evaluator knows: {e}") from e
                if sz != nterms:
                    rep.violation("R5.integral-is-product-quadrature", "ngrid.MultiDomainGrid.size", "size",
                                  f"{label}: size is {sz}, the grid has {nterms} combinations of points", here)
            if hasattr(out, "shape"):
                out = out[()] if out.shape == () else out
            diff = sp.expand(out - want) if isinstance(out, sp.Basic) or isinstance(out, (int, float)) else None
            if diff is None or diff != 0:
                missing = "" if diff is None else f"; difference: `{str(diff)[:160]}`"
                rep.violation("R5.integral-is-product-quadrature", "ngrid.MultiDomainGrid.integrate", rname.split(",")[0],
                              f"{label}, {rname}: the returned value is not the tensor-product quadrature of the {nterms} "
                              f"combinations of points and weights{missing}", here)
            else:
                rep.ok("R5.integral-is-product-quadrature", f"MultiDomainGrid.integrate[{label}; {rname}]", here, f"{nterms} terms")
    rep.floor("R5 route configurations", n, 36)
