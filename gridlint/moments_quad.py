"""C14, rules R7 / R8 -- every returned moment is the quadrature of its defining integrand.

Grid.moments and dipole_moment_of_molecule are evaluated over symbolic arrays (E10): the points, the
weights, the function values and the centres are symbols, the order generator is the real function
(interpreted), solid_harmonics and convert_cart_to_sph are recording stubs.  For every moment type,
dimension 1-3 (Cartesian) / 3 (others), two centres and orders 0..2 (pure-radial 1..3):

R7 entries-are-quadratures: entry (row, centre) = sum_n w_n f_n B_row(p_n - c), where B_row is the basis
   function that the *returned order list* names for that row: the Cartesian monomial
   prod_d (p - c)_d^(o_d), |p - c|^n, the solid harmonic of (l, m) -- row l^2 + (2m - 1 | 2|m|) of
   solid_harmonics evaluated at the points relative to *that* centre -- or |p - c|^n times it.
R8 dipole-assembly: the helper takes the electronic first moments about the centre of mass
   sum_a M_a R_a / sum_a M_a (masses looked up by the nuclear charge) and returns
   sum_a Z_a (R_a - c) - (first moments), in x, y, z order.

Bounded in the order (0..2 / 1..3): the order enters as a concrete integer.  NOT decided: the values
of the solid harmonics themselves (C08), accuracy of the quadrature.
"""
from __future__ import annotations

import ast

from gridlint.core import AnalysisError


def _sp():
    import sympy as sp
    return sp


def _row_of(l, m):
    return l * l + (0 if m == 0 else 2 * m - 1 if m > 0 else 2 * (-m))


def _setup(repo):
    from gridlint import e10
    mom = repo.resolve_method("Grid", "moments")
    if mom is None:
        raise AnalysisError("anchor vanished: Grid.moments")
    utils = {g.name: g for g in repo.funcs.values()
             if g.module == "utils" and g.cls is None and g.parent is None and isinstance(g.node, ast.FunctionDef)}
    for need in ("generate_orders_horton_order", "dipole_moment_of_molecule"):
        if need not in utils:
            raise AnalysisError(f"anchor vanished: utils.{need}")
    return e10, mom, utils


def _guard(what, e10, fn, *a, **kw):
    try:
        return fn(*a, **kw)
    except e10.Undecided as e:
        raise AnalysisError(f"{what} is outside the fragment the symbolic array evaluator knows: {e}") from e
    except (IndexError, ValueError, TypeError, KeyError, AttributeError) as e:
        raise AnalysisError(f"{what}: the evaluation over symbolic arrays failed ({type(e).__name__}: {e})") from e


SWEEP = {"cartesian": ((1, 2, 3), 2), "radial": ((3,), 2), "pure": ((3,), 2), "pure-radial": ((3,), 3)}


def rule_quadratures(rep, repo, gen_keys=None):
    sp = _sp()
    e10, mom, utils = _setup(repo)
    here = mom.loc()
    N, C = 2, 2
    n_checked = 0
    keys = sorted(gen_keys) if gen_keys else sorted(SWEEP)
    unknown = [k for k in keys if k not in SWEEP]
    if unknown:
        raise AnalysisError(f"the order generator accepts the moment type(s) {unknown} for which the checker has no reference basis function")
    stored = {n_.id for n_ in ast.walk(mom.node) if isinstance(n_, ast.Name) and isinstance(n_.ctx, ast.Store)}
    for type_mom in keys:
        dims, order = SWEEP[type_mom]
        for D in dims:
            P = e10._obj_array([[sp.Symbol(f"p{n}{d}", real=True) for d in range(D)] for n in range(N)])
            W = e10.arr([sp.Symbol(f"w{n}") for n in range(N)])
            F = e10.arr([sp.Symbol(f"f{n}") for n in range(N)])
            CEN = e10._obj_array([[sp.Symbol(f"c{c}{d}", real=True) for d in range(D)] for c in range(C)])
            grid = e10.Obj("grid", cls="Grid", points=P, weights=W, size=N)
            # the two helpers are point-wise uninterpreted functions: whatever batching the code uses, entry k of
            # the result depends on point k only
            def cart_to_sph(points, center=None):
                pts = points if center is None else points - center
                out = e10._obj_array([[sp.Function(nm)(*list(pts[k])) for nm in ("SR", "ST", "SP")] for k in range(pts.shape[0])])
                return out

            def solid(l_max, sph_pts):
                return e10._obj_array([[sp.Function(f"H{i}")(*list(sph_pts[k])) for k in range(sph_pts.shape[0])]
                                       for i in range((int(l_max) + 1) ** 2)])
            ext = {"convert_cart_to_sph": cart_to_sph, "solid_harmonics": solid}
            nodes = {k: v.node for k, v in utils.items() if k not in ext}
            it = e10.Interp(nodes, ext)
            grid.resolver = e10.class_resolver(repo, "Grid", grid, it)
            what = f"Grid.moments[{type_mom}, dim {D}]"
            try:
                ret = it.call_def(mom.node, [grid, order, CEN, F], {"type_mom": type_mom, "return_orders": True}, {})
            except e10.Unbound as e:
                if e.name in stored:
                    # the name is assigned on other paths of Grid.moments but not on the path of this moment type
                    rep.violation("R3.moment-type-computed", "basegrid.Grid.moments", type_mom,
                                  f"type_mom={type_mom!r} is accepted by the order generator but Grid.moments does not compute "
                                  f"`{e.name}` on the path taken for it (dimension {D})", here)
                    continue
                raise AnalysisError(f"{what} is outside the fragment the symbolic array evaluator knows: {e}") from e
            except e10.Undecided as e:
                raise AnalysisError(f"{what} is outside the fragment the symbolic array evaluator knows: {e}") from e
            except (IndexError, ValueError, TypeError, KeyError, AttributeError) as e:
                raise AnalysisError(f"{what}: the evaluation over symbolic arrays failed ({type(e).__name__}: {e})") from e
            if not isinstance(ret, (tuple, list)) or len(ret) != 2:
                raise AnalysisError(f"{what}: return_orders=True does not return (moments, orders)")
            M, orders = ret
            rows = getattr(orders, "shape", (0,))[0]
            if not hasattr(M, "shape") or M.shape != (rows, C) or rows == 0:
                rep.violation("R7.entries-are-quadratures", "basegrid.Grid.moments", f"shape[{type_mom}]",
                              f"{type_mom}, dimension {D}: the moments have shape {getattr(M, 'shape', None)} for {rows} rows of orders "
                              f"and {C} centres", here)
                continue
            def H(row, rel_n):
                sph = [sp.Function(nm)(*rel_n) for nm in ("SR", "ST", "SP")]
                return sp.Function(f"H{row}")(*sph)
            bad = False
            for i in range(rows):
                o = [int(x) for x in (orders[i] if getattr(orders, "ndim", 1) > 1 else [orders[i]])]
                for c in range(C):
                    rel = [[P[n, d] - CEN[c, d] for d in range(D)] for n in range(N)]
                    dist = [sp.sqrt(sum(x ** 2 for x in rel[n])) for n in range(N)]
                    if type_mom == "cartesian":
                        basis = [sp.Mul(*[rel[n][d] ** o[d] for d in range(D)]) for n in range(N)]
                        name = f"the monomial with exponents {o}"
                    elif type_mom == "radial":
                        basis = [dist[n] ** o[0] for n in range(N)]
                        name = f"|p - c|^{o[0]}"
                    elif type_mom == "pure":
                        l, m = o
                        basis = [H(_row_of(l, m), rel[n]) for n in range(N)]
                        name = f"the solid harmonic (l, m) = ({l}, {m}) about centre {c} (row {_row_of(l, m)})"
                    else:
                        npr, l, m = o
                        basis = [dist[n] ** npr * H(_row_of(l, m), rel[n]) for n in range(N)]
                        name = f"|p - c|^{npr} times the solid harmonic ({l}, {m}) about centre {c}"
                    want = sum(W[n] * F[n] * basis[n] for n in range(N))
                    n_checked += 1
                    if sp.simplify(sp.expand(M[i, c] - want)) != 0:
                        rep.violation("R7.entries-are-quadratures", "basegrid.Grid.moments", type_mom,
                                      f"{type_mom}, dimension {D}, row {i} (order {o}), centre {c}: the entry is "
                                      f"`{str(M[i, c])[:160]}`; expected the quadrature sum_n w_n f_n B(p_n - c) with B = {name}", here)
                        bad = True
                        break
                if bad:
                    break
            if not bad:
                rep.ok("R7.entries-are-quadratures", f"Grid.moments[{type_mom}, dim {D}]", here, f"{rows} rows x {C} centres")
                rep.ok("R3.moment-type-computed", f"Grid.moments[{type_mom}, dim {D}]", here, "accepted by the generator and computed")
    rep.floor("R7 entries", n_checked, 60)


def rule_dipole(rep, repo):
    sp = _sp()
    e10, mom, utils = _setup(repo)
    f = utils["dipole_moment_of_molecule"]
    here = f.loc()
    A = 2
    Z = [1, 8]
    tree = repo.modules["utils"].tree if hasattr(repo, "modules") else None
    globs = {}
    for st in (tree.body if tree is not None else []):
        if isinstance(st, ast.Assign) and len(st.targets) == 1 and isinstance(st.targets[0], ast.Name):
            globs[st.targets[0].id] = st.value
        elif isinstance(st, ast.AnnAssign) and isinstance(st.target, ast.Name) and st.value is not None:
            globs[st.target.id] = st.value
    if "isotopic_masses" not in globs:
        raise AnalysisError("anchor vanished: utils.isotopic_masses")
    try:
        table = ast.literal_eval(globs["isotopic_masses"])
    except (ValueError, SyntaxError) as e:
        raise AnalysisError("utils.isotopic_masses is not a literal table") from e
    Mass = {z: sp.nsimplify(table[z]) for z in Z}
    R = e10._obj_array([[sp.Symbol(f"R{a}{d}", real=True) for d in range(3)] for a in range(A)])
    rec = {}

    def moments(orders, centers, func_vals, type_mom="cartesian", return_orders=False):
        rec.update(orders=orders, centers=centers, vals=func_vals, type_mom=type_mom, return_orders=return_orders)
        ints = e10._obj_array([[sp.Symbol(f"E{i}")] for i in range(4)])
        ords = e10._obj_array([[0, 0, 0], [1, 0, 0], [0, 1, 0], [0, 0, 1]])
        return (ints, ords) if return_orders else ints
    grid = e10.Obj("grid", cls="Grid", moments=moments)
    dens = e10.arr([sp.Symbol("rho0"), sp.Symbol("rho1")])
    nodes = {k: v.node for k, v in utils.items()}
    it = e10.Interp(nodes, {}, module_globals=globs)
    ps = [a.arg for a in f.node.args.args]
    out = _guard("utils.dipole_moment_of_molecule", e10, it.call_def, f.node, [grid, dens, R, e10.arr(Z)], {}, {})
    if not rec:
        raise AnalysisError("dipole_moment_of_molecule does not call grid.moments")
    mtot = sum(Mass[z] for z in Z)
    com = [sum(Mass[Z[a]] * R[a, d] for a in range(A)) / mtot for d in range(3)]
    cen = rec["centers"]
    ok = True
    if not hasattr(cen, "shape") or cen.shape != (1, 3) or any(sp.simplify(cen[0, d] - com[d]) != 0 for d in range(3)):
        rep.violation("R8.dipole-assembly", "utils.dipole_moment_of_molecule", "centre-of-mass",
                      f"the first moments are taken about `{[str(x)[:60] for x in (list(cen.flatten()) if hasattr(cen, 'flatten') else [cen])]}`; "
                      f"expected the centre of mass sum_a M_a R_a / sum_a M_a with the masses looked up by the nuclear charges", here)
        ok = False
    if rec["orders"] != 1 or rec["type_mom"] != "cartesian" or list(rec["vals"]) != list(dens):
        rep.violation("R8.dipole-assembly", "utils.dipole_moment_of_molecule", "electronic-moments",
                      "the electronic part must be the Cartesian moments up to order 1 of the density handed in", here)
        ok = False
    want = [sum(Z[a] * (R[a, d] - com[d]) for a in range(A)) - sp.Symbol(f"E{d + 1}") for d in range(3)]
    if not hasattr(out, "shape") or out.shape != (3,) or any(sp.simplify(out[d] - want[d]) != 0 for d in range(3)):
        rep.violation("R8.dipole-assembly", "utils.dipole_moment_of_molecule", "nuclear-minus-electronic",
                      f"the result is {[str(sp.simplify(x))[:80] for x in (list(out) if hasattr(out, '__len__') else [out])]}; expected, per Cartesian "
                      f"direction, sum_a Z_a (R_a - c) minus the electronic first moment", here)
        ok = False
    if ok:
        rep.ok("R8.dipole-assembly", "dipole_moment_of_molecule", here, "nuclear minus electronic first moments about the centre of mass")


def _horton_reference(order, type_ord, dim):
    """The documented Horton order, written independently of the code."""
    if type_ord == "cartesian":
        if dim == 1:
            return [[order]]
        if dim == 2:
            return [[mx, order - mx] for mx in range(order, -1, -1)]
        return [[mx, my, order - mx - my] for mx in range(order, -1, -1) for my in range(order - mx, -1, -1)]
    if type_ord == "radial":
        return [order]
    if type_ord == "pure":
        out = [[order, 0]]
        for m in range(1, order + 1):
            out += [[order, m], [order, -m]]
        return out
    out = []
    for l in range(order):
        out.append([order, l, 0])
        for m in range(1, l + 1):
            out += [[order, l, m], [order, l, -m]]
    return out


def rule_orders_bounded(rep, repo):
    """Bounded back-up of R2 / R6: the order generator evaluated for the orders 0..4 (every type, every dimension)
    returns exactly the documented rows in the documented order."""
    e10, mom, utils = _setup(repo)
    f = utils["generate_orders_horton_order"]
    here = f.loc()
    nodes = {k: v.node for k, v in utils.items()}
    n = 0
    for type_ord, dims in (("cartesian", (1, 2, 3)), ("radial", (3,)), ("pure", (3,)), ("pure-radial", (3,))):
        for dim in dims:
            for order in range(0, 5):
                if type_ord == "pure-radial" and order == 0:
                    continue
                it = e10.Interp(nodes, {}, module_globals={k: v for k, v in e10.module_globals_of(repo.modules["utils"].tree).items()
                                                           if not isinstance(v, ast.ClassDef)})
                out = _guard(f"utils.generate_orders_horton_order({order}, {type_ord!r}, {dim})", e10, it.call_def, f.node,
                             [order, type_ord, dim], {}, {})
                got = out.tolist() if hasattr(out, "tolist") else list(out)
                got = [[int(x) for x in r] if isinstance(r, (list, tuple)) else int(r) for r in got]
                want = _horton_reference(order, type_ord, dim)
                n += 1
                if got != want:
                    rep.violation("R6.horton-order", "utils.generate_orders_horton_order", f"{type_ord}:bounded",
                                  f"generate_orders_horton_order({order}, {type_ord!r}, dim={dim}) returns the rows {got}; the documented "
                                  f"Horton order is {want}", here)
                    break
            else:
                continue
            break
    rep.floor("orders evaluated (bounded)", n, 20)
    return n
