"""gridlint -- repository-specific static analyses for theochem/grid (see /verif/DESIGN.md)."""
