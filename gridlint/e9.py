"""E9 -- index-space inference (a small dimension-type system for axis 0).

Every sequence value of a function gets the *index space* of its first axis:

    Seq(S)        a list/array whose positions 0..n-1 enumerate the space S
    Idx(S, K)     an array of integers that are positions *of S*, itself enumerated by the space K
                  (np.where(mask_over_S)[0], np.argsort(a_over_S), np.flatnonzero(...))
    Pos(S)        an integer that is a position of S (loop counters, elements of an Idx)

Spaces are symbols: ("p", name) for a sequence parameter, ("sub", line, col) for a subset / permuted
view created at a site.  Length-preserving operations keep the space (comprehension over A,
np.array(A), A.copy(), element-wise NumPy functions, arithmetic, comparisons, np.zeros(len(A)),
np.zeros_like(A)); selecting with an index array or a mask creates a *new* space.

The rule: subscripting a Seq(S1) with a Pos(S2) or an Idx(S2, .) whose space is known and different
(S1 != S2) addresses the wrong element -- e.g. enumerating a selected subset and writing at the
enumeration counter into the full-length array.  Only pairs of *known* spaces are reported; anything
the inference cannot type is left alone (no alarm).
"""
from __future__ import annotations

import ast

from gridlint.core import norm

ELEMENTWISE = {"np.isnan", "np.isfinite", "np.isinf", "np.abs", "np.sqrt", "np.exp", "np.log", "np.array", "np.asarray",
               "np.copy", "np.nan_to_num", "np.sign", "np.square", "np.negative", "np.logical_not", "np.float64",
               "np.atleast_1d", "list", "tuple", "np.ravel", "np.real", "np.ascontiguousarray"}
INDEX_MAKERS = {"np.where", "np.nonzero", "np.flatnonzero", "np.argwhere"}
PERMUTERS = {"np.argsort"}
SAME_LEN_ALLOC = {"np.zeros", "np.ones", "np.empty", "np.full"}
LIKE_ALLOC = {"np.zeros_like", "np.ones_like", "np.empty_like", "np.full_like"}


def _seq(space):
    return ("Seq", space)


def _idx(space, own):
    return ("Idx", space, own)


def _pos(space):
    return ("Pos", space)


class IndexSpaces:
    def __init__(self, fn_node, params, module):
        self.fn = fn_node
        self.params = set(params)
        self.module = module
        self.env = {}
        self.findings = []     # (node, text, space of the sequence, space of the index)
        self.typed = 0

    # -- helpers
    def site(self, n):
        return ("sub", getattr(n, "lineno", 0), getattr(n, "col_offset", 0))

    def space_of(self, v):
        """The space that enumerates the positions of a sequence value (Seq or Idx)."""
        if v is None or v == ("Empty",):
            return None
        if v[0] == "Seq":
            return v[1]
        if v[0] == "Idx":
            return v[2]
        return None

    def lookup(self, name):
        if name in self.env:
            return self.env[name]
        if name in self.params:
            return _seq(("p", name))   # a parameter used as a sequence enumerates its own space
        return None

    @staticmethod
    def show_space(s):
        if s is None:
            return "?"
        if s[0] == "p":
            return f"the positions of `{s[1]}`"
        return f"the subset/reordering created at line {s[1]}"

    # -- expressions
    def ev(self, e):
        if isinstance(e, ast.Name):
            v = self.lookup(e.id)
            return None if v in (("Empty",),) or (v is not None and v[0] == "Len") else v
        if isinstance(e, ast.Attribute):
            # x.T / x.real keep nothing we know; `self.field` unknown
            return None
        if isinstance(e, (ast.ListComp, ast.GeneratorExp)) and len(e.generators) == 1:
            g = e.generators[0]
            saved = dict(self.env)
            self.bind_loop(g.target, g.iter)
            self.visit_exprs(e.elt)          # subscripts inside the element see the bound loop names
            self.env = saved
            it = self.ev_iter(g.iter.args[0]) if isinstance(g.iter, ast.Call) and norm(g.iter.func) == "enumerate" \
                and g.iter.args else self.ev_iter(g.iter)
            if it is not None and it[0] is not None and not g.ifs:
                return _seq(it[0])
            return None
        if isinstance(e, ast.BinOp):
            a, b = self.ev(e.left), self.ev(e.right)
            for v in (a, b):
                if v is not None and v[0] == "Seq":
                    return v
            return None
        if isinstance(e, ast.UnaryOp):
            v = self.ev(e.operand)
            return v if v is not None and v[0] == "Seq" else None
        if isinstance(e, ast.Compare) and len(e.ops) == 1:
            a, b = self.ev(e.left), self.ev(e.comparators[0])
            for v in (a, b):
                if v is not None and v[0] in ("Seq", "Idx"):
                    return _seq(self.space_of(v))
            return None
        if isinstance(e, ast.Subscript):
            return self.ev_subscript(e)
        if isinstance(e, ast.Call):
            return self.ev_call(e)
        return None

    def ev_call(self, e):
        fn = norm(e.func)
        args = e.args
        if fn in ELEMENTWISE and args:
            return self.ev(args[0])
        if isinstance(e.func, ast.Attribute) and e.func.attr in ("copy", "astype", "ravel", "flatten", "tolist") and \
                not fn.startswith("np."):
            return self.ev(e.func.value)
        if fn in LIKE_ALLOC and args:
            v = self.ev(args[0])
            return _seq(self.space_of(v)) if v is not None and self.space_of(v) is not None else None
        if fn in SAME_LEN_ALLOC and args:
            s = self.len_space(args[0])
            return _seq(s) if s is not None else None
        if fn in INDEX_MAKERS and args:
            m = self.ev(args[0])
            if m is not None and self.space_of(m) is not None:
                # np.where(mask) is a tuple of index arrays; [0] is taken in ev_subscript
                return ("IdxTuple", self.space_of(m), self.site(e)) if fn != "np.flatnonzero" else \
                    _idx(self.space_of(m), self.site(e))
            return None
        if fn in PERMUTERS and args:
            m = self.ev(args[0])
            if m is not None and self.space_of(m) is not None:
                return _idx(self.space_of(m), self.site(e))
            return None
        return None

    def len_space(self, e):
        """Space S when the expression is len(X) / X.size / X.shape[0] / len(X) spelled through a local."""
        if isinstance(e, ast.Call) and norm(e.func) == "len" and e.args:
            return self.space_of(self.ev(e.args[0]))
        if isinstance(e, ast.Attribute) and e.attr == "size":
            return self.space_of(self.ev(e.value))
        if isinstance(e, ast.Subscript) and isinstance(e.value, ast.Attribute) and e.value.attr == "shape" and \
                norm(e.slice) == "0":
            return self.space_of(self.ev(e.value.value))
        if isinstance(e, ast.Name):
            v = self.env.get(e.id)
            if v is not None and v[0] == "Len":
                return v[1]
        return None

    def ev_subscript(self, e):
        base = self.ev(e.value)
        sl = e.slice
        if base is not None and base[0] == "IdxTuple":
            if isinstance(sl, ast.Constant) and sl.value == 0:
                return _idx(base[1], base[2])
            return None
        # what is the index?
        if isinstance(sl, ast.Slice):
            if sl.lower is None and sl.step is None and base is not None and base[0] in ("Seq",):
                return base    # a prefix keeps the positions of its source
            return None
        if isinstance(sl, ast.Tuple):
            sl0 = sl.elts[0] if sl.elts else None
            if sl0 is None or isinstance(sl0, ast.Slice):
                return None
            ix = self.ev(sl0)
        else:
            ix = self.ev(sl)
        if ix is None:
            return None
        bs = self.space_of(base) if base is not None else None
        if ix[0] == "Pos":
            self.check(e, bs, ix[1], "position")
            return None
        if ix[0] == "Idx":
            self.check(e, bs, ix[1], "index array")
            return _seq(ix[2])
        if ix[0] == "Seq":
            # boolean mask over the same space: a new subset
            return _seq(self.site(e))
        return None

    def check(self, node, seq_space, idx_space, what):
        self.typed += 1
        if seq_space is None or idx_space is None or seq_space == idx_space:
            return
        if seq_space[0] == "p" and idx_space[0] == "p":
            return   # two parameters may well be parallel sequences (same length by contract)
        if not any(f_[0] is node for f_ in self.findings):
            self.findings.append((node, what, seq_space, idx_space))

    # -- iteration
    def ev_iter(self, it):
        """(space of the positions, value type of the element) of an iterable, or None."""
        if isinstance(it, ast.Call) and norm(it.func) == "range" and len(it.args) == 1:
            s = self.len_space(it.args[0])
            return (s, _pos(s)) if s is not None else None
        v = self.ev(it)
        if v is None:
            return None
        if v[0] == "Seq":
            return (v[1], None)
        if v[0] == "Idx":
            return (v[2], _pos(v[1]))     # the *elements* of an index array are positions of its target space
        return None

    def bind_loop(self, target, it):
        if isinstance(it, ast.Call) and norm(it.func) == "enumerate" and it.args and isinstance(target, ast.Tuple) \
                and len(target.elts) == 2 and isinstance(it.args[0], ast.Call) and norm(it.args[0].func) == "zip":
            # enumerate(zip(A, B, ...)): the counter is a position of the (parallel) sequences
            spaces = [self.ev_iter(a_) for a_ in it.args[0].args]
            sp_ = next((r_[0] for r_ in spaces if r_ is not None and r_[0] is not None), None)
            if isinstance(target.elts[0], ast.Name):
                if sp_ is not None:
                    self.env[target.elts[0].id] = _pos(sp_)
                else:
                    self.env.pop(target.elts[0].id, None)
            self.bind_loop(target.elts[1], it.args[0])
            return
        if isinstance(it, ast.Call) and norm(it.func) == "enumerate" and it.args and isinstance(target, ast.Tuple) \
                and len(target.elts) == 2:
            r = self.ev_iter(it.args[0])
            if r is not None and isinstance(target.elts[0], ast.Name):
                self.env[target.elts[0].id] = _pos(r[0])
                if isinstance(target.elts[1], ast.Name):
                    if r[1] is not None:
                        self.env[target.elts[1].id] = r[1]
                    else:
                        self.env.pop(target.elts[1].id, None)
                return
        if isinstance(it, ast.Call) and norm(it.func) == "zip" and isinstance(target, ast.Tuple) and \
                len(target.elts) == len(it.args):
            for t, a in zip(target.elts, it.args):
                self.bind_loop(t, a)
            return
        r = self.ev_iter(it)
        for n in ast.walk(target):
            if isinstance(n, ast.Name):
                self.env.pop(n.id, None)
        if r is not None and isinstance(target, ast.Name) and r[1] is not None:
            self.env[target.id] = r[1]

    # -- statements
    def run(self, body):
        for s in body:
            self.stmt(s)

    def visit_exprs(self, node):
        """Type-check every subscript of an expression (comprehensions bind their own names in ev)."""
        stack = [node]
        while stack:
            n = stack.pop()
            if isinstance(n, (ast.ListComp, ast.GeneratorExp, ast.SetComp)):
                self.ev(n)
                continue
            if isinstance(n, ast.Subscript):
                self.ev_subscript(n)
            stack.extend(ast.iter_child_nodes(n))

    def stmt(self, s):
        if isinstance(s, ast.Assign):
            self.visit_exprs(s.value)
            v = self.ev(s.value)
            for t in s.targets:
                if isinstance(t, ast.Name) and isinstance(s.value, ast.List) and not s.value.elts:
                    self.env[t.id] = ("Empty",)
                elif isinstance(t, ast.Name):
                    ls = self.len_space(s.value)
                    if ls is not None and not isinstance(s.value, ast.Name):
                        self.env[t.id] = ("Len", ls)
                    elif v is not None:
                        self.env[t.id] = v
                    else:
                        self.env.pop(t.id, None)
                elif isinstance(t, ast.Subscript):
                    self.ev_subscript(t)
                elif isinstance(t, (ast.Tuple, ast.List)):
                    for x in ast.walk(t):
                        if isinstance(x, ast.Name):
                            self.env.pop(x.id, None)
        elif isinstance(s, ast.AugAssign):
            self.visit_exprs(s.value)
            if isinstance(s.target, ast.Subscript):
                self.ev_subscript(s.target)
        elif isinstance(s, ast.For):
            self.visit_exprs(s.iter)
            self.bind_loop(s.target, s.iter)
            self.run(s.body)
            self.run(s.orelse)
            # a list that starts empty and is appended to exactly once per iteration is enumerated by
            # the positions of the loop
            it = s.iter.args[0] if isinstance(s.iter, ast.Call) and norm(s.iter.func) == "enumerate" and s.iter.args else s.iter
            r = self.ev_iter(it)
            if r is not None and r[0] is not None:
                for b in s.body:
                    if isinstance(b, ast.Expr) and isinstance(b.value, ast.Call) and isinstance(b.value.func, ast.Attribute) \
                            and b.value.func.attr == "append" and isinstance(b.value.func.value, ast.Name):
                        nm = b.value.func.value.id
                        n_app = sum(1 for x in ast.walk(s) if isinstance(x, ast.Call) and isinstance(x.func, ast.Attribute)
                                    and x.func.attr in ("append", "extend", "insert") and norm(x.func.value) == nm)
                        if self.env.get(nm) == ("Empty",) and n_app == 1:
                            self.env[nm] = _seq(r[0])
        elif isinstance(s, (ast.If, ast.While)):
            self.visit_exprs(s.test)
            self.run(s.body)
            self.run(s.orelse)
        elif isinstance(s, ast.With):
            self.run(s.body)
        elif isinstance(s, ast.Try):
            self.run(s.body)
            for h in s.handlers:
                self.run(h.body)
            self.run(s.orelse)
            self.run(s.finalbody)
        elif isinstance(s, (ast.Expr, ast.Return)):
            if s.value is not None:
                self.visit_exprs(s.value)
        # nested function definitions have their own scope: skipped


def rule_index_spaces(rep, repo, modules, rule, floor=0):
    """Report every subscript whose sequence and index live in different known index spaces, in the
    functions of ``modules``.  The floor guards against the inference silently typing nothing."""
    from gridlint.core import strip_docstring
    typed = 0
    bad = 0
    for q, f in sorted(repo.funcs.items()):
        if f.module not in modules or f.is_lambda or repo.by_node.get(id(f.node)) is not f:
            continue
        a = IndexSpaces(f.node, f.allparams, f.module)
        a.run(strip_docstring(f.node.body))
        typed += a.typed
        for node, what, s1, s2 in a.findings:
            bad += 1
            rep.violation(rule, q, norm(node)[:50],
                          f"`{norm(node)[:60]}` indexes a sequence enumerated by {a.show_space(s1)} with a {what} of "
                          f"{a.show_space(s2)}: the element addressed belongs to another entry (e.g. the counter of an "
                          f"enumerated selection used on the full-length array, or a permutation applied twice)",
                          repo.rel(f.module, node))
        if a.typed and not a.findings:
            rep.ok(rule, q, f.loc(), f"{a.typed} subscript(s) with a typed index, all in the index space of their sequence")
    rep.floor(f"subscripts with an inferred index space ({', '.join(sorted(modules))})", typed, floor)
    return typed
