"""Self-test of the checkers, both directions, on scratch copies of the package.

Every variant is a small edit of a scratch copy of ``<root>/src/grid`` (created under $TMPDIR,
outside /repo and /verif, removed as soon as the variant is judged).  ``fire`` variants break a
property and must be reported with a violation whose key contains the expected fragment;
``silent`` variants preserve it and must not raise any alarm.  A variant whose anchor text is not
present in the current tree is *skipped* (the tree may have been refactored); the self-test fails
only when an applied variant is judged wrongly or when too few variants could be applied.
"""
from __future__ import annotations

import concurrent.futures
import json
import os
import shutil
import sys
import tempfile
import time
import traceback

from gridlint.corpus import VARIANTS as _CORPUS


def _seeded_variants():
    """Kept seeded changes (written by independent agents, /verif/seeded/<id>/) are replayed as
    regression variants: those recorded as detected must stay detected by the recorded property."""
    from gridlint.core import VERIF_DIR
    out = []
    sd = os.path.join(VERIF_DIR, "seeded")
    if not os.path.isdir(sd):
        return out
    for sid in sorted(os.listdir(sd)):
        mp = os.path.join(sd, sid, "meta.json")
        pp = os.path.join(sd, sid, "patch.diff")
        if not (os.path.isfile(mp) and os.path.isfile(pp)):
            continue
        try:
            meta = json.load(open(mp))
        except ValueError:
            continue
        for prop, d in (meta.get("detected_now_by") or {}).items():
            if d.get("exit") != 1:
                continue
            frag = ""
            for ln in d.get("report", []):
                if "rule=" in ln:
                    frag = ln.split("rule=")[1].split()[0]
                    break
            out.append({"prop": prop, "name": f"seeded change {sid}", "kind": "fire", "expect": frag,
                        "edits": [("patch", pp)]})
    return out


def _refactor_variants():
    """Behaviour-preserving refactorings written by independent agents (/verif/refactors/<id>/:
    patch.diff + note.txt; each passes the full suite and was compared bit-for-bit with the original
    by its author).  Every check must stay silent on every one of them."""
    from gridlint.core import VERIF_DIR
    out = []
    rd = os.path.join(VERIF_DIR, "refactors")
    if not os.path.isdir(rd):
        return out
    import re
    props = sorted({v["prop"] for v in _CORPUS})
    for rid in sorted(os.listdir(rd)):
        pp = os.path.join(rd, rid, "patch.diff")
        if not os.path.isfile(pp):
            continue
        files = ", ".join(sorted(set(re.findall(r"^\+\+\+ b/src/grid/(\S+)", open(pp, errors="replace").read(), re.M))))
        for prop in props:
            out.append({"prop": prop, "name": f"refactoring {rid} ({files})", "kind": "silent", "edits": [("patch", pp)]})
    return out


VARIANTS = list(_CORPUS) + _seeded_variants() + _refactor_variants()


def make_scratch(root, need_data_overlay=False):
    tmp = tempfile.mkdtemp(prefix="gridlint-")
    dst = os.path.join(tmp, "src", "grid")
    os.makedirs(dst)
    src = os.path.join(root, "src", "grid")
    for fn in os.listdir(src):
        p = os.path.join(src, fn)
        if fn.endswith(".py"):
            shutil.copy(p, os.path.join(dst, fn))
    if need_data_overlay:
        # two-level overlay of symlinks so that single files can be replaced / removed
        os.makedirs(os.path.join(dst, "data"))
        for e in os.listdir(os.path.join(src, "data")):
            sp = os.path.join(src, "data", e)
            if os.path.isdir(sp):
                os.makedirs(os.path.join(dst, "data", e))
                for x in os.listdir(sp):
                    os.symlink(os.path.join(sp, x), os.path.join(dst, "data", e, x))
            else:
                os.symlink(sp, os.path.join(dst, "data", e))
    else:
        os.symlink(os.path.join(src, "data"), os.path.join(dst, "data"))
    return tmp


def apply_variant(tmp, v):
    """Returns None when applied, else a reason for skipping."""
    base = os.path.join(tmp, "src", "grid")
    for ed in v["edits"]:
        op = ed[0]
        if op == "sub":
            _, fn, old, new = ed[:4]
            count = ed[4] if len(ed) > 4 else 1
            p = os.path.join(base, fn)
            s = open(p, encoding="utf-8").read()
            if s.count(old) != count:
                return f"anchor text occurs {s.count(old)}x (expected {count}) in {fn}"
            open(p, "w", encoding="utf-8").write(s.replace(old, new))
        elif op == "append":
            _, fn, text = ed
            with open(os.path.join(base, fn), "a", encoding="utf-8") as fh:
                fh.write(text)
        elif op == "patch":
            import re
            import subprocess
            # files of the data overlay are symlinks: materialise the ones the patch edits
            for m in re.finditer(r"^(?:\+\+\+|---) [ab]/(src/grid/data/\S+)", open(ed[1], errors="replace").read(), re.M):
                fp = os.path.join(tmp, m.group(1))
                if os.path.islink(fp):
                    target = os.path.realpath(fp)
                    os.remove(fp)
                    shutil.copy(target, fp)
            r = subprocess.run(["git", "apply", "--whitespace=nowarn", ed[1]], cwd=tmp, capture_output=True, text=True)
            if r.returncode != 0:
                return "seeded patch no longer applies to this tree"
        elif op == "rm":
            p = os.path.join(base, ed[1])
            if not os.path.lexists(p):
                return f"{ed[1]} not present"
            os.remove(p)
        elif op == "json":
            _, rel, fn = ed
            p = os.path.join(base, rel)
            data = json.load(open(p, encoding="utf-8"))
            r = fn(data)
            if r is False:
                return "json edit not applicable"
            os.remove(p)
            json.dump(data, open(p, "w", encoding="utf-8"))
        elif op == "npz":
            _, rel, fn = ed
            import numpy as np
            p = os.path.join(base, rel)
            if not os.path.lexists(p):
                return f"{rel} not present"
            with np.load(p) as d:
                members = {k: d[k] for k in d.files}
            r = fn(members, np)
            if r is False:
                return "npz edit not applicable"
            os.remove(p)
            np.savez(p, **members)
        else:
            raise ValueError(op)
    # the edited package must still compile
    import warnings
    for fn in os.listdir(base):
        if fn.endswith(".py"):
            try:
                with warnings.catch_warnings():
                    warnings.simplefilter("ignore")
                    compile(open(os.path.join(base, fn), encoding="utf-8").read(), fn, "exec")
            except SyntaxError as e:
                raise AssertionError(f"variant {v['name']} does not compile: {e}") from e
    return None


def judge(idx, root):
    """Run one variant (by index: lambdas do not pickle) in this process.  Returns a result dict."""
    v = VARIANTS[idx]
    os.environ["GRIDLINT_NO_EVIDENCE"] = "1"
    t0 = time.time()
    def touches_data(e):
        if e[0] in ("rm", "json", "npz"):
            return True
        return e[0] == "patch" and "src/grid/data/" in open(e[1], errors="replace").read()
    tmp = make_scratch(root, need_data_overlay=any(touches_data(e) for e in v["edits"]))
    try:
        skip = apply_variant(tmp, v)
        if skip:
            return {"name": v["name"], "prop": v["prop"], "kind": v["kind"], "status": "skipped", "detail": skip}
        import importlib
        import io
        import contextlib
        from gridlint import core
        from gridlint.props import common
        common.clear()
        mod = importlib.import_module(f"gridlint.props.{v['prop'].lower()}")
        buf = io.StringIO()
        ev = os.path.join(tmp, "evidence")
        try:
            with contextlib.redirect_stdout(buf):
                rc = mod.run(tier="quick", root=tmp, evidence_dir=ev, quiet=True)
            rep = core.LAST_REPORT
            known = core.load_known()
            kf = {f"{f['property']}/{f['rule']}/{f['construct']}/{f['role']}" for f in known.get("findings", [])}
            new = [x["key"] for x in rep.violations if x["key"] not in kf]
            err = None
        except core.AnalysisError as e:
            rc, new, err = 2, [], str(e)
        out = {"name": v["name"], "prop": v["prop"], "kind": v["kind"], "rc": rc, "new": new[:6], "error": err,
               "wall_s": round(time.time() - t0, 2)}
        if v["kind"] == "fire":
            frag = v.get("expect", "")
            hit = [k for k in new if frag in k]
            out["status"] = "ok" if (rc == 1 and hit) else "FAILED"
            if out["status"] == "FAILED":
                out["detail"] = f"expected a violation containing {frag!r}; rc={rc} new={new[:4]} err={err}"
        else:
            out["status"] = "ok" if (rc == 0 and not new) else "FAILED"
            if out["status"] == "FAILED":
                out["detail"] = f"behaviour-preserving variant raised an alarm: rc={rc} new={new[:4]} err={err}"
        return out
    except BaseException as e:  # noqa: BLE001
        return {"name": v["name"], "prop": v["prop"], "kind": v["kind"], "status": "FAILED",
                "detail": "crash: " + "".join(traceback.format_exception_only(type(e), e)).strip()[:300]}
    finally:
        shutil.rmtree(tmp, ignore_errors=True)


def main(prop=None, root="/repo", jobs=16, embedded=False):
    vs = [v for v in VARIANTS if prop is None or v["prop"] == prop.upper()]
    if not vs:
        print(f"self-test: no variants registered for {prop}")
        return 0
    t0 = time.time()
    results = []
    with concurrent.futures.ProcessPoolExecutor(max_workers=min(jobs, len(vs))) as ex:
        futs = {ex.submit(judge, VARIANTS.index(v), root): v for v in vs}
        for f in concurrent.futures.as_completed(futs):
            results.append(f.result())
    results.sort(key=lambda r: (r["prop"], r["kind"], r["name"]))
    failed = [r for r in results if r["status"] == "FAILED"]
    skipped = [r for r in results if r["status"] == "skipped"]
    ok = [r for r in results if r["status"] == "ok"]
    for r in results:
        line = f"  selftest {r['prop']} {r['kind']:6s} {r['name']:55s} {r['status']}"
        if r["status"] != "ok":
            line += f"  -- {r.get('detail', '')}"
        elif r["kind"] == "fire":
            line += f"  -> {r['new'][0] if r.get('new') else ''}"
        print(line)
    print(f"self-test{' ' + prop if prop else ''}: {len(ok)} ok, {len(skipped)} skipped, {len(failed)} failed "
          f"of {len(results)} variants in {time.time() - t0:.1f}s")
    by_prop = {}
    for r in results:
        d = by_prop.setdefault(r["prop"], {"ok": 0, "skipped": 0, "FAILED": 0, "fire_ok": 0})
        d[r["status"]] += 1
        if r["status"] == "ok" and r["kind"] == "fire":
            d["fire_ok"] += 1
    rc = 0
    if failed:
        rc = 2
    for p, d in by_prop.items():
        total = d["ok"] + d["skipped"] + d["FAILED"]
        if d["fire_ok"] == 0 or d["skipped"] > total // 2:
            print(f"self-test {p}: too few applicable variants ({d}) -- the corpus no longer matches the tree")
            rc = 2
    if embedded:
        # append to the evidence of the property
        from gridlint.core import VERIF_DIR
        ev = os.path.join(VERIF_DIR, "evidence", f"{prop.upper()}.json")
        if os.path.exists(ev) and not os.environ.get("GRIDLINT_NO_EVIDENCE"):
            d = json.load(open(ev))
            d["coverage"]["selftest"] = {"variants": len(results), "ok": len(ok), "skipped": len(skipped),
                                         "failed": len(failed),
                                         "results": [{k: r.get(k) for k in ("name", "kind", "status", "new")} for r in results]}
            d["wall_s"] = round(d["wall_s"] + time.time() - t0, 3)
            json.dump(d, open(ev, "w"), indent=1, default=str)
    return rc


if __name__ == "__main__":
    sys.exit(main(sys.argv[1] if len(sys.argv) > 1 else None))
