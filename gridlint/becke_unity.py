"""C06, rules R7 / R8 (E10): the Becke weights are the normalised cell functions.

BeckeWeights is evaluated over symbolic points and nuclei with the switching polynomial and the
heteronuclear parameter as *uninterpreted* functions (S(v), alpha_ab): whatever they are, the weight
of atom a at a point must be P_a / sum_b P_b with P_a = prod_(b != a) (1 - S(v_ab)) / 2.  Decided:

R7 partition-of-unity: for 2 and 3 atoms and two symbolic points, sum_a generate_weights(select=[a]) = 1
   identically, compute_atom_weight(select=a) is the same function, and each weight is P_a / sum_b P_b
   (the self-pair a = b, where 0/0 arises, contributes the factor 1).
R8 own-atom-per-segment: __call__ (the callable MolGrid uses) on 4 atoms and 5 points -- more than one
   chunk -- returns for every point the weight of the atom whose segment the point belongs to.

NOT decided: bounds 0 <= w <= 1, the shape of the switching polynomial, the value of alpha, Hirshfeld.
"""
from __future__ import annotations

import ast

from gridlint.core import AnalysisError


def _world(repo, natom, npts):
    import numpy as np
    import sympy as sp
    from gridlint import e10
    P = e10._obj_array([[sp.Symbol(f"p{n}{c}", real=True) for c in range(3)] for n in range(npts)])
    R = e10._obj_array([[sp.Symbol(f"R{a}{c}", real=True) for c in range(3)] for a in range(natom)])
    atnums = e10.arr([a + 1 for a in range(natom)])
    radii = {a + 1: sp.Symbol(f"rad{a}", positive=True) for a in range(natom)}
    radii.update({0: sp.Symbol("rad_m1", positive=True), -1: sp.Symbol("rad_m2", positive=True)})

    def switch(x, order=3):
        out = np.empty(x.shape, dtype=object)
        for idx in np.ndindex(x.shape):
            v = x[idx]
            out[idx] = sp.nan if (v is sp.nan or v.has(sp.nan) or v.has(sp.zoo)) else sp.Function("S")(v)
        return out

    def alpha(radii_, cutoff=sp.Rational(9, 20)):
        n = len(list(radii_))
        return e10._obj_array([[sp.Integer(0) if a == b else sp.Symbol(f"al{a}{b}") for b in range(n)] for a in range(n)])
    cls = e10.Obj("BeckeWeights", _switch_func=switch, _calculate_alpha=alpha)
    obj = e10.Obj("becke", cls="BeckeWeights", _radii=radii, _order=3)
    mod_funcs = {g.name: g.node for g in repo.funcs.values()
                 if g.module == "becke" and g.cls is None and g.parent is None and isinstance(g.node, ast.FunctionDef)}
    it = e10.Interp(mod_funcs, {"BeckeWeights": cls})
    obj.resolver = e10.class_resolver(repo, "BeckeWeights", obj, it)
    # the stubs take precedence over the real static methods
    obj.attrs["_switch_func"] = switch
    obj.attrs["_calculate_alpha"] = alpha
    return e10, it, obj, P, R, atnums


def _cell(e10, P, R, natom, n, a):
    """P_a(point n) with the uninterpreted switch and alpha."""
    import sympy as sp
    dist = lambda x, y: sp.sqrt(sum((x[c] - y[c]) ** 2 for c in range(3)))
    tot = sp.Integer(1)
    for b in range(natom):
        if b == a:
            continue
        mu = (dist(R[a], P[n]) - dist(R[b], P[n])) / dist(R[a], R[b])
        v = mu + sp.Symbol(f"al{a}{b}") * (1 - mu ** 2)
        tot *= sp.Rational(1, 2) * (1 - sp.Function("S")(v))
    return tot


def _canon(expr, P, R, natom, npts):
    """Distances -> atomic symbols, S(rational argument) -> one symbol per canonical argument: what is left is a
    rational function, compared exactly with cancel()."""
    import sympy as sp
    sub = {}
    for a in range(natom):
        for n in range(npts):
            sub[sp.sqrt(sum((R[a, c] - P[n, c]) ** 2 for c in range(3)))] = sp.Symbol(f"d_{a}_{n}", positive=True)
        for b in range(natom):
            if a != b:
                sub[sp.sqrt(sum((R[a, c] - R[b, c]) ** 2 for c in range(3)))] = sp.Symbol(f"D_{a}_{b}", positive=True)
    expr = sp.sympify(expr).xreplace(sub)
    if expr.atoms(sp.Pow) and any(p_.exp == sp.Rational(1, 2) for p_ in expr.atoms(sp.Pow)):
        # a distance spelled differently: fall back to substitution after expansion of the radicands
        expr = expr.subs({k: v for k, v in sub.items()})
    apps = list(expr.atoms(sp.core.function.AppliedUndef))
    mapping = {}
    for ap in apps:
        if ap.func.__name__ == "S":
            mapping[ap] = ("S", sp.cancel(ap.args[0]))
    return expr, mapping


def _equal(x, y, P, R, natom, npts):
    import sympy as sp
    ex, mx = _canon(x, P, R, natom, npts)
    ey, my = _canon(y, P, R, natom, npts)
    keys = {}
    for m in (mx, my):
        for ap, (_, key) in m.items():
            keys.setdefault(key, sp.Symbol(f"S_{len(keys)}"))
    ex = ex.xreplace({ap: keys[key] for ap, (_, key) in mx.items()})
    ey = ey.xreplace({ap: keys[key] for ap, (_, key) in my.items()})
    return sp.cancel(sp.together(ex - ey)) == 0


def _run(what, e10, fn, *a, **kw):
    try:
        return fn(*a, **kw)
    except e10.Undecided as e:
        raise AnalysisError(f"{what} is outside the fragment the symbolic array evaluator knows: {e}") from e
    except (IndexError, ValueError, TypeError, KeyError, AttributeError) as e:
        raise AnalysisError(f"{what}: the evaluation over symbolic arrays failed ({type(e).__name__}: {e})") from e


def rule_unity(rep, repo):
    import sympy as sp
    gw = repo.resolve_method("BeckeWeights", "generate_weights")
    caw = repo.resolve_method("BeckeWeights", "compute_atom_weight")
    if gw is None or caw is None:
        raise AnalysisError("anchor vanished: BeckeWeights.generate_weights / compute_atom_weight")
    here = gw.loc()
    n_ok = 0
    for natom in (2, 3):
        npts = 2
        per_atom = []
        for a in range(natom):
            e10, it, obj, P, R, atnums = _world(repo, natom, npts)
            w = _run("BeckeWeights.generate_weights", e10, it.call_def, gw.node, [obj, P, R, atnums], {"select": [a]}, {})
            e10, it, obj, P, R, atnums = _world(repo, natom, npts)
            w2 = _run("BeckeWeights.compute_atom_weight", e10, it.call_def, caw.node, [obj, P, R, atnums, a], {}, {})
            if not hasattr(w, "shape") or w.shape != (npts,) or not hasattr(w2, "shape") or w2.shape != (npts,):
                raise AnalysisError("BeckeWeights: the weight routines do not return one value per point")
            per_atom.append((w, w2))
        for n in range(npts):
            cells = [_cell(e10, P, R, natom, n, a) for a in range(natom)]
            norm_ = sum(cells)
            for a in range(natom):
                want = cells[a] / norm_
                if not _equal(per_atom[a][0][n], want, P, R, natom, npts):
                    rep.violation("R7.partition-of-unity", "becke.BeckeWeights.generate_weights", "normalised-cell-function",
                                  f"{natom} atoms: the weight of atom {a} at a point is `{str(per_atom[a][0][n])[:160]}`; it must be the cell "
                                  f"function P_a = prod_(b != a) (1 - S(v_ab))/2 divided by the sum of the cell functions of all atoms", here)
                    return
                if not _equal(per_atom[a][1][n], want, P, R, natom, npts):
                    rep.violation("R7.partition-of-unity", "becke.BeckeWeights.compute_atom_weight", "normalised-cell-function",
                                  f"{natom} atoms: compute_atom_weight of atom {a} is `{str(per_atom[a][1][n])[:160]}`, not P_a / sum_b P_b", caw.loc())
                    return
            tot = sum(per_atom[a][0][n] for a in range(natom))
            if not _equal(tot, sp.Integer(1), P, R, natom, npts):
                rep.violation("R7.partition-of-unity", "becke.BeckeWeights.generate_weights", "sum",
                              f"{natom} atoms: the weights of all atoms at one point add up to `{str(tot)[:120]}`, not 1", here)
                return
            n_ok += 1
        rep.ok("R7.partition-of-unity", f"BeckeWeights[{natom} atoms]", here, "w_a = P_a / sum_b P_b, sum_a w_a = 1 (switch and alpha uninterpreted)")
    rep.floor("R7 points", n_ok, 4)


def rule_call(rep, repo):
    import sympy as sp
    call = repo.resolve_method("BeckeWeights", "__call__")
    if call is None:
        raise AnalysisError("anchor vanished: BeckeWeights.__call__")
    here = call.loc()
    natom, npts = 4, 5
    sizes = [1, 1, 2, 1]
    idx = [0, 1, 2, 4, 5]
    e10, it, obj, P, R, atnums = _world(repo, natom, npts)
    out = _run("BeckeWeights.__call__", e10, it.call_def, call.node, [obj, P, R, atnums, e10.np.array(idx, dtype=int)], {}, {})
    if not hasattr(out, "shape") or out.shape != (npts,):
        rep.violation("R8.own-atom-per-segment", "becke.BeckeWeights.__call__", "shape",
                      f"for {npts} points the callable returns shape {getattr(out, 'shape', None)}", here)
        return
    owner = [a for a, s_ in enumerate(sizes) for _ in range(s_)]
    for n in range(npts):
        cells = [_cell(e10, P, R, natom, n, a) for a in range(natom)]
        want = cells[owner[n]] / sum(cells)
        if not _equal(out[n], want, P, R, natom, npts):
            who = [a for a in range(natom) if _equal(out[n], cells[a] / sum(cells), P, R, natom, npts)]
            rep.violation("R8.own-atom-per-segment", "becke.BeckeWeights.__call__", "segment",
                          f"4 atoms with segments {idx}, 5 points evaluated in chunks of 3: point {n} belongs to atom {owner[n]} but "
                          f"receives {'the weight of atom %d' % who[0] if who else 'a value that is no atomic weight at that point'}", here)
            return
    rep.ok("R8.own-atom-per-segment", "BeckeWeights.__call__[4 atoms, 5 points, 2 chunks]", here, "every point gets the weight of its own atom")
