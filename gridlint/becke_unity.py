"""C06, rules R7 / R8 (E10): the Becke weights are the normalised cell functions.

BeckeWeights is evaluated over symbolic points and nuclei with the switching polynomial and the
heteronuclear parameter as *uninterpreted* functions (S(v), alpha_ab): whatever they are, the weight
of atom a at a point must be P_a / sum_b P_b with P_a = prod_(b != a) (1 - S(v_ab)) / 2.  Decided:

R7 partition-of-unity: for 2 and 3 atoms and two symbolic points, sum_a generate_weights(select=[a]) = 1
   identically, compute_atom_weight(select=a) is the same function, and each weight is P_a / sum_b P_b
   (the self-pair a = b, where 0/0 arises, contributes the factor 1).
R8 own-atom-per-segment: __call__ (the callable MolGrid uses) on 4 atoms and 5 points -- more than one
   chunk -- returns for every point the weight of the atom whose segment the point belongs to.

NOT decided: bounds 0 <= w <= 1, the shape of the switching polynomial, the value of alpha, Hirshfeld.
"""
from __future__ import annotations

import ast

from gridlint.core import AnalysisError


def _table(natom, missing):
    """Radius table by atomic number; `missing`: atomic numbers without a tabulated radius (nan)."""
    import sympy as sp
    table = {z: (sp.nan if z in missing else sp.Symbol(f"rad{z}", positive=True)) for z in range(-1, 2 * natom + 3)}
    return table


def _atnums(natom):
    # atomic numbers 3, 5, 7, ...: the two elements below each of them are in the table
    return [3 + 2 * a for a in range(natom)]


def _expected_radius(table, z):
    import sympy as sp
    if table[z] is not sp.nan:
        return table[z]
    if table[z - 1] is not sp.nan:
        return table[z - 1]
    return table[z - 2]


def _world(repo, natom, npts, missing=()):
    import numpy as np
    import sympy as sp
    from gridlint import e10
    P = e10._obj_array([[sp.Symbol(f"p{n}{c}", real=True) for c in range(3)] for n in range(npts)])
    R = e10._obj_array([[sp.Symbol(f"R{a}{c}", real=True) for c in range(3)] for a in range(natom)])
    atnums = e10.np.array(_atnums(natom), dtype=int)
    radii = _table(natom, set(missing))

    def switch(x, order=3):
        # the switching polynomial is uninterpreted, but it depends on the order it is called with
        out = np.empty(x.shape, dtype=object)
        for idx in np.ndindex(x.shape):
            v = x[idx]
            out[idx] = sp.nan if (v is sp.nan or v.has(sp.nan) or v.has(sp.zoo)) else sp.Function("S")(v, sp.sympify(order))
        return out

    def alpha(radii_, cutoff=sp.Rational(9, 20)):
        # the heteronuclear parameter is an uninterpreted function of the two radii it is computed from
        rr = list(radii_)
        n = len(rr)
        return e10._obj_array([[sp.Integer(0) if a == b else sp.Function("AL")(rr[a], rr[b]) for b in range(n)] for a in range(n)])
    cls = e10.Obj("BeckeWeights", _switch_func=switch, _calculate_alpha=alpha)
    obj = e10.Obj("becke", cls="BeckeWeights", _radii=radii, _order=sp.Symbol("ORDER"))
    mod_funcs = {g.name: g.node for g in repo.funcs.values()
                 if g.module == "becke" and g.cls is None and g.parent is None and isinstance(g.node, ast.FunctionDef)}
    it = e10.Interp(mod_funcs, {"BeckeWeights": cls})
    obj.resolver = e10.class_resolver(repo, "BeckeWeights", obj, it)
    cls.resolver = e10.class_resolver(repo, "BeckeWeights", obj, it)     # static helpers reached through the class name
    # the stubs take precedence over the real static methods
    obj.attrs["_switch_func"] = switch
    obj.attrs["_calculate_alpha"] = alpha
    return e10, it, obj, P, R, atnums


def _cell(e10, P, R, natom, n, a, missing=()):
    """P_a(point n) with the uninterpreted switch and alpha."""
    import sympy as sp
    table = _table(natom, set(missing))
    zs = _atnums(natom)
    rad = [_expected_radius(table, z) for z in zs]
    dist = lambda x, y: sp.sqrt(sum((x[c] - y[c]) ** 2 for c in range(3)))
    tot = sp.Integer(1)
    for b in range(natom):
        if b == a:
            continue
        mu = (dist(R[a], P[n]) - dist(R[b], P[n])) / dist(R[a], R[b])
        v = mu + sp.Function("AL")(rad[a], rad[b]) * (1 - mu ** 2)
        tot *= sp.Rational(1, 2) * (1 - sp.Function("S")(v, sp.Symbol("ORDER")))
    return tot


def _canon(expr, P, R, natom, npts):
    """Distances -> atomic symbols, S(rational argument) -> one symbol per canonical argument: what is left is a
    rational function, compared exactly with cancel()."""
    import sympy as sp
    sub = {}
    for a in range(natom):
        for n in range(npts):
            sub[sp.sqrt(sum((R[a, c] - P[n, c]) ** 2 for c in range(3)))] = sp.Symbol(f"d_{a}_{n}", positive=True)
        for b in range(natom):
            if a != b:
                sub[sp.sqrt(sum((R[a, c] - R[b, c]) ** 2 for c in range(3)))] = sp.Symbol(f"D_{a}_{b}", positive=True)
    expr = sp.sympify(expr).xreplace(sub)
    if expr.atoms(sp.Pow) and any(p_.exp == sp.Rational(1, 2) for p_ in expr.atoms(sp.Pow)):
        # a distance spelled differently: fall back to substitution after expansion of the radicands
        expr = expr.subs({k: v for k, v in sub.items()})
    apps = list(expr.atoms(sp.core.function.AppliedUndef))
    mapping = {}
    for ap in apps:
        if ap.func.__name__ == "S":
            mapping[ap] = ("S", (sp.cancel(ap.args[0]),) + tuple(ap.args[1:]))
    return expr, mapping


def _equal(x, y, P, R, natom, npts):
    import sympy as sp
    ex, mx = _canon(x, P, R, natom, npts)
    ey, my = _canon(y, P, R, natom, npts)
    keys = {}
    for m in (mx, my):
        for ap, (_, key) in m.items():
            keys.setdefault(key, sp.Symbol(f"S_{len(keys)}"))
    ex = ex.xreplace({ap: keys[key] for ap, (_, key) in mx.items()})
    ey = ey.xreplace({ap: keys[key] for ap, (_, key) in my.items()})
    return sp.cancel(sp.together(ex - ey)) == 0


def _run(what, e10, fn, *a, **kw):
    try:
        return fn(*a, **kw)
    except e10.Undecided as e:
        raise AnalysisError(f"{what} is outside the fragment the symbolic array evaluator knows: {e}") from e
    except (IndexError, ValueError, TypeError, KeyError, AttributeError) as e:
        raise AnalysisError(f"{what}: the evaluation over symbolic arrays failed ({type(e).__name__}: {e})") from e


def rule_unity(rep, repo):
    import sympy as sp
    gw = repo.resolve_method("BeckeWeights", "generate_weights")
    caw = repo.resolve_method("BeckeWeights", "compute_atom_weight")
    if gw is None or caw is None:
        raise AnalysisError("anchor vanished: BeckeWeights.generate_weights / compute_atom_weight")
    here = gw.loc()
    n_ok = 0
    # 2 and 3 atoms with tabulated radii; 2 atoms where the radius of the second element is missing (nan) and the one of
    # the element below it is used, or -- when that is missing too -- the one two below
    for natom, missing in ((2, ()), (3, ()), (2, (5,)), (2, (5, 4))):
        npts = 2
        per_atom = []
        cfg = f"{natom} atoms" + (f", no tabulated radius for Z in {list(missing)}" if missing else "")
        for a in range(natom):
            e10, it, obj, P, R, atnums = _world(repo, natom, npts, missing)
            w = _run("BeckeWeights.generate_weights", e10, it.call_def, gw.node, [obj, P, R, atnums], {"select": [a]}, {})
            e10, it, obj, P, R, atnums = _world(repo, natom, npts, missing)
            w2 = _run("BeckeWeights.compute_atom_weight", e10, it.call_def, caw.node, [obj, P, R, atnums, a], {}, {})
            if not hasattr(w, "shape") or w.shape != (npts,) or not hasattr(w2, "shape") or w2.shape != (npts,):
                raise AnalysisError("BeckeWeights: the weight routines do not return one value per point")
            per_atom.append((w, w2))
        for n in range(npts):
            cells = [_cell(e10, P, R, natom, n, a, missing) for a in range(natom)]
            norm_ = sum(cells)
            for a in range(natom):
                want = cells[a] / norm_
                if not _equal(per_atom[a][0][n], want, P, R, natom, npts):
                    rep.violation("R7.partition-of-unity", "becke.BeckeWeights.generate_weights", "normalised-cell-function",
                                  f"{cfg}: the weight of atom {a} at a point is `{str(per_atom[a][0][n])[:160]}`; it must be the cell "
                                  f"function P_a = prod_(b != a) (1 - S(v_ab))/2 divided by the sum of the cell functions of all atoms, "
                                  f"with the heteronuclear parameter computed from the radii of the two elements (the radius one or two "
                                  f"elements below when none is tabulated)", here)
                    return
                if not _equal(per_atom[a][1][n], want, P, R, natom, npts):
                    rep.violation("R7.partition-of-unity", "becke.BeckeWeights.compute_atom_weight", "normalised-cell-function",
                                  f"{cfg}: compute_atom_weight of atom {a} is `{str(per_atom[a][1][n])[:160]}`, not P_a / sum_b P_b with "
                                  f"the same radii as the whole-grid route", caw.loc())
                    return
            tot = sum(per_atom[a][0][n] for a in range(natom))
            if not _equal(tot, sp.Integer(1), P, R, natom, npts):
                rep.violation("R7.partition-of-unity", "becke.BeckeWeights.generate_weights", "sum",
                              f"{cfg}: the weights of all atoms at one point do not add up to 1", here)
                return
            n_ok += 1
        rep.ok("R7.partition-of-unity", f"BeckeWeights[{cfg}]", here, "w_a = P_a / sum_b P_b, sum_a w_a = 1 (switch and alpha uninterpreted)")
    rep.floor("R7 points", n_ok, 8)


def rule_call(rep, repo):
    import sympy as sp
    call = repo.resolve_method("BeckeWeights", "__call__")
    if call is None:
        raise AnalysisError("anchor vanished: BeckeWeights.__call__")
    here = call.loc()
    natom, npts = 4, 5
    sizes = [1, 1, 2, 1]
    idx = [0, 1, 2, 4, 5]
    e10, it, obj, P, R, atnums = _world(repo, natom, npts)
    out = _run("BeckeWeights.__call__", e10, it.call_def, call.node, [obj, P, R, atnums, e10.np.array(idx, dtype=int)], {}, {})
    if not hasattr(out, "shape") or out.shape != (npts,):
        rep.violation("R8.own-atom-per-segment", "becke.BeckeWeights.__call__", "shape",
                      f"for {npts} points the callable returns shape {getattr(out, 'shape', None)}", here)
        return
    owner = [a for a, s_ in enumerate(sizes) for _ in range(s_)]
    for n in range(npts):
        cells = [_cell(e10, P, R, natom, n, a) for a in range(natom)]
        want = cells[owner[n]] / sum(cells)
        if not _equal(out[n], want, P, R, natom, npts):
            who = [a for a in range(natom) if _equal(out[n], cells[a] / sum(cells), P, R, natom, npts)]
            rep.violation("R8.own-atom-per-segment", "becke.BeckeWeights.__call__", "segment",
                          f"4 atoms with segments {idx}, 5 points evaluated in chunks of 3: point {n} belongs to atom {owner[n]} but "
                          f"receives {'the weight of atom %d' % who[0] if who else 'a value that is no atomic weight at that point'}", here)
            return
    rep.ok("R8.own-atom-per-segment", "BeckeWeights.__call__[4 atoms, 5 points, 2 chunks]", here, "every point gets the weight of its own atom")
    # both routes over several sectors with a selection that is not the identity: segment k belongs to atom select[k]
    select = [2, 0, 3, 1]
    owner_sel = [select[k] for k, s_ in enumerate(sizes) for _ in range(s_)]
    for meth in ("generate_weights", "compute_weights"):
        fdef = repo.resolve_method("BeckeWeights", meth)
        if fdef is None:
            continue
        e10, it, obj, P, R, atnums = _world(repo, natom, npts)
        out2 = _run(f"BeckeWeights.{meth}", e10, it.call_def, fdef.node, [obj, P, R, atnums],
                    {"select": list(select), "pt_ind": e10.np.array(idx, dtype=int)}, {})
        bad = not hasattr(out2, "shape") or out2.shape != (npts,)
        for n in range(npts):
            if bad:
                break
            cells = [_cell(e10, P, R, natom, n, a) for a in range(natom)]
            bad = not _equal(out2[n], cells[owner_sel[n]] / sum(cells), P, R, natom, npts)
        if bad:
            rep.violation("R8.own-atom-per-segment", f"becke.BeckeWeights.{meth}", "segment",
                          f"4 atoms, segments {idx} assigned to the atoms {select}: the points of segment k must receive the weight of "
                          f"atom select[k]", fdef.loc())
        else:
            rep.ok("R8.own-atom-per-segment", f"BeckeWeights.{meth}[4 sectors, select {select}]", fdef.loc(),
                   "segment k gets the weight of atom select[k]")
