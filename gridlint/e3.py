"""E3 -- class-state analysis: definite field assignment, memo fields, property/raw-field use.

Everything is computed over the resolved class hierarchy (MRO, property overrides) from the
syntax trees; no object is ever constructed.
"""
from __future__ import annotations

import ast

from gridlint.core import AnalysisError, norm, strip_docstring


def self_attr(n, selfname="self"):
    return (isinstance(n, ast.Attribute) and isinstance(n.value, ast.Name) and n.value.id == selfname)


def unconditional_raise(f):
    """Method whose body is just `raise NotImplementedError(...)` (after the docstring)."""
    body = strip_docstring(f.node.body)
    return len(body) >= 1 and isinstance(body[0], ast.Raise)


class FieldFlow:
    """Definite-assignment walk over a method body for the receiver's fields.

    ``assigned`` is the set of fields definitely assigned before the current point; every read of
    a field not in the set is recorded in ``reads_before`` (field -> first node).  Calls of
    ``self.m(...)`` / ``super().m(...)`` / property reads are followed through the hierarchy of the
    *concrete* class ``cname``."""

    def __init__(self, repo, cname, on_read=None, max_depth=8):
        self.repo = repo
        self.cname = cname
        self.max_depth = max_depth
        self.problems = []  # (field, func qual, node, chain)
        self.stack = []

    # -- public
    def run_method(self, f, assigned, start_after=None):
        """Walk method ``f`` with the given definitely-assigned set; returns the set at normal exit
        (None when every path raises)."""
        if f.qual in [s.qual for s in self.stack] or len(self.stack) > self.max_depth:
            return set(assigned)
        self.stack.append(f)
        self.selfname = self._selfname(f)
        try:
            out = self._block(strip_docstring(f.node.body), set(assigned), f)
        finally:
            self.stack.pop()
            if self.stack:
                self.selfname = self._selfname(self.stack[-1])
        return out

    @staticmethod
    def _selfname(f):
        # nested functions see the receiver of the enclosing method
        g = f
        while g.parent is not None:
            g = g.parent
        if g.cls is None or g.is_static or g.is_classmethod or not g.params:
            return "<no receiver>"
        return g.params[0]

    # -- statements
    def _block(self, body, a, f):
        for s in body:
            if a is None:
                return None
            a = self._stmt(s, a, f)
        return a

    def _stmt(self, s, a, f):
        if isinstance(s, ast.If):
            self._expr(s.test, a, f)
            # `if self.x is None:` narrows nothing for definite assignment
            a1 = self._block(s.body, set(a), f)
            a2 = self._block(s.orelse, set(a), f)
            if a1 is None:
                return a2
            if a2 is None:
                return a1
            return a1 & a2
        if isinstance(s, (ast.For, ast.While)):
            if isinstance(s, ast.For):
                self._expr(s.iter, a, f)
            else:
                self._expr(s.test, a, f)
            inner = self._block(s.body, set(a), f)
            # loop body may execute zero times
            if s.orelse:
                self._block(s.orelse, set(a), f)
            return a
        if isinstance(s, ast.With):
            for it in s.items:
                self._expr(it.context_expr, a, f)
            return self._block(s.body, a, f)
        if isinstance(s, ast.Try):
            a1 = self._block(s.body, set(a), f)
            outs = [a1] if a1 is not None else []
            for h in s.handlers:
                ah = self._block(h.body, set(a), f)
                if ah is not None:
                    outs.append(ah)
            if not outs:
                return None
            r = set.intersection(*outs)
            if s.finalbody:
                r = self._block(s.finalbody, r, f)
            return r
        if isinstance(s, ast.Raise):
            if s.exc is not None:
                self._expr(s.exc, a, f)
            return None
        if isinstance(s, ast.Return):
            if s.value is not None:
                self._expr(s.value, a, f)
            return self._ret(a)
        if isinstance(s, ast.Assign):
            self._expr(s.value, a, f)
            for t in s.targets:
                a = self._target(t, a, f)
            return a
        if isinstance(s, ast.AnnAssign):
            if s.value is not None:
                self._expr(s.value, a, f)
                a = self._target(s.target, a, f)
            return a
        if isinstance(s, ast.AugAssign):
            self._expr(s.value, a, f)
            self._expr(_as_load(s.target), a, f)
            return a
        if isinstance(s, ast.Expr):
            self._expr(s.value, a, f)
            return a
        if isinstance(s, (ast.FunctionDef, ast.ClassDef, ast.Pass, ast.Global, ast.Nonlocal, ast.Import,
                          ast.ImportFrom, ast.Break, ast.Continue)):
            return a
        if isinstance(s, ast.Delete):
            return a
        if isinstance(s, ast.Assert):
            self._expr(s.test, a, f)
            return a
        for ch in ast.iter_child_nodes(s):
            if isinstance(ch, ast.expr):
                self._expr(ch, a, f)
        return a

    def _ret(self, a):
        # a return ends the path; the caller continues with the state at the return.  We merge
        # returns by keeping the intersection in self._retstate
        cur = getattr(self, "_retstate", {}).get(id(self.stack[-1]))
        st = self.__dict__.setdefault("_retstate", {})
        st[id(self.stack[-1])] = set(a) if cur is None else (cur & a)
        return None

    def _target(self, t, a, f):
        if isinstance(t, (ast.Tuple, ast.List)):
            for e in t.elts:
                a = self._target(e.value if isinstance(e, ast.Starred) else e, a, f)
            return a
        if self_attr(t, self.selfname):
            # assignment through a property setter?
            setter = self.repo.resolve_setter(self.cname, t.attr)
            getter = self.repo.resolve_method(self.cname, t.attr)
            if getter is not None and getter.is_property:
                if setter is not None:
                    out = self._call(setter, a, f, t)
                    return out if out is not None else a
                return a
            a = set(a)
            a.add(t.attr)
            return a
        if isinstance(t, ast.Subscript):
            self._expr(t.value, a, f)
            self._expr(t.slice, a, f)
            return a
        if isinstance(t, ast.Attribute):
            self._expr(t.value, a, f)
        return a

    # -- expressions
    def _expr(self, e, a, f):
        if e is None:
            return
        if isinstance(e, (ast.Lambda,)):
            return  # evaluated later
        if isinstance(e, ast.Call):
            fn = e.func
            for x in e.args:
                self._expr(x.value if isinstance(x, ast.Starred) else x, a, f)
            for k in e.keywords:
                self._expr(k.value, a, f)
            # super().m(...)
            if isinstance(fn, ast.Attribute) and isinstance(fn.value, ast.Call) and \
                    isinstance(fn.value.func, ast.Name) and fn.value.func.id == "super":
                cur_cls = f.cls_ctx()
                mf = self.repo.resolve_method(self.cname, fn.attr, start_after=cur_cls)
                if mf is not None:
                    out = self._call(mf, a, f, e)
                    if out is not None:
                        a |= out
                return
            if isinstance(fn, ast.Attribute) and isinstance(fn.value, ast.Name) and \
                    fn.value.id in (self.selfname, "cls"):
                mf = self.repo.resolve_method(self.cname, fn.attr)
                if mf is not None and not mf.is_property:
                    if mf.is_static or mf.is_classmethod:
                        return
                    out = self._call(mf, a, f, e)
                    if out is not None:
                        a |= out
                    return
            # ClassName.__init__(self, ...)
            if isinstance(fn, ast.Attribute) and isinstance(fn.value, ast.Name) and fn.value.id in self.repo.classes \
                    and e.args and isinstance(e.args[0], ast.Name) and e.args[0].id == self.selfname:
                mf = self.repo.resolve_method(fn.value.id, fn.attr)
                if mf is not None:
                    out = self._call(mf, a, f, e)
                    if out is not None:
                        a |= out
                    return
            self._expr(fn, a, f)
            return
        if self_attr(e, self.selfname) and isinstance(e.ctx, ast.Load):
            getter = self.repo.resolve_method(self.cname, e.attr)
            if getter is not None:
                if getter.is_property:
                    self._call(getter, a, f, e)
                return  # bound method reference
            if e.attr not in a:
                if self._class_attr(e.attr) or (e.attr.startswith("__") and e.attr.endswith("__")):
                    return
                self.problems.append((e.attr, f.qual, e, [s.qual for s in self.stack]))
            return
        for ch in ast.iter_child_nodes(e):
            if isinstance(ch, ast.expr):
                self._expr(ch, a, f)
            elif isinstance(ch, ast.comprehension):
                self._expr(ch.iter, a, f)
                for c in ch.ifs:
                    self._expr(c, a, f)

    def _class_attr(self, name):
        for k in self.repo.mro(self.cname):
            for s in self.repo.classes[k].node.body:
                if isinstance(s, ast.Assign) and any(isinstance(t, ast.Name) and t.id == name for t in s.targets):
                    return True
        return False

    def _call(self, mf, a, f, node):
        saved = self.selfname
        out = self.run_method(mf, a)
        self.selfname = saved
        # state after the call: intersection of the fall-through exit and all returns
        return self._merge_exit(mf, out)

    def _merge_exit(self, mf, out):
        st = self.__dict__.setdefault("_retstate", {})
        # _ret() keyed on id(FuncInfo on stack top) -- FuncInfo objects are unique per function
        r = st.pop(id(mf), None)
        if out is None:
            return r
        if r is None:
            return out
        return out & r


def _as_load(t):
    import copy
    t2 = copy.copy(t)
    t2.ctx = ast.Load()
    return t2


def init_fields(repo, cname):
    """Fields definitely assigned when ``cname(...)`` returns normally, and reads of unassigned
    fields on the construction path."""
    init = repo.resolve_method(cname, "__init__")
    ff = FieldFlow(repo, cname)
    if init is None:
        return set(), ff.problems
    out = ff.run_method(init, set())
    out = ff._merge_exit(init, out)
    return (out or set()), ff.problems


def method_reads(repo, cname, f, assigned):
    """Reads of fields not definitely assigned, when method ``f`` runs on an instance of ``cname``
    whose constructor assigned ``assigned``."""
    ff = FieldFlow(repo, cname)
    out = ff.run_method(f, set(assigned))
    ff._merge_exit(f, out)
    return ff.problems


def reachable_methods(repo, cname):
    """name -> FuncInfo of every method / property getter / setter visible on ``cname``."""
    out = {}
    for k in reversed(repo.mro(cname)):
        ci = repo.classes[k]
        for n, f in ci.methods.items():
            out[n] = f
            if f.is_property:
                out.pop(n + ".setter", None)  # a property without setter removes the inherited one
        for n, f in ci.setters.items():
            out[n + ".setter"] = f
    return out


SHAPE_ATTRS = {"size", "shape", "ndim", "dtype"}


def shape_only_reads(root):
    """ids of `self.x` nodes that are only inspected for their shape: self.x.size / .shape /
    .ndim / len(self.x)."""
    out = set()
    for n in ast.walk(root):
        if isinstance(n, ast.Attribute) and n.attr in SHAPE_ATTRS and isinstance(n.value, ast.Attribute):
            out.add(id(n.value))
        if isinstance(n, ast.Call) and isinstance(n.func, ast.Name) and n.func.id == "len" and n.args:
            out.add(id(n.args[0]))
    return out


def field_reads_transitive(repo, cname, f, seen=None, value_only=False, root=None):
    """All fields (self.<x> loads that are not methods/properties) read by f or by receiver
    methods/properties it uses, on class ``cname``.  With ``value_only`` reads that only look at
    the shape of the field (``.size``, ``.shape``, ``len``) are left out."""
    seen = seen if seen is not None else set()
    if f.qual in seen:
        return set()
    seen.add(f.qual)
    out = set()
    selfname = FieldFlow._selfname(f)
    root = root if root is not None else f.node
    skip = shape_only_reads(root) if value_only else set()
    for n in ast.walk(root):
        if self_attr(n, selfname) and isinstance(n.ctx, ast.Load):
            g = repo.resolve_method(cname, n.attr)
            if g is None:
                if id(n) not in skip:
                    out.add(n.attr)
            elif not g.is_static and not g.is_classmethod:
                if value_only and g.is_property and id(n) in skip:
                    continue
                out |= field_reads_transitive(repo, cname, g, seen, value_only)
    return out


def field_writes(repo, f):
    """[(field, stmt)] for direct `self.x = ...` stores in f."""
    out = []
    selfname = FieldFlow._selfname(f)
    for s in ast.walk(f.node):
        tgts = []
        if isinstance(s, ast.Assign):
            tgts = s.targets
        elif isinstance(s, (ast.AugAssign, ast.AnnAssign)):
            tgts = [s.target]
        for t in tgts:
            stack = [t]
            while stack:
                x = stack.pop()
                if isinstance(x, (ast.Tuple, ast.List)):
                    stack.extend(x.elts)
                elif isinstance(x, ast.Starred):
                    stack.append(x.value)
                elif self_attr(x, selfname):
                    out.append((x.attr, s))
    return out


def called_from_public(repo, cname):
    """Qualified names of the methods that can actually run on an instance of ``cname``: the public
    (non-underscore or dunder) methods that do not unconditionally raise, plus everything they reach
    through ``self.<m>`` / property accesses / ``super().<m>``."""
    meths = reachable_methods(repo, cname)
    work = []
    for name, f in meths.items():
        base = name.split(".")[0]
        private = base.startswith("_") and not (base.startswith("__") and base.endswith("__"))
        if not private and not unconditional_raise(f):
            work.append(f)
    seen = {}
    while work:
        f = work.pop()
        if f.qual in seen:
            continue
        seen[f.qual] = f
        selfname = FieldFlow._selfname(f)
        for n in ast.walk(f.node):
            if self_attr(n, selfname):
                g = repo.resolve_method(cname, n.attr)
                if g is not None:
                    work.append(g)
                s = repo.resolve_setter(cname, n.attr)
                if s is not None and isinstance(n.ctx, ast.Store):
                    work.append(s)
            if isinstance(n, ast.Call) and isinstance(n.func, ast.Attribute) and isinstance(n.func.value, ast.Call) \
                    and isinstance(n.func.value.func, ast.Name) and n.func.value.func.id == "super":
                g = repo.resolve_method(cname, n.func.attr, start_after=f.cls_ctx())
                if g is not None:
                    work.append(g)
    return seen
