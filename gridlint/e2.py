"""E2 -- ownership / alias / effect analysis (serves C19, C20).

Abstract interpretation of every function of the package over a may-alias domain.  No program
value is ever computed: an abstract value is a set of *origins* an object may come from.

Origins (tuples)
  ("P", func, param)    object bound to parameter ``param`` of ``func`` (parametric placeholder;
                        becomes EXT when ``func`` is a public entry / escaping closure)
  ("PE", func, param)   an element / attribute reachable from that parameter
  ("CB", func, param)   object returned by calling the callable bound to that parameter
  ("G", module, name)   module-level mutable object (cache) or anything stored in it
  ("F", site)           object created inside the package at ``site``
  ("FROZEN", site)      array made read-only before being shared
  ("C",)                immutable literal / scalar
  ("SELF",)             the receiver
"""
from __future__ import annotations

import ast
import collections

from gridlint.core import AnalysisError, norm

# ------------------------------------------------------------------------------ library model
VIEW_FUNCS = {"asarray", "asanyarray", "atleast_1d", "atleast_2d", "atleast_3d", "ravel", "reshape",
              "squeeze", "transpose", "swapaxes", "moveaxis", "broadcast_to", "expand_dims",
              "ascontiguousarray", "asfortranarray", "real", "imag", "diagonal", "rollaxis",
              "broadcast_arrays", "nan_to_num_view", "split", "array_split", "hsplit", "vsplit",
              "flipud", "fliplr", "flip", "rot90", "diag", "require", "asarray_chkfinite",
              "lib.stride_tricks.as_strided", "as_strided", "sliding_window_view", "unravel"}
VIEW_METHODS = {"reshape", "ravel", "squeeze", "transpose", "swapaxes", "view", "diagonal", "get",
                "items", "values", "keys", "__getitem__", "flat", "byteswap_view", "getfield",
                "newbyteorder", "__iter__", "__array__"}
VIEW_ATTRS = {"T", "real", "imag", "flat", "base", "mT"}
CONST_ATTRS = {"shape", "size", "ndim", "dtype", "itemsize", "nbytes", "strides", "flags"}
MUT_METHODS = {"sort", "fill", "resize", "setdefault", "update", "append", "extend", "pop", "clear",
               "insert", "remove", "put", "itemset", "setflags", "popitem", "reverse", "partition",
               "setfield", "byteswap", "add", "discard", "appendleft", "popleft", "sort_values",
               "__setitem__", "__delitem__", "__iadd__", "__isub__", "__imul__", "__itruediv__"}
FRESH_METHODS = {"copy", "astype", "sum", "min", "max", "mean", "dot", "flatten", "tolist", "clip",
                 "strip", "title", "split", "lower", "upper", "joinpath", "format", "readline",
                 "write", "endswith", "startswith", "as_matrix", "any", "all", "cumsum", "prod",
                 "argsort", "nonzero", "conj", "round", "item", "open", "evalf", "query_ball_point",
                 "std", "var", "argmin", "argmax", "cumprod", "repeat", "trace", "tobytes", "join",
                 "replace", "count", "index", "isdigit", "random", "rand", "read", "readlines",
                 "encode", "decode", "conjugate", "ptp", "searchsorted", "take", "compress",
                 "choose", "items_copy", "keys_copy", "apply", "inv", "from_matrix", "from_euler",
                 "as_euler", "as_quat", "is_integer", "bit_length", "total", "elements"}
LIB_MUTATORS = {"copyto": 0, "put": 0, "place": 0, "fill_diagonal": 0, "put_along_axis": 0,
                "putmask": 0, "shuffle": 0, "nan_to_num_inplace": 0}
# library functions returning containers that alias their arguments
LIB_CONTAINER_ALIAS = {"product", "zip", "chain", "islice", "cycle", "repeat", "tee", "zip_longest",
                       "combinations", "permutations", "accumulate", "starmap", "compress",
                       "broadcast_arrays"}
BUILTIN_CONST = {"isinstance", "len", "range", "int", "float", "str", "abs", "min", "max", "callable",
                 "type", "any", "all", "print", "bool", "issubclass", "round", "hash", "id", "repr",
                 "ord", "chr", "divmod", "pow", "complex", "format", "hasattr", "open", "input",
                 "ValueError", "TypeError", "NotImplementedError", "ZeroDivisionError", "RuntimeError",
                 "IndexError", "KeyError", "AttributeError", "Exception", "AssertionError",
                 "RuntimeWarning", "UserWarning", "DeprecationWarning", "Warning", "StopIteration",
                 "ArithmeticError", "OverflowError", "FloatingPointError", "OSError", "IOError",
                 "FileNotFoundError", "slice", "object", "property", "staticmethod", "classmethod"}
BUILTIN_FRESH_CONTAINER = {"list", "tuple", "sorted", "reversed", "enumerate", "zip", "iter", "set",
                           "dict", "sum", "map", "filter", "frozenset", "next"}
LIB_ROOTS_EXTRA = {"warnings", "itertools", "json", "math", "os", "sys", "bisect"}

UFUNC_BINARY = {"add", "subtract", "multiply", "divide", "true_divide", "floor_divide", "power", "maximum",
                "minimum", "mod", "remainder", "arctan2", "hypot", "fmax", "fmin", "logaddexp", "copysign"}
UFUNC_UNARY = {"abs", "absolute", "fabs", "sqrt", "exp", "log", "sin", "cos", "tan", "negative", "square",
               "reciprocal", "sign", "floor", "ceil", "rint", "log10", "log2", "exp2", "expm1", "log1p", "tanh",
               "sinh", "cosh", "arcsin", "arccos", "arctan", "conjugate", "isnan_", "cbrt"}
EXT_KINDS = ("P", "PE", "CB")


class AV:
    """Abstract value: origins of the object, origins of its contents, callables, classes."""
    __slots__ = ("own", "elem", "funcs", "classes")

    def __init__(self, own=(), elem=(), funcs=(), classes=()):
        self.own = frozenset(own)
        self.elem = frozenset(elem)
        self.funcs = frozenset(funcs)
        self.classes = frozenset(classes)

    def join(self, o):
        if o is None or o is BOT:
            return self
        if self is BOT:
            return o
        return AV(self.own | o.own, self.elem | o.elem, self.funcs | o.funcs, self.classes | o.classes)

    def __eq__(self, o):
        return (isinstance(o, AV) and self.own == o.own and self.elem == o.elem
                and self.funcs == o.funcs and self.classes == o.classes)

    def __hash__(self):
        return hash((self.own, self.elem, self.funcs, self.classes))

    def __repr__(self):
        return f"AV(own={set(self.own)}, elem={set(self.elem)}, funcs={set(self.funcs)}, cls={set(self.classes)})"

    def contents(self):
        """Value obtained by reading an element / iterating.  A pure literal table ("GT") holds
        immutable scalars only, so its own identity does not flow into its elements."""
        return AV(self.elem | {o for o in self.own if o[0] not in ("GT", "G", "T", "L")}, self.elem, self.funcs,
                  [k for k in self.classes if k == ("py",)])


BOT = AV()
CONST = AV(own=[("C",)])


def joinall(avs):
    r = BOT
    for a in avs:
        r = r.join(a)
    return r


class FuncState:
    def __init__(self):
        self.ret = BOT
        self.mut = {}  # origin -> list of (qual, where, what, via)
        self.esc = {}  # origin -> list of (qual, where, what)
        self.env_final = {}
        self.sink_sites = {}  # (lineno, col, kind) -> record for candidate accounting
        self.param_stores = set()  # (parameter, stored origins, where, text): element stores into a parameter


class E2:
    """Whole-package fixpoint."""

    def __init__(self, repo, track_escapes=True):
        self.repo = repo
        self.st = {q: FuncState() for q in repo.funcs}
        self.FIELD = collections.defaultdict(lambda: BOT)  # (class, attr) -> AV
        self.GLOB = {}  # (module, name) -> AV
        self.PARAMFUNCS = collections.defaultdict(frozenset)
        self.PARAMCLS = collections.defaultdict(frozenset)
        self.SHARED_F = set()  # fresh sites whose object was stored into shared state
        self.SHARED_OWNER = {}  # fresh site -> ((module, global), storing function, line)
        self.UNFROZEN_STORE = {}  # (module, global) -> first store site of a writable object
        self.STORE_SITES = {}
        self.FROZEN_SITES = set()
        self.escaping = set()  # closures handed to library higher-order functions
        self.unresolved = collections.Counter()
        self.defaulted_lib = collections.Counter()
        self.lib_seen = {}  # dotted callee -> classification (audit trail of the library model)
        self.changed = True
        self.rounds = 0
        self.track_escapes = track_escapes
        self.state_globals = self._find_state_globals()
        for (m, g) in self._all_module_globals():
            o = ("G", m, g)
            pure = self._pure_table(m, self.repo.modules[m].globals[g])
            if pure == "scalar":
                self.GLOB[(m, g)] = CONST
            elif pure == "table":
                self.GLOB[(m, g)] = AV(own=[("GT", m, g)], elem=[("C",)])
            elif self._py_container(self.repo.modules[m].globals[g]):
                # a dict/list (or a None placeholder rebound later): G is the container itself,
                # GE anything stored in it (added when something that is not an immutable scalar
                # is stored)
                v0 = self.repo.modules[m].globals[g]
                empty = (isinstance(v0, (ast.Dict, ast.List, ast.Set)) and not (getattr(v0, "keys", None) or getattr(v0, "elts", None))) \
                    or (isinstance(v0, ast.Constant) and v0.value is None)
                self.GLOB[(m, g)] = AV(own=[o], elem=[] if empty else [("GE", m, g)])
            else:
                # arrays and other objects: every write is a write to shared content
                self.GLOB[(m, g)] = AV(own=[("GE", m, g)], elem=[("GE", m, g)])

    # ------------------------------------------------------------------ module-level state
    def _all_module_globals(self):
        for m, mi in self.repo.modules.items():
            for g in mi.globals:
                yield (m, g)

    def _find_state_globals(self):
        """Module-level objects that have a write site after import (caches)."""
        out = set()
        repo = self.repo
        for q, f in repo.funcs.items():
            mi = repo.modules[f.module]
            declared_global = set()
            for n in ast.walk(f.node):
                if isinstance(n, ast.Global):
                    declared_global |= set(n.names)
            for n in ast.walk(f.node):
                tgt = None
                if isinstance(n, ast.Assign):
                    for t in n.targets:
                        if isinstance(t, ast.Name) and t.id in declared_global:
                            out.add((f.module, t.id))
        return out

    @staticmethod
    def _py_container(v):
        if isinstance(v, (ast.Dict, ast.List, ast.Set, ast.DictComp, ast.ListComp, ast.SetComp)):
            return True
        if isinstance(v, ast.Constant) and v.value is None:
            return True
        return isinstance(v, ast.Call) and isinstance(v.func, ast.Name) and v.func.id in (
            "dict", "list", "set", "OrderedDict", "defaultdict")

    def _pure_table(self, module, v, depth=0):
        """'scalar' for immutable constants, 'table' for containers that can only ever hold
        immutable scalars (literal tables, comprehensions over ranges / other pure tables),
        '' otherwise (caches, arrays, None placeholders)."""
        if isinstance(v, ast.Constant):
            return "" if v.value is None else "scalar"
        if isinstance(v, ast.UnaryOp):
            return self._pure_table(module, v.operand, depth)
        if isinstance(v, ast.BinOp):
            a, b = self._pure_table(module, v.left, depth), self._pure_table(module, v.right, depth)
            return "scalar" if a == b == "scalar" else ""
        if isinstance(v, ast.Attribute):
            return "scalar" if norm(v) in ("np.nan", "np.inf", "np.pi", "numpy.nan") else ""
        if isinstance(v, ast.Name):
            mi = self.repo.modules[module]
            if v.id in mi.globals and depth < 4:
                return self._pure_table(module, mi.globals[v.id], depth + 1)
            return ""
        if isinstance(v, (ast.List, ast.Tuple, ast.Set)):
            if not v.elts:
                return "" if not isinstance(v, ast.Tuple) else "table"
            return "table" if all(self._pure_table(module, e, depth) for e in v.elts) else ""
        if isinstance(v, ast.Dict):
            if not v.keys:
                return ""
            ok = all(k is not None and self._pure_table(module, k, depth) for k in v.keys) and \
                all(self._pure_table(module, e, depth) for e in v.values)
            return "table" if ok else ""
        if isinstance(v, (ast.DictComp, ast.ListComp, ast.SetComp)):
            for g in v.generators:
                it = g.iter
                if isinstance(it, ast.Call) and isinstance(it.func, ast.Name) and it.func.id == "range":
                    continue
                if isinstance(it, ast.Call) and isinstance(it.func, ast.Attribute) and \
                        it.func.attr in ("items", "keys", "values") and \
                        self._pure_table(module, it.func.value, depth) == "table":
                    continue
                if self._pure_table(module, it, depth) == "table":
                    continue
                return ""
            return "table"
        if isinstance(v, ast.Call) and isinstance(v.func, ast.Name) and v.func.id in ("dict", "list", "tuple", "frozenset") \
                and len(v.args) == 1 and not v.keywords:
            return "table" if self._pure_table(module, v.args[0], depth) == "table" else ""
        if isinstance(v, ast.Subscript):
            return "scalar" if self._pure_table(module, v.value, depth) else ""
        return ""

    # ------------------------------------------------------------------ driver
    def rebinds(self, f, _stack=None):
        """Names of the fields that method ``f`` may rebind (`self.x = ...`), transitively through the
        self-/super-method calls it makes; "*" when that cannot be bounded."""
        cache = self.__dict__.setdefault("_rebinds", {})
        if f.qual in cache:
            return cache[f.qual]
        stack = _stack or set()
        if f.qual in stack:
            return set()
        stack = stack | {f.qual}
        out = set()
        for n in ast.walk(f.node):
            tgts = []
            if isinstance(n, ast.Assign):
                tgts = n.targets
            elif isinstance(n, (ast.AugAssign, ast.AnnAssign)):
                tgts = [n.target]
            elif isinstance(n, ast.Delete):
                tgts = n.targets
            for t in tgts:
                for leaf in ([t] if not isinstance(t, (ast.Tuple, ast.List)) else list(ast.walk(t))):
                    if isinstance(leaf, ast.Attribute) and isinstance(leaf.value, ast.Name) and leaf.value.id in ("self", "cls"):
                        out.add(leaf.attr)
            if isinstance(n, ast.Call) and norm(n.func) in ("setattr", "object.__setattr__"):
                out.add("*")
            if isinstance(n, ast.Call) and isinstance(n.func, ast.Attribute):
                base = n.func.value
                is_self = isinstance(base, ast.Name) and base.id in ("self", "cls")
                is_super = isinstance(base, ast.Call) and norm(base.func) == "super"
                if (is_self or is_super) and f.cls:
                    hit = False
                    for k in self.repo.subclasses(f.cls) or [f.cls]:
                        g = self.repo.resolve_method(k, n.func.attr, start_after=f.cls) if is_super else \
                            self.repo.resolve_method(k, n.func.attr)
                        if g is not None:
                            hit = True
                            out |= self.rebinds(g, stack)
                    if not hit and is_self:
                        pass   # an attribute holding a callable: cannot rebind fields of self by itself
        cache[f.qual] = out
        return out

    def run(self, max_rounds=25):
        while self.changed and self.rounds < max_rounds:
            self.changed = False
            self.rounds += 1
            for q, f in self.repo.funcs.items():
                Interp(self, f).analyse()
        if self.changed:
            raise AnalysisError(f"E2 did not reach a fixpoint in {max_rounds} rounds")
        return self

    def touch(self):
        self.changed = True

    # ------------------------------------------------------------------ results
    def entry_points(self):
        repo = self.repo
        public = {q for q, f in repo.funcs.items() if repo.is_public(f)}
        esc = set(self.escaping)

        def returned(q, seen):
            for g in self.st[q].ret.funcs:
                if isinstance(g, str) and g not in seen:
                    seen.add(g)
                    returned(g, seen)
        seen = set()
        for q in public:
            returned(q, seen)
        # closures stored in fields / containers that are returned: approximated by every nested
        # function whose enclosing function is an entry and whose qual appears in some ret/elem
        return public, esc | seen


class Interp:
    def __init__(self, eng, f):
        self.eng = eng
        self.repo = eng.repo
        self.f = f
        self.S = eng.st[f.qual]
        self.env = {}
        self.mod = self.repo.modules[f.module]

    # ------------------------------------------------------------------ helpers
    def where(self, n):
        return f"src/grid/{self.f.module}.py:{getattr(n, 'lineno', self.f.node.lineno)}"

    def site(self, n):
        return f"{self.f.module}.py:{getattr(n, 'lineno', 0)}:{getattr(n, 'col_offset', 0)}"

    def fresh(self, n, elem=(), funcs=(), classes=()):
        return AV([("F", self.site(n))], elem, funcs, classes)

    def analyse(self):
        f = self.f
        # default values of a nested function / lambda are evaluated in the enclosing scope when the
        # definition is executed (`lambda x, g=g: ...`): a parameter that call sites leave unbound
        # holds that value
        dflt = {}
        if f.parent is not None:
            for name, d in f.defaults().items():
                if d is not None and not isinstance(d, ast.Constant):
                    dflt[name] = self.ev(d)
        for i, p in enumerate(f.allparams):
            if f.is_method and i == 0:
                cls = f.cls
                self.env[p] = AV(own=[("SELF",)], classes=[cls] if not f.is_classmethod else [])
                if f.is_classmethod:
                    self.env[p] = AV(own=[("C",)], funcs=[("class", k) for k in self.repo.subclasses(cls)
                                                         if not self.repo.is_abstract_class(k)])
            else:
                self.env[p] = AV(own=[("P", f.qual, p)], elem=[("PE", f.qual, p)],
                                 funcs=self.eng.PARAMFUNCS[(f.qual, p)],
                                 classes=self.eng.PARAMCLS[(f.qual, p)])
                if p in dflt:
                    self.env[p] = self.env[p].join(dflt[p])
        if f.is_lambda:
            v = self.ev(f.node.body)
            self.set_ret(v)
        else:
            self.run(f.node.body)
        newfinal = self.joinenv(self.S.env_final, self.env) if self.S.env_final else dict(self.env)
        if newfinal != self.S.env_final:
            self.S.env_final = newfinal
            self.eng.touch()

    def set_ret(self, v):
        new = self.S.ret.join(v)
        if new != self.S.ret:
            self.S.ret = new
            self.eng.touch()

    # ------------------------------------------------------------------ environment
    def lookup(self, name, node):
        if name in self.env:
            return self.env[name]
        p = self.f.parent
        while p is not None:
            ef = self.eng.st[p.qual].env_final
            if name in ef:
                return ef[name]
            p = p.parent
        r = self.repo.lookup_name(self.f.module, name)
        if r is None:
            return CONST
        if r[0] == "func":
            return AV(funcs=[r[1].qual])
        if r[0] == "class":
            return AV(funcs=[("class", r[1].name)])
        if r[0] == "global":
            return self.eng.GLOB.get((r[1], r[2]), CONST)
        return CONST

    def is_lib_root(self, e):
        root = e
        while isinstance(root, ast.Attribute):
            root = root.value
        if isinstance(root, ast.Name) and root.id not in self.env:
            if self._in_parent_env(root.id):
                return False
            return root.id in self.mod.lib_imports or root.id in LIB_ROOTS_EXTRA
        return False

    def _in_parent_env(self, name):
        p = self.f.parent
        while p is not None:
            if name in self.eng.st[p.qual].env_final:
                return True
            p = p.parent
        return False

    def self_classes(self):
        c = self.f.cls_ctx()
        if c is None:
            return []
        return list(dict.fromkeys(self.repo.subclasses(c) + self.repo.mro(c)))

    # ------------------------------------------------------------------ sinks / escapes
    def sink(self, av, node, what, only_ext_objects=False, kind="write", via=None):
        bad = [o for o in av.own if o[0] in ("P", "PE", "CB", "G", "GE", "GT")]
        if only_ext_objects:
            bad = [o for o in bad if o[0] in EXT_KINDS]
        key = (getattr(node, "lineno", 0), getattr(node, "col_offset", 0), kind)
        rec = self.S.sink_sites.setdefault(key, {"what": what, "origins": set(), "where": self.where(node),
                                                 "text": norm(node)[:120]})
        rec["origins"] |= set(av.own)
        # an object created here but (also) stored in module-level state is shared from the
        # store onwards: a later write changes what the cache hands out
        for o in av.own:
            if o[0] in ("F", "L") and o in self.eng.SHARED_F:
                (gm, gn), sq, sline = self.eng.SHARED_OWNER[o]
                if sq != self.f.qual or getattr(node, "lineno", 0) > sline:
                    bad.append(("GE", gm, gn))
        for o in bad:
            chain = (self.f.qual, self.where(node), what, norm(node)[:160], via)
            lst = self.S.mut.setdefault(o, [])
            if chain not in lst:
                lst.append(chain)
                self.eng.touch()

    def escape(self, av, node, what, via=None):
        if not self.eng.track_escapes:
            return
        for o in av.own:
            if o[0] in ("P", "PE", "G", "GE") or (o[0] in ("F", "L") and o in self.eng.SHARED_F):
                chain = (self.f.qual, self.where(node), what, norm(node)[:160], via)
                lst = self.S.esc.setdefault(o, [])
                if chain not in lst:
                    lst.append(chain)
                    self.eng.touch()

    def _escape_display_elements(self, expr, node, what):
        """A tuple/list/dict display hands out every object it lists."""
        if isinstance(expr, (ast.Tuple, ast.List, ast.Set)):
            for el in expr.elts:
                v = self.ev(el.value if isinstance(el, ast.Starred) else el)
                self.escape(v, node, what)
                self._escape_display_elements(el, node, what)
        elif isinstance(expr, ast.Dict):
            for el in expr.values:
                if el is not None:
                    self.escape(self.ev(el), node, what)

    # ------------------------------------------------------------------ binding
    def bind(self, target, av, node):
        if isinstance(target, ast.Name):
            if target.id in getattr(self, "_globals_decl", ()):
                self.store_global(self.f.module, target.id, av, node, rebinding=True)
                return
            self.env[target.id] = av
        elif isinstance(target, (ast.Tuple, ast.List)):
            for e in target.elts:
                if isinstance(e, ast.Starred):
                    e = e.value
                self.bind(e, av.contents(), node)
        elif isinstance(target, ast.Attribute):
            base = target.value
            if isinstance(base, ast.Name) and base.id == "self" and self.f.cls_ctx() and "self" not in \
                    [p for p in self.f.allparams[1:]]:
                c = self.f.cls_ctx()
                setter = self.repo.resolve_setter(c, target.attr)
                getter = self.repo.resolve_method(c, target.attr)
                if setter is not None and getter is not None and getter.is_property:
                    recv = self.env.get("self", AV(own=[("SELF",)], classes=[c]))
                    self.instantiate(setter, [recv, av], {}, node)
                    # invalidate flow-sensitive knowledge of fields the setter may write
                    for k in [k for k in self.env if k.startswith("self.")]:
                        del self.env[k]
                    return
                self.env["self." + target.attr] = av
                self.escape(av, node, f"store into field {target.attr}")
                if isinstance(node, ast.Assign):
                    self._escape_display_elements(node.value, node, f"store into field {target.attr} (inside a tuple/list)")
                old = self.eng.FIELD[(c, target.attr)]
                new = old.join(av)
                if new != old:
                    self.eng.FIELD[(c, target.attr)] = new
                    self.eng.touch()
            else:
                bav = self.ev(base)
                # property setter on a repo object?
                handled = False
                for k in bav.classes:
                    setter = self.repo.resolve_setter(k, target.attr) if k in self.repo.classes else None
                    if setter is not None:
                        self.instantiate(setter, [bav, av], {}, node)
                        handled = True
                if not handled:
                    for k in bav.classes:
                        if k in self.repo.classes:
                            old = self.eng.FIELD[(k, target.attr)]
                            new = old.join(av)
                            if new != old:
                                self.eng.FIELD[(k, target.attr)] = new
                                self.eng.touch()
                # attribute store on an object the caller owns mutates that object (also when it goes
                # through a property setter of a repo class)
                self.sink(bav, node, f"attribute store {norm(target)}", only_ext_objects=True,
                          kind="attrstore")
        elif isinstance(target, ast.Subscript):
            bav = self.ev(target.value)
            self.ev(target.slice)
            self.sink(bav, node, "subscript store " + norm(target)[:60], kind="substore")
            self.add_elem(target.value, av, node)
        elif isinstance(target, ast.Starred):
            self.bind(target.value, av, node)

    def store_global(self, module, name, av, node, rebinding=False):
        key = (module, name)
        g = self.eng.GLOB.get(key, BOT)
        o = ("G", module, name)
        ge = ("GE", module, name)
        stored = {x for x in av.own | av.elem if x[0] not in ("C", "T")}
        new = AV(g.own | {o}, g.elem | stored | ({ge} if stored else set()), g.funcs | av.funcs, g.classes | av.classes)
        unfrozen = {x for x in stored if not (x[0] == "FROZEN" or x in self.eng.FROZEN_SITES)}
        if unfrozen and key not in self.eng.UNFROZEN_STORE:
            self.eng.UNFROZEN_STORE[key] = (self.f.qual, self.where(node), norm(node)[:120])
            self.eng.touch()
        self.eng.STORE_SITES.setdefault(key, set()).add((self.f.qual, self.where(node), norm(node)[:120]))
        for vo in unfrozen:
            if vo[0] in ("F", "L") and vo not in self.eng.SHARED_F:
                self.eng.SHARED_F.add(vo)
                self.eng.SHARED_OWNER[vo] = (key, self.f.qual, getattr(node, "lineno", 0))
                self.eng.touch()
        if new != g:
            self.eng.GLOB[key] = new
            self.eng.touch()

    def add_elem(self, container_expr, av, node):
        add = av.own | av.elem
        if isinstance(container_expr, ast.Name) and container_expr.id in self.env:
            old = self.env[container_expr.id]
            self.env[container_expr.id] = AV(old.own, old.elem | add, old.funcs | av.funcs, old.classes)
        elif (isinstance(container_expr, ast.Attribute) and isinstance(container_expr.value, ast.Name)
              and container_expr.value.id == "self"):
            k = "self." + container_expr.attr
            if k in self.env:
                old = self.env[k]
                self.env[k] = AV(old.own, old.elem | add, old.funcs | av.funcs, old.classes)
            c = self.f.cls_ctx()
            if c:
                old = self.eng.FIELD[(c, container_expr.attr)]
                new = AV(old.own, old.elem | add, old.funcs | av.funcs, old.classes)
                if new != old:
                    self.eng.FIELD[(c, container_expr.attr)] = new
                    self.eng.touch()
        bav = self.ev(container_expr)
        for o in bav.own:
            if o[0] == "G":
                self.store_global(o[1], o[2], av, node)
            elif o[0] == "P" and o[1] == self.f.qual:
                # a store into a container that is a parameter: when a caller binds the parameter to module state, the
                # store is a store into that state (replayed at the call site, see instantiate)
                rec = (o[2], frozenset(av.own | av.elem), self.where(node), norm(node)[:120])
                if rec not in self.S.param_stores:
                    self.S.param_stores.add(rec)
                    self.eng.touch()

    # ------------------------------------------------------------------ expressions
    def ev(self, e):
        m = getattr(self, "ev_" + type(e).__name__, None)
        if m is None:
            for ch in ast.iter_child_nodes(e):
                if isinstance(ch, ast.expr):
                    self.ev(ch)
            return self.fresh(e)
        return m(e)

    def ev_Constant(self, e):
        return CONST

    def ev_JoinedStr(self, e):
        for v in e.values:
            if isinstance(v, ast.FormattedValue):
                self.ev(v.value)
        return CONST

    def ev_FormattedValue(self, e):
        self.ev(e.value)
        return CONST

    def ev_Name(self, e):
        return self.lookup(e.id, e)

    def ev_BinOp(self, e):
        self.ev(e.left)
        self.ev(e.right)
        return self.fresh(e)

    def ev_UnaryOp(self, e):
        self.ev(e.operand)
        return self.fresh(e)

    def ev_Compare(self, e):
        self.ev(e.left)
        for c in e.comparators:
            self.ev(c)
        return self.fresh(e)

    def ev_BoolOp(self, e):
        return joinall(self.ev(v) for v in e.values)

    def ev_IfExp(self, e):
        self.ev(e.test)
        return self.ev(e.body).join(self.ev(e.orelse))

    def ev_Tuple(self, e):
        vs = [self.ev(x.value if isinstance(x, ast.Starred) else x) for x in e.elts]
        j = joinall(vs)
        # a tuple display is an immutable container ("T"); list/set displays are Python containers
        # ("L"): like "F" they are created here, but their identity does not flow into their elements
        kind = "T" if isinstance(e, ast.Tuple) else "L"
        return AV([(kind, self.site(e))], j.own | j.elem, j.funcs, ())

    ev_List = ev_Tuple
    ev_Set = ev_Tuple

    def ev_Dict(self, e):
        vs = [self.ev(x) for x in e.values if x is not None] + [self.ev(k) for k in e.keys if k is not None]
        j = joinall(vs)
        return AV([("L", self.site(e))], j.own | j.elem, j.funcs, ())

    def ev_Starred(self, e):
        return self.ev(e.value)

    def ev_Slice(self, e):
        for x in (e.lower, e.upper, e.step):
            if x is not None:
                self.ev(x)
        return CONST

    def ev_NamedExpr(self, e):
        v = self.ev(e.value)
        self.bind(e.target, v, e)
        return v

    def ev_Await(self, e):
        return self.ev(e.value)

    def ev_Yield(self, e):
        if e.value is not None:
            v = self.ev(e.value)
            self.set_ret(AV([("F", self.site(e))], v.own | v.elem, v.funcs, ()))
        return CONST

    def ev_YieldFrom(self, e):
        v = self.ev(e.value)
        self.set_ret(AV([("F", self.site(e))], v.own | v.elem, v.funcs, ()))
        return CONST

    def comp(self, e, elt_fn):
        saved = dict(self.env)
        for g in e.generators:
            it = self.ev(g.iter)
            self.bind(g.target, it.contents(), e)
            for c in g.ifs:
                self.ev(c)
        r = elt_fn()
        self.env = saved
        return AV([("L", self.site(e))], r.own | r.elem, r.funcs, ())

    def ev_ListComp(self, e):
        return self.comp(e, lambda: self.ev(e.elt))

    ev_SetComp = ev_ListComp
    ev_GeneratorExp = ev_ListComp

    def ev_DictComp(self, e):
        return self.comp(e, lambda: self.ev(e.key).join(self.ev(e.value)))

    def ev_Lambda(self, e):
        return AV(funcs=[self.repo.by_node[id(e)].qual])

    def is_fancy(self, s):
        """Index expressions that make NumPy return a copy (boolean / integer-array indexing)."""
        if isinstance(s, (ast.Compare, ast.BoolOp, ast.List, ast.ListComp)):
            return True
        if isinstance(s, ast.UnaryOp) and isinstance(s.op, ast.Invert):
            return True
        if isinstance(s, ast.Call):
            # index arrays: np.where(...), np.arange(...), np.array(...), mask-producing functions;
            # other calls (bisect_left, int, len, ...) produce a scalar position
            fn = norm(s.func).split(".")[-1]
            return fn in ("where", "arange", "array", "asarray", "nonzero", "flatnonzero", "argwhere", "argsort",
                          "unique", "isin", "isnan", "isfinite", "isinf", "logical_and", "logical_or", "logical_not",
                          "ix_", "triu_indices", "tril_indices", "searchsorted", "digitize", "argmax", "argmin",
                          "query_ball_point", "astype", "tolist", "list")
        if isinstance(s, ast.Tuple):
            return any(self.is_fancy(x) for x in s.elts)
        return False

    def ev_Subscript(self, e):
        b = self.ev(e.value)
        self.ev(e.slice)
        if isinstance(e.value, ast.Name) and not isinstance(e.slice, ast.Slice):
            exact = self.__dict__.get("_cdispval", {}).get(e.value.id)
            if exact is not None and e.value.id in self._const_displays():
                return exact
        if self.is_fancy(e.slice):
            return AV([("F", self.site(e))], b.elem, b.funcs, ())
        return b.contents()

    def prop_or_field(self, recv, classes, attr, node):
        """Value of ``recv.attr`` for receiver classes ``classes`` (getter result or field)."""
        out = BOT
        hit = False
        seen = set()
        for k in classes:
            pf = self.repo.resolve_method(k, attr)
            if pf is not None:
                if pf.qual in seen:
                    hit = True
                    continue
                seen.add(pf.qual)
                hit = True
                if pf.is_property:
                    out = out.join(self.instantiate(pf, [recv], {}, node))
                else:
                    out = out.join(AV(funcs=[pf.qual]))
            else:
                fv = self.eng.FIELD.get((k, attr))
                if fv is not None:
                    hit = True
                    out = out.join(fv)
        return out, hit

    def ev_Attribute(self, e):
        if self.is_lib_root(e):
            return CONST
        if e.attr == "__class__":
            b = self.ev(e.value)
            ks = [k for k in b.classes if k in self.repo.classes]
            if not ks and ("SELF",) in b.own:
                ks = [k for k in self.repo.subclasses(self.f.cls_ctx())]
            return AV(own=[("C",)], funcs=[("class", k) for k in ks if not self.repo.is_abstract_class(k)])
        if isinstance(e.value, ast.Name) and e.value.id == "self" and self.f.cls_ctx() and \
                "self" in self.env and ("SELF",) in self.env["self"].own:
            k = "self." + e.attr
            if k in self.env:
                return self.env[k]
            recv = self.env["self"]
            out, hit = self.prop_or_field(recv, self.self_classes(), e.attr, e)
            if hit:
                return out
            return BOT
        b = self.ev(e.value)
        if e.attr in CONST_ATTRS:
            return CONST
        if e.attr in VIEW_ATTRS:
            return AV(b.own, b.elem, b.funcs, ())
        if e.attr == "__class__":
            return AV(own=[("C",)], funcs=[("class", k) for k in b.classes] or
                      [("class", k) for k in self.self_classes() if ("SELF",) in b.own])
        out = BOT
        hit = False
        known = [k for k in b.classes if k in self.repo.classes]
        if known:
            classes = []
            for k in known:
                for s in self.repo.subclasses(k):
                    if s not in classes:
                        classes.append(s)
            out, hit = self.prop_or_field(b, classes, e.attr, e)
        else:
            # receiver class unknown: class-hierarchy analysis by attribute name
            seen = set()
            for pf in self.repo.methods_by_name.get(e.attr, []):
                if pf.is_property and pf.qual not in seen:
                    seen.add(pf.qual)
                    hit = True
                    out = out.join(self.instantiate(pf, [b], {}, e))
            if not hit:
                for (c, a), v in list(self.eng.FIELD.items()):
                    if a == e.attr:
                        out = out.join(v)
                        hit = True
        ext = [o for o in b.own if o[0] in ("P", "PE", "CB", "G", "GE")]
        if ext:
            # attribute of a caller-owned object is caller-owned as well
            ext_e = {("PE", o[1], o[2]) if o[0] in ("P", "PE") else (("GE", o[1], o[2]) if o[0] == "G" else o)
                     for o in ext}
            out = out.join(AV(ext_e, ext_e))
        if not hit and not ext:
            out = AV(b.own, b.elem, b.funcs, ())
        return out

    # ------------------------------------------------------------------ calls
    def ev_Call(self, e):
        args = [self.ev(a.value if isinstance(a, ast.Starred) else a) for a in e.args]
        star_pos = [isinstance(a, ast.Starred) for a in e.args]
        kws = {}
        starkw = BOT
        for k in e.keywords:
            v = self.ev(k.value)
            if k.arg is None:
                starkw = starkw.join(v)
            else:
                kws[k.arg] = v
        # *args: contents of the starred container are the positional arguments
        if any(star_pos):
            args = [a.contents() if s else a for a, s in zip(args, star_pos)]
        fn = e.func
        if "out" in kws:
            self.sink(kws["out"], e, "out= argument", kind="out")
        if isinstance(fn, ast.Attribute):
            if self.is_lib_root(fn):
                return self.lib_call(e, fn, args, kws, star_pos)
            # super().m(...)
            if isinstance(fn.value, ast.Call) and isinstance(fn.value.func, ast.Name) and fn.value.func.id == "super":
                c = self.f.cls_ctx()
                if c:
                    recv = self.env.get("self", AV(own=[("SELF",)], classes=[c]))
                    # super() in class c: continue after c in the MRO of every concrete receiver
                    out = BOT
                    hit = False
                    seen = set()
                    for k in self.repo.subclasses(c):
                        mf = self.repo.resolve_method(k, fn.attr, start_after=c)
                        if mf is not None and mf.qual not in seen:
                            seen.add(mf.qual)
                            hit = True
                            out = out.join(self.instantiate(mf, [recv] + args, kws, e, starkw))
                    if hit:
                        # fields written by the super call are no longer known precisely
                        for k in [k for k in self.env if k.startswith("self.")]:
                            del self.env[k]
                        return out
                return self.fresh(e)
            recv = self.ev(fn.value)
            name = fn.attr
            # self.m(...) / cls.m(...)
            if isinstance(fn.value, ast.Name) and fn.value.id in ("self", "cls") and self.f.cls_ctx() \
                    and (("SELF",) in recv.own or fn.value.id == "cls"):
                cands = []
                for k in self.self_classes():
                    mf = self.repo.resolve_method(k, name)
                    if mf is not None and mf not in cands:
                        cands.append(mf)
                if cands:
                    out = BOT
                    for mf in cands:
                        if mf.is_property:
                            out = out.join(self.call_value(self.instantiate(mf, [recv], {}, e), args, kws, e, starkw))
                            continue
                        bound = [recv] + args if mf.is_method else args
                        out = out.join(self.instantiate(mf, bound, kws, e, starkw))
                    # a method call may rebind fields: forget exactly those the callees (transitively) assign
                    mod = set()
                    for mf in cands:
                        mod |= self.eng.rebinds(mf)
                    for k in [k for k in self.env if k.startswith("self.") and ("*" in mod or k[5:] in mod)]:
                        del self.env[k]
                    return out
                fav = self.ev_Attribute(fn)
                if fav.funcs:
                    return self.call_value(fav, args, kws, e, starkw)
            # ClassName.m(...)
            if isinstance(fn.value, ast.Name) and fn.value.id not in self.env:
                r = self.repo.lookup_name(self.f.module, fn.value.id)
                if r and r[0] == "class":
                    mf = self.repo.resolve_method(r[1].name, name)
                    if mf is not None:
                        if mf.is_classmethod:
                            bound = [AV(own=[("C",)], funcs=[("class", r[1].name)])] + args
                        else:
                            bound = args  # static method, or unbound call with explicit self
                        return self.instantiate(mf, bound, kws, e, starkw)
            # mutators (by name: a new mutator on any receiver is caught)
            if name in MUT_METHODS:
                known = [k for k in recv.classes if k in self.repo.classes]
                if not (known and all(self.repo.resolve_method(k, name) for k in known)):
                    if name == "setflags" and self._is_freeze(e):
                        return self.freeze(recv, fn.value, e)
                    self.sink(recv, e, f".{name}() mutator", kind="mutcall")
                    if name in ("append", "extend", "insert", "update", "setdefault", "add", "appendleft"):
                        self.add_elem(fn.value, joinall(args + list(kws.values())), e)
                    if name in ("pop", "setdefault", "popitem", "popleft"):
                        return AV(recv.elem, recv.elem, recv.funcs, ())
                    return CONST
            # repo methods on a receiver of known class
            known = [k for k in recv.classes if k in self.repo.classes]
            if known:
                out = BOT
                hit = False
                seen = set()
                for k0 in known:
                    for k in self.repo.subclasses(k0):
                        mf = self.repo.resolve_method(k, name)
                        if mf is not None and mf.qual not in seen:
                            seen.add(mf.qual)
                            hit = True
                            if mf.is_property:
                                out = out.join(self.call_value(self.instantiate(mf, [recv], {}, e), args, kws, e, starkw))
                            else:
                                bound = [recv] + args if mf.is_method else args
                                out = out.join(self.instantiate(mf, bound, kws, e, starkw))
                if hit:
                    return out
                fv = joinall(self.eng.FIELD.get((k, name), BOT) for k in known)
                if fv.funcs:
                    return self.call_value(fv, args, kws, e, starkw)
            if name == "astype" and any(k.arg == "copy" and isinstance(k.value, ast.Constant)
                                        and k.value.value is False for k in e.keywords):
                return AV(recv.own | {("F", self.site(e))}, recv.elem, recv.funcs, ())
            if name in FRESH_METHODS:
                # x.copy(): deep for ndarrays (the dominant case in this package), shallow for Python
                # containers -- the contents are kept only when the receiver is known to be one
                pycont = any(o[0] in ("T", "L") for o in recv.own) or ("py",) in recv.classes or \
                    (isinstance(fn.value, ast.Name) and self._is_py_container_name(fn.value.id))
                keep = name == "tolist" or (name == "copy" and pycont)
                return AV([("F", self.site(e))], recv.elem if keep else (), recv.funcs if keep else (),
                          recv.classes if name == "copy" else ())
            if name in VIEW_METHODS:
                return recv.contents()
            # class-hierarchy analysis by method name
            cands = [mf for mf in self.repo.methods_by_name.get(name, []) if not mf.is_property]
            if cands and not known:
                out = BOT
                for mf in cands:
                    if mf.is_classmethod:
                        bound = [AV(own=[("C",)], funcs=[("class", mf.cls)])] + args
                    elif mf.is_method:
                        bound = [recv] + args
                    else:
                        bound = args
                    out = out.join(self.instantiate(mf, bound, kws, e, starkw))
                return out
            if recv.funcs:
                # calling a callable stored in a container/attribute, e.g. obj.fn(...)
                fav = self.ev_Attribute(fn)
                if fav.funcs:
                    return self.call_value(fav, args, kws, e, starkw)
            self.eng.unresolved[f".{name}()"] += 1
            ext = {o for o in recv.own if o[0] in ("P", "PE", "CB", "G", "GE")}
            if any(o[0] in ("P", "PE") for o in recv.own):
                # unknown method of a caller-supplied object: a user callback
                cbs = {("CB", o[1], o[2]) for o in recv.own if o[0] in ("P", "PE")}
                return AV(ext | cbs | {("F", self.site(e))}, recv.elem | cbs, ())
            return AV(ext | {("F", self.site(e))}, recv.elem, ())
        # plain call f(...)
        if isinstance(fn, ast.Name) and fn.id not in self.env and not self._in_parent_env(fn.id):
            r = self.repo.lookup_name(self.f.module, fn.id)
            if r is None or r[0] == "lib":
                return self.builtin_or_lib_name_call(e, fn.id, r, args, kws)
        fav = self.ev(fn)
        return self.call_value(fav, args, kws, e, starkw)

    def _is_py_container_name(self, name):
        """Was the local name last bound to a list/dict/set display or comprehension?"""
        return name in getattr(self, "_pycont", set())

    def _is_freeze(self, e):
        for k in e.keywords:
            if k.arg == "write" and isinstance(k.value, ast.Constant) and k.value.value in (False, 0):
                return True
        if e.args and isinstance(e.args[0], ast.Constant) and e.args[0].value in (False, 0):
            return True
        return False

    def freeze(self, recv, recv_expr, e):
        """x.setflags(write=False): the object becomes immutable; from here on it may be shared."""
        for o in recv.own:
            if o[0] == "F":
                self.eng.FROZEN_SITES.add(o)
                if o in self.eng.SHARED_F:
                    self.eng.SHARED_F.discard(o)
        if any(o[0] in EXT_KINDS for o in recv.own):
            self.sink(recv, e, "setflags on a caller-owned array", kind="mutcall")
        if isinstance(recv_expr, ast.Name) and recv_expr.id in self.env:
            self.env[recv_expr.id] = AV([("FROZEN", self.site(e))], (), (), ())
        return CONST

    def builtin_or_lib_name_call(self, e, name, r, args, kws):
        j = joinall(args + list(kws.values()))
        for a in args + list(kws.values()):
            for q in a.funcs:
                if isinstance(q, str):
                    self.eng.escaping.add(q)
        if r is None:
            if name in BUILTIN_FRESH_CONTAINER:
                keep_own = name in ("zip", "enumerate", "iter", "reversed", "map", "filter", "next")
                if name == "next":
                    return j.contents()
                return AV([("T" if name in ("tuple", "frozenset") else "L", self.site(e))],
                          j.elem | (j.own if keep_own else frozenset()), j.funcs, ())
            if name in BUILTIN_CONST:
                return CONST
            if name == "super":
                return AV(own=[("SELF",)])
            self.eng.unresolved[f"{name}()"] += 1
            return self.fresh(e)
        # a third-party callable imported by name (cKDTree, CubicSpline, solve_ivp, bell, ...)
        dotted = r[1]
        last = dotted.split(".")[-1]
        if last in LIB_MUTATORS and args:
            self.sink(args[LIB_MUTATORS[last]], e, f"{last} destination", kind="libmut")
        if last in VIEW_FUNCS:
            a0 = args[0] if args else BOT
            return AV(a0.own | {("F", self.site(e))}, a0.elem, a0.funcs, ())
        if last in LIB_CONTAINER_ALIAS:
            return AV([("F", self.site(e))], j.own | j.elem, j.funcs, ())
        return AV([("F", self.site(e))], (), (), [("lib", last)])

    def lib_call(self, e, fn, args, kws, star_pos):
        name = fn.attr
        vals = args + list(kws.values())
        self.eng.lib_seen.setdefault(norm(fn), (
            "mutating" if name in LIB_MUTATORS or name == "at" else
            "view-returning" if name in VIEW_FUNCS else
            "container-aliasing" if name in LIB_CONTAINER_ALIAS else
            "fresh" if name in KNOWN_FRESH_LIB or name == "array" else "defaulted-fresh"))
        if name in MUT_METHODS and name not in LIB_MUTATORS:
            # false friend: np.sort(x) / np.partition(x) are functions returning a new array
            self.S.sink_sites.setdefault((e.lineno, e.col_offset, "mutcall"), {
                "what": f"library function {norm(fn)} (returns a new object, not the method)",
                "origins": {("C",)}, "where": self.where(e), "text": norm(e)[:120]})
        # closures handed to a library higher-order function are called with library-owned data
        for a in vals:
            for q in a.funcs:
                if isinstance(q, str):
                    self.eng.escaping.add(q)
        if name in LIB_MUTATORS and args:
            self.sink(args[LIB_MUTATORS[name]], e, f"np.{name} destination", kind="libmut")
        if name in UFUNC_BINARY and len(args) >= 3:
            # np.multiply(a, b, a): the third positional argument of a binary ufunc is `out`
            self.sink(args[2], e, f"positional out argument of np.{name}", kind="out")
        if name in UFUNC_UNARY and len(args) >= 2:
            self.sink(args[1], e, f"positional out argument of np.{name}", kind="out")
        if name in ("nan_to_num",) and args and any(
                k.arg == "copy" and isinstance(k.value, ast.Constant) and k.value.value is False for k in e.keywords):
            self.sink(args[0], e, "np.nan_to_num(copy=False) rewrites its argument", kind="libmut")
        for k in e.keywords:
            # scipy.linalg style: overwrite_a=True / overwrite_b=True let the routine destroy its input
            if k.arg and k.arg.startswith("overwrite_") and not (isinstance(k.value, ast.Constant) and not k.value.value):
                which = k.arg[len("overwrite_"):]
                pos = {"a": 0, "b": 1, "ab": 0, "x": 0, "input": 0, "data": 0}.get(which, 0)
                if pos < len(args):
                    self.sink(args[pos], e, f"{norm(fn)}({k.arg}=True) may destroy its argument", kind="libmut")
        if name == "at" and args:  # ufunc.at(a, idx, b)
            self.sink(args[0], e, "ufunc.at destination", kind="libmut")
        if name in VIEW_FUNCS:
            a0 = args[0] if args else (kws.get("a") or BOT)
            if e.args and isinstance(e.args[0], (ast.List, ast.ListComp, ast.Tuple, ast.GeneratorExp)):
                return AV([("F", self.site(e))], a0.elem, a0.funcs, ())
            if name in ("asarray", "asanyarray", "ascontiguousarray", "atleast_1d", "atleast_2d") and \
                    a0.classes and all(k == ("py",) for k in a0.classes):
                # converting a pure-Python (JSON) sequence always allocates a new array
                return AV([("F", self.site(e))], (), a0.funcs, ())
            return AV(a0.own | {("F", self.site(e))}, a0.elem, a0.funcs, ())
        if name == "array":
            cp = None
            for k in e.keywords:
                if k.arg == "copy":
                    cp = k.value
            if cp is not None and not (isinstance(cp, ast.Constant) and cp.value is True):
                a0 = args[0] if args else BOT
                return AV(a0.own | {("F", self.site(e))}, a0.elem, a0.funcs, ())
            return self.fresh(e)
        j = joinall(vals)
        if name in LIB_CONTAINER_ALIAS:
            return AV([("F", self.site(e))], j.own | j.elem, j.funcs, ())
        if name in ("load", "loads") and norm(fn).startswith("json."):
            # JSON can only produce dict/list/str/number objects, never an ndarray
            return AV([("F", self.site(e))], (), (), [("py",)])
        if name in ("load", "loads"):
            return self.fresh(e)
        root = fn
        while isinstance(root, ast.Attribute):
            root = root.value
        dotted = norm(fn)
        if name not in KNOWN_FRESH_LIB:
            self.eng.defaulted_lib[dotted] += 1
        return AV([("F", self.site(e))], (), (), [("lib", name)])

    def call_value(self, fav, args, kws, e, starkw=BOT):
        out = BOT
        hit = False
        for q in fav.funcs:
            hit = True
            if isinstance(q, tuple) and q[0] == "class":
                cname = q[1]
                init = self.repo.resolve_method(cname, "__init__")
                obj = AV(own=[("F", self.site(e))], classes=[cname])
                if init is not None:
                    self.instantiate(init, [obj] + args, kws, e, starkw)
                out = out.join(obj)
            else:
                g = self.repo.funcs[q]
                out = out.join(self.instantiate(g, args, kws, e, starkw))
        cb = [o for o in fav.own if o[0] in ("P", "PE")]
        for o in cb:
            hit = True
            c = ("CB", o[1], o[2])
            out = out.join(AV(own=[c], elem=[c]))
            # arguments handed to a user callback stay readable by the caller, not writable by us
        for o in fav.own:
            if o[0] == "CB":
                hit = True
                out = out.join(AV(own=[o], elem=[o]))
        if any(k[0] == "lib" for k in fav.classes if isinstance(k, tuple)):
            hit = True  # calling a library object (spline, interpolator, OdeSolution): fresh result
            out = out.join(self.fresh(e))
        if not hit:
            if any(o[0] in ("F", "L") for o in fav.own) or not fav.own:
                self.eng.unresolved["<value call> " + norm(e.func)[:40]] += 1
            return self.fresh(e)
        return out

    def instantiate(self, g, args, kws, e, starkw=BOT):
        """Apply g's parametric summary at this call site."""
        eng = self.eng
        binding = {}
        names = g.allparams
        for i, a in enumerate(args):
            if i < len(g.params):
                binding[g.params[i]] = a
            elif g.vararg:
                old = binding.get(g.vararg, BOT)
                binding[g.vararg] = old.join(AV(own=[("F", "varargs")], elem=a.own | a.elem, funcs=a.funcs))
        for k, v in kws.items():
            if k in names and k != g.vararg and k != g.kwarg:
                binding[k] = v
            elif g.kwarg:
                old = binding.get(g.kwarg, BOT)
                binding[g.kwarg] = old.join(AV(own=[("F", "kwargs")], elem=v.own | v.elem, funcs=v.funcs))
        if starkw.own or starkw.elem:
            for k in names:
                if k not in binding:
                    binding[k] = AV(starkw.elem, starkw.elem, starkw.funcs, ())
        for k, v in binding.items():
            key = (g.qual, k)
            if not v.funcs <= eng.PARAMFUNCS[key]:
                eng.PARAMFUNCS[key] = eng.PARAMFUNCS[key] | v.funcs
                eng.touch()
            if not v.classes <= eng.PARAMCLS[key]:
                eng.PARAMCLS[key] = eng.PARAMCLS[key] | v.classes
                eng.touch()
        gst = eng.st[g.qual]

        def subst(origins):
            out = set()
            for o in origins:
                if o[0] == "P" and o[1] == g.qual:
                    b = binding.get(o[2])
                    if b is not None:
                        out |= b.own
                elif o[0] == "PE" and o[1] == g.qual:
                    b = binding.get(o[2])
                    if b is not None:
                        out |= b.elem
                        out |= {("PE", x[1], x[2]) if x[0] == "P" else x for x in b.own if x[0] != "C"
                                and x[0] != "F"}
                elif o[0] == "CB" and o[1] == g.qual:
                    b = binding.get(o[2])
                    if b is not None:
                        for q in b.funcs:
                            if isinstance(q, str):
                                r = eng.st[q].ret
                                out |= {x for x in r.own if not (x[0] in ("P", "PE") and x[1] == q)}
                                # a repo closure returning one of *its* parameters returns what we
                                # passed it; conservatively treated as fresh here
                            elif isinstance(q, tuple) and q[0] == "class":
                                out.add(("F", "instance:" + q[1]))
                        for p in b.own | b.elem:
                            if p[0] in ("P", "PE"):
                                out.add(("CB", p[1], p[2]))
                            elif p[0] == "CB":
                                out.add(p)
                elif o[0] == "SELF":
                    b = binding.get(g.params[0]) if g.params else None
                    if b is not None and g.is_method:
                        out |= b.own
                    else:
                        out.add(o)
                else:
                    out.add(o)
            return out

        r = gst.ret
        fset = set(r.funcs)
        cset = set(r.classes)
        for o in r.own | r.elem:
            if o[0] in ("P", "PE") and o[1] == g.qual and o[2] in binding:
                fset |= binding[o[2]].funcs
                cset |= binding[o[2]].classes
        res = AV(subst(r.own), subst(r.elem), fset, cset)
        for o, chains in list(gst.mut.items()):
            if o[0] in ("P", "PE", "CB") and o[1] == g.qual:
                tgt = subst([o])
                c0 = chains[0]
                self.sink(AV(own=tgt), e,
                          f"call {g.qual} (writes its argument '{o[2]}' at {c0[1]}: {c0[3][:70]})",
                          kind="call:" + g.qual + ":" + o[2] + ":" + o[0], via=(g.qual, o))
            elif o[0] == "SELF" and g.is_method:
                pass
        for pname, stored, where_, text in list(gst.param_stores):
            b = binding.get(pname)
            if b is None:
                continue
            sav = AV(own=subst(stored))
            for o in b.own:
                if o[0] == "G":
                    self.store_global(o[1], o[2], sav, e)
                elif o[0] == "P" and o[1] == self.f.qual:
                    rec = (o[2], frozenset(sav.own | sav.elem), where_, text)
                    if rec not in self.S.param_stores:
                        self.S.param_stores.add(rec)
                        self.eng.touch()
        for o, chains in list(gst.esc.items()):
            if o[0] in ("P", "PE") and o[1] == g.qual:
                tgt = subst([o])
                c0 = chains[0]
                self.escape(AV(own=tgt), e,
                            f"call {g.qual} (its argument '{o[2]}' escapes: {c0[2]} at {c0[1]})",
                            via=(g.qual, o))
        return res

    # ------------------------------------------------------------------ statements
    def run(self, body):
        for s in body:
            self.stmt(s)

    def stmt(self, s):
        m = getattr(self, "st_" + type(s).__name__, None)
        if m:
            m(s)
        else:
            for ch in ast.iter_child_nodes(s):
                if isinstance(ch, ast.expr):
                    self.ev(ch)
                elif isinstance(ch, ast.stmt):
                    self.stmt(ch)

    def st_Expr(self, s):
        self.ev(s.value)

    def _const_displays(self):
        """Local names bound exactly once, to a dict/list/tuple display, and only ever read by
        subscripting / membership / iteration: reading an element of such a table yields exactly one
        of the displayed values (not "a value or its contents", which is all the collapsed container
        model can say)."""
        cache = self.eng.__dict__.setdefault("_cdisp_cache", {})
        cd = cache.get(self.f.qual)
        if cd is not None:
            return cd
        stores, bad, disp = {}, set(), {}
        parents = {}
        for n in ast.walk(self.f.node):
            for ch in ast.iter_child_nodes(n):
                parents[id(ch)] = n
        for n in ast.walk(self.f.node):
            if isinstance(n, ast.Name) and isinstance(n.ctx, (ast.Store, ast.Del)):
                stores[n.id] = stores.get(n.id, 0) + 1
            if isinstance(n, ast.Assign) and len(n.targets) == 1 and isinstance(n.targets[0], ast.Name) and \
                    isinstance(n.value, (ast.Dict, ast.List, ast.Tuple)) and \
                    not any(isinstance(x, ast.Starred) or x is None
                            for x in (n.value.keys if isinstance(n.value, ast.Dict) else n.value.elts)):
                disp[n.targets[0].id] = n
            if isinstance(n, ast.Name) and isinstance(n.ctx, ast.Load):
                par = parents.get(id(n))
                fine = (isinstance(par, ast.Subscript) and par.value is n and isinstance(par.ctx, ast.Load)) or \
                    (isinstance(par, ast.Compare) and n in par.comparators) or \
                    (isinstance(par, (ast.For, ast.comprehension)) and par.iter is n)
                if not fine:
                    bad.add(n.id)
        cd = {k: v for k, v in disp.items() if stores.get(k) == 1 and k not in bad and k not in self.f.allparams}
        cache[self.f.qual] = cd
        return cd

    def _table_lookup_values(self, value):
        """Exact abstract values of `TABLE[key]...` over a module-level literal table (possibly through an
        accessor function and a selector): one value node per key, evaluated and joined -- so that
        `cache = TABLES[method].cache` is one of the cache objects themselves, not "something inside
        the table"."""
        from gridlint import e4
        info = self.eng.__dict__.setdefault("_modtables", {})
        if self.f.module not in info:
            mi = self.mod
            funcs = {g.name: g.node for g in self.repo.funcs.values()
                     if g.module == self.f.module and g.cls is None and not g.is_lambda and isinstance(g.node, ast.FunctionDef)}
            classes = {c_.name: c_ for c_ in mi.tree.body if isinstance(c_, ast.ClassDef)}
            info[self.f.module] = (funcs, classes)
        funcs, classes = info[self.f.module]
        if not any(isinstance(n, ast.Name) and (n.id in funcs or n.id in self.mod.globals) for n in ast.walk(value)):
            return None
        return e4.module_table_lookup(value, self.mod.globals, funcs, classes)

    def st_Assign(self, s):
        sel = self._table_lookup_values(s.value) if isinstance(s.value, (ast.Subscript, ast.Attribute, ast.Call)) else None
        if sel:
            self.ev(s.value)    # effects / sinks of the expression itself
            for t in s.targets:
                if isinstance(t, (ast.Tuple, ast.List)) and all(isinstance(x, ast.Tuple) and len(x.elts) == len(t.elts) for x in sel):
                    for i, tt in enumerate(t.elts):
                        self.bind(tt, joinall(self.ev(x.elts[i]) for x in sel), s)
                else:
                    self.bind(t, joinall(self.ev(x) for x in sel), s)
            return
        v = self.ev(s.value)
        if len(s.targets) == 1 and isinstance(s.targets[0], ast.Name) and \
                self._const_displays().get(s.targets[0].id) is s:
            vals = s.value.values if isinstance(s.value, ast.Dict) else s.value.elts
            self.__dict__.setdefault("_cdispval", {})[s.targets[0].id] = joinall(self.ev(x) for x in vals)
        pc = self.__dict__.setdefault("_pycont", set())
        for t in s.targets:
            if isinstance(t, ast.Name):
                if isinstance(s.value, (ast.List, ast.Dict, ast.Set, ast.ListComp, ast.DictComp, ast.SetComp)) or \
                        (isinstance(s.value, ast.Call) and isinstance(s.value.func, ast.Name)
                         and s.value.func.id in ("list", "dict", "set")):
                    pc.add(t.id)
                else:
                    pc.discard(t.id)
            self.bind(t, v, s)

    def st_AnnAssign(self, s):
        if s.value is not None:
            self.bind(s.target, self.ev(s.value), s)

    def st_AugAssign(self, s):
        v = self.ev(s.value)
        t = s.target
        if isinstance(t, ast.Name):
            cur = self.lookup(t.id, t)
            if not self.scalar_name(t.id, cur):
                self.sink(cur, s, f"augmented assignment to '{t.id}'", kind="aug")
            else:
                self.S.sink_sites.setdefault((s.lineno, s.col_offset, "aug"), {
                    "what": "augmented assignment to scalar name", "origins": {("C",)},
                    "where": self.where(s), "text": norm(s)[:120]})
            self.env[t.id] = AV(cur.own, cur.elem | v.elem, cur.funcs, cur.classes)
        elif isinstance(t, ast.Subscript):
            b = self.ev(t.value)
            self.ev(t.slice)
            self.sink(b, s, "augmented subscript store " + norm(t)[:50], kind="aug")
        elif isinstance(t, ast.Attribute):
            cur = self.ev(t)
            self.sink(cur, s, "augmented assignment to " + norm(t), kind="aug")

    def scalar_name(self, name, cur):
        """Augmented assignment to a bare name is a rebinding when the name holds a scalar."""
        if cur.own and all(o[0] == "C" for o in cur.own):
            return True
        f = self.f
        if name in f.allparams:
            ann = f.annotation(name) or ""
            if ann in ("int", "float", "bool", "str"):
                return True
            d = f.defaults().get(name)
            if isinstance(d, ast.Constant) and isinstance(d.value, (int, float, bool, str)) and d.value is not None:
                return True
        return False

    def st_Delete(self, s):
        for t in s.targets:
            if isinstance(t, ast.Subscript):
                self.sink(self.ev(t.value), s, "del subscript", kind="del")
            elif isinstance(t, ast.Name):
                self.env.pop(t.id, None)
                self.S.sink_sites.setdefault((s.lineno, s.col_offset, "del"), {
                    "what": "del of a local name (unbinding, no write)", "origins": {("C",)},
                    "where": self.where(s), "text": norm(s)[:120]})
            elif isinstance(t, ast.Attribute):
                self.sink(self.ev(t.value), s, "del attribute", only_ext_objects=True, kind="del")

    def st_Return(self, s):
        if s.value is not None:
            v = self.ev(s.value)
            self.set_ret(v)
            if self.repo.is_public(self.f) or self.f.parent is not None:
                self.escape(v, s, "returned to the caller")
                self._escape_display_elements(s.value, s, "returned to the caller (inside a tuple/list)")

    SCALAR_TYPES = {"int", "float", "bool", "str", "complex", "np.integer", "np.floating", "np.int64", "np.int32",
                    "np.float64", "Number", "Real", "Integral", "numbers.Number", "numbers.Real", "numbers.Integral"}

    def _validated_scalars(self, s):
        """Names that are immutable scalars (or None) whenever `if not (<test>): raise` falls through:
        the test is a conjunction/disjunction of `N is None` and `isinstance(N, <scalar types>) ...`."""
        if s.orelse or not (s.body and isinstance(s.body[-1], ast.Raise)):
            return set()
        t = s.test
        if not (isinstance(t, ast.UnaryOp) and isinstance(t.op, ast.Not)):
            return set()
        names = set()

        def scalar_cond(e, name_box):
            if isinstance(e, ast.BoolOp):
                if isinstance(e.op, ast.Or):
                    return all(scalar_cond(v, name_box) for v in e.values)
                return any(scalar_cond(v, name_box) for v in e.values)
            if isinstance(e, ast.Compare) and len(e.ops) == 1 and isinstance(e.ops[0], ast.Is) and \
                    isinstance(e.comparators[0], ast.Constant) and e.comparators[0].value is None and isinstance(e.left, ast.Name):
                name_box.add(e.left.id)
                return True
            if isinstance(e, ast.Call) and norm(e.func) == "isinstance" and len(e.args) == 2 and isinstance(e.args[0], ast.Name):
                types = [x.strip() for x in norm(e.args[1]).strip("()").replace("|", ",").split(",")]
                if types and all(x in self.SCALAR_TYPES for x in types):
                    name_box.add(e.args[0].id)
                    return True
            return False
        box = set()
        if scalar_cond(t.operand, box) and len(box) == 1:
            names |= box
        return names

    def st_If(self, s):
        self.ev(s.test)
        for nm in self._validated_scalars(s):
            # everything after this statement only runs when nm is None or a Python/NumPy scalar
            self.run(s.body)
            self.env[nm] = CONST
            return
        e0 = dict(self.env)
        self.run(s.body)
        e1 = self.env
        self.env = dict(e0)
        self.run(s.orelse)
        e2 = self.env
        b1 = self.terminates(s.body)
        b2 = self.terminates(s.orelse) if s.orelse else False
        if b1 and not b2:
            self.env = e2
        elif b2 and not b1:
            self.env = e1
        else:
            self.env = self.joinenv(e1, e2)

    @staticmethod
    def terminates(body):
        return bool(body) and isinstance(body[-1], (ast.Return, ast.Raise, ast.Continue, ast.Break))

    def joinenv(self, a, b):
        out = {}
        for k in set(a) | set(b):
            if k in a and k in b:
                out[k] = a[k].join(b[k])
            else:
                out[k] = a.get(k) or b.get(k)
        return out

    def st_For(self, s):
        it = self.ev(s.iter)
        for _ in range(2):
            e0 = dict(self.env)
            self.bind(s.target, it.contents(), s)
            self.run(s.body)
            self.env = self.joinenv(e0, self.env)
        self.run(s.orelse)

    def st_While(self, s):
        for _ in range(2):
            e0 = dict(self.env)
            self.ev(s.test)
            self.run(s.body)
            self.env = self.joinenv(e0, self.env)
        self.run(s.orelse)

    def st_With(self, s):
        for it in s.items:
            v = self.ev(it.context_expr)
            if it.optional_vars is not None:
                self.bind(it.optional_vars, v, s)
        self.run(s.body)

    def st_Try(self, s):
        e0 = dict(self.env)
        self.run(s.body)
        e1 = self.env
        for h in s.handlers:
            self.env = self.joinenv(e0, e1)
            if h.name:
                self.env[h.name] = CONST
            self.run(h.body)
            e1 = self.joinenv(e1, self.env)
        self.env = e1
        self.run(s.orelse)
        self.run(s.finalbody)

    def st_FunctionDef(self, s):
        self.env[s.name] = AV(funcs=[self.repo.by_node[id(s)].qual])
        for d in s.args.defaults + [k for k in s.args.kw_defaults if k is not None]:
            self.ev(d)

    def st_ClassDef(self, s):
        pass

    def st_Raise(self, s):
        if s.exc is not None:
            self.ev(s.exc)

    def st_Global(self, s):
        self._globals_decl = set(getattr(self, "_globals_decl", ())) | set(s.names)

    def st_Assert(self, s):
        self.ev(s.test)

    def st_Pass(self, s):
        pass

    def st_Import(self, s):
        pass

    st_ImportFrom = st_Import


# NumPy / SciPy / stdlib callees that are known to return a new object (everything the package
# uses today; a callee outside this list is still treated as fresh but reported as "defaulted").
KNOWN_FRESH_LIB = {
    "zeros", "ones", "empty", "full", "arange", "linspace", "geomspace", "logspace", "eye", "identity",
    "zeros_like", "ones_like", "empty_like", "full_like", "vstack", "hstack", "concatenate", "stack",
    "column_stack", "dstack", "meshgrid", "kron", "outer", "dot", "cross", "einsum", "tensordot",
    "matmul", "inner", "sum", "prod", "cumsum", "cumprod", "mean", "std", "var", "min", "max", "amin",
    "amax", "argmin", "argmax", "argsort", "sort", "unique", "where", "nonzero", "isnan", "isinf",
    "isfinite", "isclose", "allclose", "any", "all", "abs", "absolute", "fabs", "sign", "sqrt", "exp",
    "log", "log10", "log2", "sin", "cos", "tan", "arcsin", "arccos", "arctan", "arctan2", "sinh", "cosh",
    "tanh", "arcsinh", "arccosh", "arctanh", "power", "floor", "ceil", "rint", "round", "around",
    "trunc", "clip", "maximum", "minimum", "nan_to_num", "delete", "insert", "append", "tile", "repeat",
    "copy", "array", "diag", "trace", "count_nonzero", "divide", "multiply", "add", "subtract",
    "errstate", "finfo", "iinfo", "norm", "det", "inv", "svd", "eigh", "eig", "solve", "lstsq", "pinv",
    "savez", "savez_compressed", "save", "load", "loads", "dumps", "dump", "warn", "catch_warnings",
    "simplefilter", "filterwarnings", "random", "rand", "randn", "seed", "value", "searchsorted",
    "bincount", "histogram", "interp", "polyval", "polyfit", "roots", "real_if_close", "iscomplexobj",
    "isscalar", "ndim", "shape", "size", "result_type", "longdouble", "float64", "int64", "int32",
    "angle", "conj", "conjugate", "degrees", "radians", "deg2rad", "rad2deg", "hypot", "square", "cbrt",
    "gamma", "gammaln", "factorial", "comb", "erf", "erfc", "diff", "gradient", "trapz", "trapezoid",
    "flatnonzero", "argwhere", "indices", "ix_", "tri", "tril", "triu", "vander", "floor_divide",
    "mod", "remainder", "fmod", "expm1", "log1p", "logaddexp", "heaviside", "sinc", "i0", "lexsort",
    "partition", "argpartition", "median", "percentile", "quantile", "average", "cov", "corrcoef",
    "sph_harm_y", "sph_harm_y_all", "roots_legendre", "roots_genlaguerre", "roots_chebyt", "roots_chebyu",
    "as_matrix", "bisect_left", "bisect_right", "files", "joinpath", "dirname", "join", "basename",
    "exists", "isfile", "integer", "floating", "ndarray", "bool_", "complex128", "issubdtype",
    "nextafter", "spacing", "ldexp", "frexp", "signbit", "copysign", "positive", "negative", "reciprocal",
    "fromiter", "frombuffer", "fromstring", "loadtxt", "genfromtxt", "asmatrix_copy", "vectorize",
    "polynomial", "legendre", "leggauss", "laggauss", "hermgauss", "chebgauss", "nnls", "lpmv",
    "eval_legendre", "eval_genlaguerre", "binom", "mgrid", "ogrid", "r_", "c_", "newaxis", "pi", "inf",
    "nan", "e", "isin", "in1d", "intersect1d", "union1d", "setdiff1d", "array_equal", "less", "greater",
    "less_equal", "greater_equal", "equal", "not_equal", "logical_and", "logical_or", "logical_not",
    "logical_xor", "bitwise_and", "bitwise_or", "invert", "left_shift", "right_shift", "iscomplex",
    "isreal", "real_if_close", "pad", "roll", "block", "triu_indices", "tril_indices", "diag_indices",
    "unravel_index", "ravel_multi_index", "take", "take_along_axis", "choose", "compress", "select",
    "piecewise", "apply_along_axis", "cumulative_sum", "linalg", "from_matrix", "random_state",
    "sleep", "time", "perf_counter", "getenv",
}


# --------------------------------------------------------------------------------------------
# result extraction
# --------------------------------------------------------------------------------------------
def trace_to_primitive(eng, q, o, chain, depth=0, seen=None):
    """Follow a derived sink record down to the primitive in-place construct(s).

    Returns a list of paths; a path is a list of (function, where, what, text)."""
    seen = seen or set()
    step = (chain[0], chain[1], chain[2], chain[3])
    via = chain[4] if len(chain) > 4 else None
    if via is None or depth > 12:
        return [[step]]
    gq, go = via
    key = (gq, go)
    if key in seen:
        return [[step]]
    seen = seen | {key}
    out = []
    for ch in eng.st[gq].mut.get(go, [])[:4]:
        for path in trace_to_primitive(eng, gq, go, ch, depth + 1, seen):
            out.append([step] + path)
    return out or [[step]]


def trace_escape(eng, q, o, chain, depth=0, seen=None):
    seen = seen or set()
    step = (chain[0], chain[1], chain[2], chain[3])
    via = chain[4] if len(chain) > 4 else None
    if via is None or depth > 12:
        return [[step]]
    gq, go = via
    if (gq, go) in seen:
        return [[step]]
    seen = seen | {(gq, go)}
    out = []
    for ch in eng.st[gq].esc.get(go, [])[:4]:
        for path in trace_escape(eng, gq, go, ch, depth + 1, seen):
            out.append([step] + path)
    return out or [[step]]


def ext_write_findings(eng):
    """C20: every primitive in-place construct reachable by caller-owned data.

    Returns {(primitive function, role): {"where", "what", "witness", "origins"}}."""
    public, esc = eng.entry_points()
    entry = public | esc
    out = {}
    for q, st in eng.st.items():
        for o, chains in st.mut.items():
            if not (o[0] in EXT_KINDS and o[1] in entry):
                continue
            # a record in q with an origin P(f, p), q != f, can only have arrived through a field,
            # a closure variable or a container (call bindings are substituted by the summaries):
            # caller-owned data kept by the object and written later -- reported as well
            for ch in chains:
                for path in trace_to_primitive(eng, q, o, ch):
                    prim = path[-1]
                    kind = "cbret" if o[0] == "CB" else "arg"
                    role = f"{kind}:{o[1]}.{o[2]}"
                    key = (prim[0], role)
                    rec = out.setdefault(key, {"where": prim[1], "what": prim[2], "text": prim[3],
                                               "witness": [], "entry": o[1], "param": o[2], "kind": kind})
                    w = " <- ".join(f"{p[0]}@{p[1].split('/')[-1]}" for p in reversed(path))
                    if w not in rec["witness"]:
                        rec["witness"].append(w)
    return out


def _is_nested_in(repo, q, outer):
    f = repo.funcs.get(q)
    while f is not None:
        if f.qual == outer:
            return True
        f = f.parent
    return False


def syntactic_inplace_sites(repo):
    """Purely syntactic list of every in-place construct of the package (candidate accounting)."""
    out = []
    for q, f in repo.funcs.items():
        own_nodes = _own_nodes(repo, f)
        for n in own_nodes:
            if isinstance(n, ast.AugAssign):
                out.append((q, n, "aug"))
            elif isinstance(n, (ast.Assign, ast.AnnAssign)):
                tgts = n.targets if isinstance(n, ast.Assign) else [n.target]
                flat = []
                for t in tgts:
                    flat.extend(_flatten_targets(t))
                if any(isinstance(t, ast.Subscript) for t in flat):
                    out.append((q, n, "substore"))
            elif isinstance(n, ast.For):
                if any(isinstance(t, ast.Subscript) for t in _flatten_targets(n.target)):
                    out.append((q, n, "substore"))
            elif isinstance(n, ast.Delete):
                out.append((q, n, "del"))
            elif isinstance(n, ast.Call):
                if isinstance(n.func, ast.Attribute) and n.func.attr in MUT_METHODS:
                    out.append((q, n, "mutcall"))
                if any(k.arg == "out" for k in n.keywords):
                    out.append((q, n, "out"))
                if isinstance(n.func, ast.Attribute) and isinstance(n.func.value, ast.Name) and \
                        n.func.value.id in ("np", "numpy") and (
                        (n.func.attr in UFUNC_BINARY and len(n.args) >= 3)
                        or (n.func.attr in UFUNC_UNARY and len(n.args) >= 2)):
                    out.append((q, n, "out"))
                if isinstance(n.func, ast.Attribute) and (n.func.attr in LIB_MUTATORS or n.func.attr == "at"):
                    out.append((q, n, "libmut"))
                if isinstance(n.func, ast.Name) and n.func.id in LIB_MUTATORS:
                    out.append((q, n, "libmut"))
    return out


def _flatten_targets(t):
    if isinstance(t, (ast.Tuple, ast.List)):
        out = []
        for e in t.elts:
            out.extend(_flatten_targets(e.value if isinstance(e, ast.Starred) else e))
        return out
    return [t]


def _own_nodes(repo, f):
    """Nodes of f's body that do not belong to a nested function / lambda."""
    out = []
    stack = list(f.node.body) if not f.is_lambda else [f.node.body]
    while stack:
        n = stack.pop()
        if isinstance(n, (ast.FunctionDef, ast.AsyncFunctionDef, ast.Lambda)):
            # defaults are evaluated in the enclosing function, the body is another function
            args = n.args
            stack.extend(args.defaults + [k for k in args.kw_defaults if k is not None])
            continue
        out.append(n)
        stack.extend(ast.iter_child_nodes(n))
    return out


def classify_sites(eng):
    """Match every syntactic candidate with what the analysis recorded for it."""
    rows = []
    for q, n, kind in syntactic_inplace_sites(eng.repo):
        st = eng.st[q]
        recs = [r for (ln, col, k), r in st.sink_sites.items()
                if ln == n.lineno and col == n.col_offset]
        where = f"src/grid/{eng.repo.funcs[q].module}.py:{n.lineno}"
        if not recs:
            rows.append({"func": q, "where": where, "kind": kind, "text": norm(n)[:100],
                         "class": "UNCLASSIFIED", "origins": []})
            continue
        origins = set()
        for r in recs:
            origins |= r["origins"]
        kinds = {o[0] for o in origins}
        if not origins:
            cls = "UNKNOWN-TARGET"
        elif kinds & {"G", "GE", "GT"}:
            cls = "module-state"
        elif kinds & set(EXT_KINDS):
            cls = "parametric"  # decided per call site by the summaries
        else:
            cls = "own-object"
        rows.append({"func": q, "where": where, "kind": kind, "text": norm(n)[:100], "class": cls,
                     "origins": sorted({o[0] + ":" + ":".join(map(str, o[1:])) for o in origins})[:6]})
    return rows
