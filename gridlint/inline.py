"""Inlining of small module-level helper functions into the function that calls them.

Several structural rules reason inside one function (the resolver of the angular sizes, for instance).  A
behaviour-preserving refactoring that moves a guarded look-up into a private helper

    def _round_up(value, table, name):
        keys = list(table.keys())
        if value < 0 or value > max(keys): raise ...
        if value in table: return value
        return keys[bisect_left(keys, value)]
    ...
    degree = _round_up(degree, dict_degrees, "degree")

leaves them without their idiom.  `inline_calls` rewrites, on a copy of the syntax tree, every statement of the forms
`helper(args)` and `target = helper(args)` whose callee is a module-level function made of assignments, `if` statements and
returns only, into the callee's statements: parameters are replaced by the argument expressions (names, constants and
attribute chains only), locals are renamed apart, `return e` becomes `target = e`, and what follows an `if c: return ...`
moves into its `else` branch.  Anything else is left untouched (and the rule that needs it stays undecided).
"""
from __future__ import annotations

import ast
import copy


def _simple(e):
    return isinstance(e, (ast.Name, ast.Constant)) or (isinstance(e, ast.Attribute) and _simple(e.value))


def _eligible(fn):
    if fn.args.vararg or fn.args.kwarg or fn.args.kwonlyargs or fn.decorator_list:
        return False

    def ok(stmts, top=True):
        for s in stmts:
            if isinstance(s, ast.Expr) and isinstance(s.value, ast.Constant):
                continue
            if isinstance(s, (ast.Assign, ast.AugAssign, ast.Raise, ast.Return, ast.Pass)):
                continue
            if isinstance(s, ast.Expr) and isinstance(s.value, ast.Call):
                continue
            if isinstance(s, ast.If):
                if not ok(s.body, False) or not ok(s.orelse, False):
                    return False
                continue
            return False
        return True
    return ok(fn.body)


def _rewrite_body(stmts, target, prefix, bind, locals_):
    """Statements of the callee with returns turned into assignments to `target` (or dropped when target is None)."""
    class Sub(ast.NodeTransformer):
        def visit_Name(self, n):
            if n.id in bind:
                return copy.deepcopy(bind[n.id])
            if n.id in locals_:
                return ast.copy_location(ast.Name(id=prefix + n.id, ctx=n.ctx), n)
            return n

    def conv(stmts):
        out = []
        for i, s in enumerate(stmts):
            if isinstance(s, ast.Expr) and isinstance(s.value, ast.Constant):
                continue
            if isinstance(s, ast.Return):
                if target is not None and s.value is not None:
                    out.append(ast.copy_location(ast.Assign(targets=[copy.deepcopy(target)], value=Sub().visit(copy.deepcopy(s.value))), s))
                elif target is not None:
                    out.append(ast.copy_location(ast.Assign(targets=[copy.deepcopy(target)], value=ast.Constant(value=None)), s))
                return out, True          # nothing after a return is executed
            if isinstance(s, ast.If):
                body, bret = conv(s.body)
                orelse, oret = conv(s.orelse)
                rest = stmts[i + 1:]
                node = ast.copy_location(ast.If(test=Sub().visit(copy.deepcopy(s.test)), body=body or [ast.Pass()], orelse=orelse), s)
                if bret and not oret:
                    # what follows is executed only when the test is false
                    tail, tret = conv(rest)
                    node.orelse = orelse + tail
                    out.append(node)
                    return out, tret
                if oret and not bret:
                    tail, tret = conv(rest)
                    node.body = (body or []) + tail or [ast.Pass()]
                    out.append(node)
                    return out, tret
                out.append(node)
                if bret and oret:
                    return out, True
                continue
            out.append(Sub().visit(copy.deepcopy(s)))
        return out, False
    res, _ = conv(stmts)
    return res


def inline_calls(fn_node, helpers, max_rounds=3):
    """Copy of `fn_node` with calls of the module-level `helpers` (name -> FunctionDef) inlined where possible."""
    fn = copy.deepcopy(fn_node)
    counter = [0]

    def expand(stmts):
        out, changed = [], False
        for s in stmts:
            call = target = None
            is_return = False
            if isinstance(s, ast.Return) and isinstance(s.value, ast.Call):
                call, is_return = s.value, True
            elif isinstance(s, ast.Expr) and isinstance(s.value, ast.Call):
                call = s.value
            elif isinstance(s, ast.Assign) and len(s.targets) == 1 and isinstance(s.targets[0], ast.Name) and isinstance(s.value, ast.Call):
                call, target = s.value, s.targets[0]
            h = helpers.get(call.func.id) if call is not None and isinstance(call.func, ast.Name) else None
            if h is not None and h is not fn_node and _eligible(h) and not call.keywords and \
                    len(call.args) == len(h.args.args) and all(_simple(a) for a in call.args):
                params = [a.arg for a in h.args.args]
                bind = dict(zip(params, call.args))
                stored = {n.id for n in ast.walk(h) if isinstance(n, ast.Name) and isinstance(n.ctx, ast.Store)}
                locals_ = stored - set(params)
                counter[0] += 1
                prefix = f"_{h.name.strip('_')}{counter[0]}_"
                pre = []
                # a parameter that the helper re-binds becomes a local that starts as the argument
                for p_ in [q for q in params if q in stored]:
                    pre.append(ast.Assign(targets=[ast.Name(id=prefix + p_, ctx=ast.Store())], value=copy.deepcopy(bind.pop(p_))))
                    locals_.add(p_)
                tmp = None
                if is_return:
                    tmp = ast.Name(id=prefix + "result", ctx=ast.Store())
                    target = tmp
                new = pre + _rewrite_body(h.body, target, prefix, bind, locals_)
                if is_return:
                    new.append(ast.Return(value=ast.Name(id=tmp.id, ctx=ast.Load())))
                for n_ in new:
                    ast.copy_location(n_, s)
                    ast.fix_missing_locations(n_)
                out.extend(new)
                changed = True
                continue
            for fld in ("body", "orelse", "finalbody"):
                sub = getattr(s, fld, None)
                if isinstance(sub, list) and sub and all(isinstance(x, ast.stmt) for x in sub):
                    new, ch = expand(sub)
                    if ch:
                        setattr(s, fld, new)
                        changed = True
            out.append(s)
        return out, changed
    for _ in range(max_rounds):
        fn.body, ch = expand(fn.body)
        if not ch:
            break
    fn.body = _tidy(fn.body)
    return ast.fix_missing_locations(fn)


_FLIP = {ast.In: ast.NotIn, ast.NotIn: ast.In, ast.Is: ast.IsNot, ast.IsNot: ast.Is, ast.Eq: ast.NotEq, ast.NotEq: ast.Eq,
         ast.Lt: ast.GtE, ast.GtE: ast.Lt, ast.Gt: ast.LtE, ast.LtE: ast.Gt}


def _negate(test):
    if isinstance(test, ast.Compare) and len(test.ops) == 1 and type(test.ops[0]) in _FLIP:
        return ast.copy_location(ast.Compare(left=test.left, ops=[_FLIP[type(test.ops[0])]()], comparators=test.comparators), test)
    if isinstance(test, ast.UnaryOp) and isinstance(test.op, ast.Not):
        return test.operand
    return ast.copy_location(ast.UnaryOp(op=ast.Not(), operand=test), test)


def _tidy(stmts):
    """Remove `x = x`, empty branches, and turn `if c: pass else: B` into `if not c: B`."""
    out = []
    for s in stmts:
        if isinstance(s, ast.Assign) and len(s.targets) == 1 and isinstance(s.targets[0], ast.Name) and \
                isinstance(s.value, ast.Name) and s.value.id == s.targets[0].id:
            continue
        if isinstance(s, ast.Pass):
            continue
        for fld in ("body", "orelse", "finalbody"):
            sub = getattr(s, fld, None)
            if isinstance(sub, list) and all(isinstance(x, ast.stmt) for x in sub):
                setattr(s, fld, _tidy(sub))
        if isinstance(s, ast.If):
            if not s.body and not s.orelse:
                continue
            if not s.body:
                s.test, s.body, s.orelse = _negate(s.test), s.orelse, []
        elif isinstance(s, (ast.For, ast.While, ast.With)) and not s.body:
            s.body = [ast.Pass()]
        out.append(s)
    return out
