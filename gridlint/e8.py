"""E8 -- algebraic normal forms of closed-form formula methods (serves the identity clauses of C03).

Nothing of the analysed package is imported or executed.  The *source* of a straight-line
formula method (assignments, `with`, trimming / validation guards, one returned expression) is
translated into an expression over

    x                         the method's argument
    p1, p2, ...               the object's fields (parameters)
    G[f, u]  =  f ** u        a power with a non-integer (symbolic) exponent u over an
                              irreducible polynomial base f
    L[f]     =  log f         over an irreducible base
    E[t]     =  exp t         over a primitive argument

and brought to the normal form "quotient of two polynomials in x, the parameters and the
generators".  Generators over distinct irreducible bases are algebraically independent, so two
formulas denote the same function of (x, parameters) whenever the numerator of their difference
is the zero polynomial -- that direction is a proof.  Differentiation is performed on the normal
form with the rules  G' = u f'/f G,  L' = f'/f,  E' = t' E.

The verdict is three-valued:
  equal      the difference has the zero normal form (proof of the identity for all parameters)
  different  the normal forms differ AND the difference is non-zero at an admissible rational
             witness point (60-digit evaluation of the *analysis's own* expression; the witness
             is reported as the failing input)
  undecided  anything else (unknown construct, negative power base, no witness)

sympy is used as a polynomial-arithmetic library only (Poly, factor_list, cancel, diff); its
heuristic simplifiers are not used.
"""
from __future__ import annotations

import ast
from fractions import Fraction

import sympy as sp

from gridlint.core import AnalysisError, norm, strip_docstring


class Undecided(Exception):
    pass


class TRUNC(sp.Function):
    """int(u): truncation towards zero, kept unevaluated for symbolic arguments."""

    @classmethod
    def eval(cls, u):
        if u.is_Number:
            return sp.Integer(int(u))


class Algebra:
    """Generator registry + normal form + derivative."""

    def __init__(self, var="x", ref=None):
        self.x = sp.Symbol(var)
        self.gens = {}     # key -> Symbol
        self.info = {}     # Symbol -> (kind, base/arg, unit)
        self.ref = dict(ref or {})   # Symbol -> Rational reference value (interior point, admissible parameters)
        self.params = {}

    # -- symbols -----------------------------------------------------------------------------
    def param(self, name):
        if name not in self.params:
            self.params[name] = sp.Symbol(name)
        return self.params[name]

    def canon(self, a):
        """cancel + reduce the powers of root generators (g = f**(p/q): g**q -> f**p)."""
        a = sp.cancel(sp.together(sp.sympify(a)))
        n, d = sp.fraction(a)
        n2, d2 = self.reduce_roots(sp.expand(n)), self.reduce_roots(sp.expand(d))
        if n2 != sp.expand(n) or d2 != sp.expand(d):
            a = sp.cancel(n2 / d2)
        return a

    def _gen(self, kind, a, unit=None):
        if kind in ("E", "R", "L", "A"):
            a = self.canon(a)
        key = (kind, sp.srepr(a), sp.srepr(unit) if unit is not None else None)
        if key not in self.gens:
            s = sp.Symbol(f"{kind}{len(self.gens)}")
            self.gens[key] = s
            self.info[s] = (kind, a, unit)
        return self.gens[key]

    # -- reference evaluation -----------------------------------------------------------------
    def value(self, e, point, prec=60):
        """Numerical value (mpmath, ``prec`` digits) of a normal-form expression at ``point``
        (dict Symbol -> exact number); generators are evaluated from their definitions."""
        memo = {}

        def gv(s):
            if s in memo:
                return memo[s]
            kind, a, unit = self.info[s]
            av = ev(a)
            if kind == "G":
                r = sp.Pow(av, ev(unit))
            elif kind == "L":
                r = sp.log(av)
            elif kind == "R":
                r = sp.erf(av)
            elif kind == "A":
                r = sp.asin(av)
            elif kind == "C":
                r = sp.Integer(int(av))      # int(): truncation towards zero
            else:
                r = sp.exp(av)
            memo[s] = sp.N(r, prec)
            return memo[s]

        def ev(z):
            z = sp.sympify(z)
            sub = {}
            for s in z.free_symbols:
                if s in self.info:
                    sub[s] = gv(s)
                elif s in point:
                    sub[s] = point[s]
                else:
                    raise Undecided(f"no value for symbol {s}")
            return sp.N(z.subs(sub), prec)
        return ev(e)

    def _positive_at_ref(self, f):
        try:
            v = self.value(f, self.ref, 30)
        except (Undecided, ValueError, TypeError):
            return None
        if v.is_real is False or v == sp.nan or v.has(sp.zoo):
            return None
        try:
            return bool(v > 0) if v != 0 else None
        except TypeError:
            return None

    # -- normal form -----------------------------------------------------------------------------
    def nf(self, e):
        """Canonicalise a raw expression (Pow/log/exp nodes allowed) bottom-up."""
        e = sp.sympify(e)
        if e.is_Number or e.is_Symbol:
            return e
        if e.is_Add:
            return sp.Add(*[self.nf(a) for a in e.args])
        if e.is_Mul:
            return sp.Mul(*[self.nf(a) for a in e.args])
        if e.is_Pow:
            b, ex = e.args
            if ex.is_Integer:
                return self.nf(b) ** ex
            return self.gpow(self.nf(b), self.nf(ex))
        if isinstance(e, sp.log):
            return self.glog(self.nf(e.args[0]))
        if isinstance(e, sp.exp):
            return self.gexp(self.nf(e.args[0]))
        if isinstance(e, (sp.sinh, sp.cosh, sp.tanh)):
            E = self.gexp(self.nf(e.args[0]))
            if isinstance(e, sp.sinh):
                return (E - 1 / E) / 2
            if isinstance(e, sp.cosh):
                return (E + 1 / E) / 2
            return (E - 1 / E) / (E + 1 / E)
        if isinstance(e, sp.asinh):
            u = self.nf(e.args[0])
            return self.glog(u + self.gpow(u ** 2 + 1, sp.Rational(1, 2)))
        if isinstance(e, sp.asin):
            a = self.canon(self.nf(e.args[0]))
            if a == 0:
                return sp.Integer(0)
            if a.could_extract_minus_sign():
                return -self._gen("A", sp.cancel(-a))     # arcsin is odd
            return self._gen("A", a)
        if isinstance(e, sp.erf):
            a = sp.cancel(sp.together(self.nf(e.args[0])))
            if a == 0:
                return sp.Integer(0)
            if a.could_extract_minus_sign():
                return -self._gen("R", sp.cancel(-a))     # erf is odd
            return self._gen("R", a)
        if isinstance(e, TRUNC):
            a = self.nf(e.args[0])
            if self.x in a.free_symbols:
                raise Undecided("integer part of an expression in the variable")
            return self._gen("C", sp.cancel(a))     # an opaque constant: int(k) is not k
        raise Undecided(f"unsupported function {type(e).__name__}")

    def _factors(self, u):
        """u (rational expression in symbols and generators) -> (positive rational content, [(f, k)]) with
        irreducible f made positive at the reference point.  Raises Undecided on a negative content."""
        u = sp.cancel(sp.together(u))
        n, d = sp.fraction(u)
        c = sp.Integer(1)
        out = []
        for part, sgn in ((n, 1), (d, -1)):
            cc, fl = sp.factor_list(part)
            c = c * cc ** sgn
            for f, k in fl:
                out.append((f, sgn * k))
        norm_out = []
        for f, k in out:
            pos = self._positive_at_ref(f)
            if pos is False:
                f = -f
                if k % 2:
                    c = -c
            norm_out.append((sp.expand(f), k))
        if not c.is_Rational:
            raise Undecided(f"non-rational content {c}")
        return c, norm_out

    def _split_exponent(self, ex):
        """ex (x-free) -> (integer part, [(coefficient: Rational, unit)]) with ex = int + coeff*unit.
        The non-constant part is kept as ONE unit (its primitive part, sign-normalised), so that
        p, p - 1, 2*p, -p and 1 - p all refer to the same generator."""
        ex = sp.expand(sp.cancel(sp.together(ex)))
        if self.x in ex.free_symbols:
            raise Undecided("exponent depends on the variable")
        terms = ex.as_ordered_terms() if ex.is_Add else [ex]
        const = sum((t for t in terms if t.is_Rational), sp.Integer(0))
        rest = sum((t for t in terms if not t.is_Rational), sp.Integer(0))
        k0 = sp.floor(const)
        units = []
        if const - k0 != 0:
            units.append((const - k0, sp.Integer(1)))
        if rest != 0:
            rest = sp.factor(sp.cancel(sp.together(rest)))
            c, prim = rest.as_content_primitive()
            if prim.could_extract_minus_sign():
                c, prim = -c, -prim
            if not c.is_Rational:
                raise Undecided(f"exponent {ex}")
            units.append((c, sp.cancel(prim)))
        return k0, units

    def gpow(self, u, ex):
        """u ** ex  =  exp(ex * log u): the logarithm splits the base into irreducible factors, the
        exponential turns every `c * log f` back into a power of the irreducible f."""
        if ex.is_Integer:
            return u ** ex
        if u == 0:
            raise Undecided("power of zero")
        return self.gexp(ex * self.glog(u))

    def _pow_irred(self, f, c):
        """f ** c for an irreducible polynomial (or prime number) f and an x-free exponent c."""
        k0, units = self._split_exponent(c)
        r = f ** k0
        for cc, unit in units:
            # generator over unit/q so that the generator's own exponent is an integer
            g = self._gen("G", f, sp.nsimplify(unit / cc.q))
            r *= g ** cc.p
        return r

    def glog(self, u):
        c, fl = self._factors(u)
        if c <= 0:
            raise Undecided(f"log / real power of a quantity that is not positive at the reference point: {u}")
        r = sp.Integer(0)
        for sgn, num in ((1, c.p), (-1, c.q)):
            for p, k in sp.factorint(num).items():
                r += sgn * k * self._gen("L", sp.Integer(p))
        for f, k in fl:
            if f in self.info and self.info[f][0] == "G":
                _, f0, u0 = self.info[f]
                r += k * u0 * self.glog(f0)
            elif f in self.info and self.info[f][0] == "E":
                r += k * self.info[f][1]
            else:
                r += k * self._gen("L", f)
        return r

    def gexp(self, t):
        t = sp.expand(self.canon(t))
        if t == 0:
            return sp.Integer(1)
        terms = t.as_ordered_terms() if t.is_Add else [t]
        r = sp.Integer(1)
        rest = sp.Integer(0)
        for term in terms:
            ls = [g for g in term.free_symbols if g in self.info and self.info[g][0] == "L"]
            if len(ls) == 1:
                c = sp.cancel(term / ls[0])
                if not c.has(ls[0]) and self.x not in c.free_symbols:
                    r *= self._pow_irred(self.info[ls[0]][1], c)   # exp(c log f) = f**c
                    continue
            rest += term
        if rest != 0:
            # exp(a + b) = exp(a) exp(b): one generator per additive term of the expanded argument, so that
            # a product of exponentials and the exponential of the sum have the same normal form
            rest = sp.expand(self.canon(rest))
            for term in (rest.as_ordered_terms() if rest.is_Add else [rest]):
                term = sp.factor(sp.cancel(sp.together(term)))
                c, prim = term.as_content_primitive()
                if prim.could_extract_minus_sign():
                    c, prim = -c, -prim
                prim = sp.cancel(prim)
                if c.is_Integer:
                    r *= self._gen("E", prim) ** c
                else:
                    r *= self._gen("E", sp.cancel(prim / c.q)) ** c.p
        return r

    # -- calculus / decision --------------------------------------------------------------------
    def D(self, e):
        """Total derivative with respect to x of a normal-form expression."""
        e = sp.sympify(e)
        r = sp.diff(e, self.x)
        for s in [s for s in e.free_symbols if s in self.info]:
            r += sp.diff(e, s) * self.dgen(s)
        return r

    def dgen(self, s):
        kind, a, unit = self.info[s]
        if kind == "G":
            return unit * self.D(a) / a * s
        if kind == "L":
            return self.D(a) / a
        if kind == "C":
            return sp.Integer(0)
        if kind == "A":
            return self.D(a) * self.gpow(1 - a ** 2, sp.Rational(-1, 2))
        if kind == "R":
            # d erf(t) = 2/sqrt(pi) exp(-t**2) dt
            return 2 * self.gpow(self.param("pi"), sp.Rational(-1, 2)) * self.gexp(sp.expand(-a ** 2)) * self.D(a)
        return self.D(a) * s

    def zero(self, e):
        n, _ = sp.fraction(sp.cancel(sp.together(e)))
        return sp.expand(self.reduce_roots(sp.expand(n))) == 0

    def reduce_roots(self, n):
        """Use the relations g**q == f**p of the generators g = f**(p/q) with a rational exponent
        (square roots etc.): powers of g are reduced below q."""
        for g in [x for x in n.free_symbols if x in self.info and self.info[x][0] == "G"]:
            _, f, unit = self.info[g]
            if not unit.is_Rational or unit.q == 1:
                continue
            p_, q_ = unit.p, unit.q
            poly = sp.Poly(n, g)
            out = sp.Integer(0)
            for (k,), c in poly.terms():
                d, r = divmod(k, q_)
                out += c * f ** (p_ * d) * g ** r
            n = sp.expand(sp.numer(sp.together(out))) if p_ < 0 else sp.expand(out)
        return n

    def show(self, e, limit=160):
        """Readable rendering with the generators spelled out."""
        e = sp.sympify(e)
        try:
            e = self.canon(e)
        except Exception:  # noqa: BLE001 - rendering only
            pass
        sub = {}
        for s in e.free_symbols:
            if s in self.info:
                kind, a, unit = self.info[s]
                if kind == "A":
                    txt = f"arcsin({self.show(a, 60)})"
                elif kind == "R":
                    txt = f"erf({self.show(a, 60)})"
                elif kind == "C":
                    txt = f"int({self.show(a, 60)})"
                elif kind == "G":
                    txt = f"({self.show(a, 60)})**({self.show(unit, 30)})"
                elif kind == "L":
                    txt = f"log({self.show(a, 60)})"
                else:
                    txt = f"exp({self.show(a, 60)})"
                sub[s] = sp.Symbol(txt)
        t = str(e.subs(sub))
        return t if len(t) <= limit else t[:limit - 3] + "..."


# ================================================================================== translator
NP_UNARY = {"np.log": sp.log, "np.exp": sp.exp, "numpy.log": sp.log, "numpy.exp": sp.exp, "math.log": sp.log,
            "math.exp": sp.exp, "np.sinh": sp.sinh, "np.cosh": sp.cosh, "np.tanh": sp.tanh, "np.arcsinh": sp.asinh,
            "math.sinh": sp.sinh, "math.cosh": sp.cosh, "math.tanh": sp.tanh, "math.asinh": sp.asinh,
            "np.arcsin": sp.asin, "math.asin": sp.asin}
IDENT_CALLS = {"np.array", "np.asarray", "np.float64", "float", "np.copy", "np.atleast_1d"}
ONES = {"np.ones", "np.ones_like"}
_FILL_ONE, _FILL_ZERO = sp.Symbol("__np_ones__"), sp.Symbol("__np_zeros__")


class _Bound:
    """A bound method of the analysed object used as a value."""
    def __init__(self, name):
        self.name = name

ZEROS = {"np.zeros", "np.zeros_like"}


class Formula:
    """Translate ``Class.method(arg)`` into a raw expression of an :class:`Algebra`."""

    def __init__(self, repo, cls, alg, opaque=()):
        self.repo = repo
        self.cls = cls
        self.alg = alg
        self.opaque = set(opaque)   # method names kept as opaque function symbols (generic formulas)
        self.opaque_syms = {}
        # fields computed by the constructor from its arguments (`self._two_m = 2**m`) are replaced by
        # their defining expressions; a field that stores an argument as it is becomes a parameter symbol
        self.init_defs = {}
        self.init_env = {}
        init = repo.resolve_method(cls, "__init__") if cls is not None else None
        if init is not None:
            direct = {}
            for st in strip_docstring(init.node.body):
                if isinstance(st, ast.Assign):
                    tgts = st.targets[0].elts if isinstance(st.targets[0], ast.Tuple) else [st.targets[0]]
                    vals = st.value.elts if isinstance(st.targets[0], ast.Tuple) and isinstance(st.value, ast.Tuple) \
                        and len(st.value.elts) == len(tgts) else [st.value] * len(tgts)
                    for t_, v_ in zip(tgts, vals):
                        if isinstance(t_, ast.Attribute) and norm(t_.value) == "self":
                            if isinstance(v_, ast.Name) and v_.id in init.params:
                                direct.setdefault(v_.id, t_.attr)
                            else:
                                self.init_defs[t_.attr] = v_
            for p_ in init.params[1:]:
                self.init_env[p_] = alg.param(direct.get(p_, p_).lstrip("_"))

    def field(self, name):
        # `self.b` spelled through a trivial property is the field `_b`
        pf = self.repo.resolve_method(self.cls, name)
        if pf is not None and pf.is_property:
            body = strip_docstring(pf.node.body)
            if len(body) == 1 and isinstance(body[0], ast.Return) and isinstance(body[0].value, ast.Attribute) \
                    and norm(body[0].value.value) == "self":
                name = body[0].value.attr
            else:
                raise Undecided(f"property {self.cls}.{name} is not a plain field getter")
        if name in self.init_defs:
            v = self.init_defs[name]
            if isinstance(v, (ast.BinOp, ast.UnaryOp, ast.Call)) or (isinstance(v, ast.Constant) and
                                                                     isinstance(v.value, (int, float)) and not isinstance(v.value, bool)):
                return self.ev(v, dict(self.init_env), 0)
        return self.alg.param(name.lstrip("_"))

    def call_method(self, name, arg, depth):
        if name in self.opaque:
            key = (name, sp.srepr(arg))
            if key not in self.opaque_syms:
                self.opaque_syms[key] = sp.Symbol(f"{name}_{len(self.opaque_syms)}")
            return self.opaque_syms[key]
        return self.call_method_n(name, [arg], depth)

    def call_method_n(self, name, args, depth):
        """Inline a method of the analysed class with any number of positional arguments (a private
        helper returning shared constants, a static helper, ...).  The result may be a tuple."""
        f = self.repo.resolve_method(self.cls, name) if self.cls is not None else None
        if f is None or depth > 4:
            raise Undecided(f"cannot inline {self.cls}.{name}")
        params = list(f.params)
        is_static = any(norm(d_) == "staticmethod" for d_ in getattr(f.node, "decorator_list", []))
        if not is_static and params and params[0] in ("self", "cls"):
            params = params[1:]
        if len(params) != len(args):
            raise Undecided(f"{f.qual} called with {len(args)} argument(s)")
        return self.body(strip_docstring(f.node.body), dict(zip(params, args)), depth + 1, f)

    def method(self, name, arg):
        return self.call_method(name, arg, 0)

    # -- statements
    def body(self, stmts, env, depth, f):
        self.module = getattr(f, "module", getattr(self, "module", None))
        r = self.block(stmts, env, depth, f)
        if r is None:
            raise Undecided(f"{f.qual}: no returned formula")
        return r

    def block(self, stmts, env, depth, f):
        for i_, s in enumerate(stmts):
            if isinstance(s, ast.If) and not s.orelse and s.body and isinstance(s.body[-1], ast.Return) and \
                    "isinstance" in norm(s.test) and stmts[i_ + 1:]:
                # `if isinstance(x, Number): return A` followed by the array form: what follows is the else branch
                twin = ast.copy_location(ast.If(test=s.test, body=s.body, orelse=list(stmts[i_ + 1:])), s)
                return self.if_stmt(twin, env, depth, f)
            if isinstance(s, ast.With):
                r = self.block(s.body, env, depth, f)
                if r is not None:
                    return r
            elif isinstance(s, ast.Assign) and len(s.targets) == 1 and isinstance(s.targets[0], ast.Name):
                env[s.targets[0].id] = self.ev(s.value, env, depth)
            elif isinstance(s, ast.Assign) and len(s.targets) == 1 and isinstance(s.targets[0], ast.Tuple) and \
                    isinstance(s.value, ast.Tuple) and len(s.value.elts) == len(s.targets[0].elts) and \
                    all(isinstance(t, ast.Name) for t in s.targets[0].elts):
                vals = [self.ev(v, env, depth) for v in s.value.elts]   # right-hand side first (simultaneous binding)
                for t, v in zip(s.targets[0].elts, vals):
                    env[t.id] = v
            elif isinstance(s, ast.Assign) and len(s.targets) == 1 and isinstance(s.targets[0], ast.Tuple) and \
                    all(isinstance(t, ast.Name) for t in s.targets[0].elts):
                v = self.ev(s.value, env, depth)
                if not isinstance(v, tuple) or len(v) != len(s.targets[0].elts):
                    raise Undecided(f"{f.qual}: cannot unpack `{norm(s.value)[:40]}`")
                for t, x_ in zip(s.targets[0].elts, v):
                    env[t.id] = x_
            elif isinstance(s, ast.For) and isinstance(s.target, ast.Name) and not s.orelse:
                seq = self.ev(s.iter, env, depth)
                if not isinstance(seq, tuple):
                    raise Undecided(f"{f.qual}: loop over `{norm(s.iter)[:40]}`")
                for item in seq:      # a loop over a literal tuple of coefficients is unrolled
                    env[s.target.id] = item
                    r = self.block(s.body, env, depth, f)
                    if r is not None:
                        return r
            elif isinstance(s, ast.AugAssign) and isinstance(s.target, ast.Name):
                a, b = env.get(s.target.id), self.ev(s.value, env, depth)
                if a is None:
                    raise Undecided(f"{f.qual}: augmented assignment to an unknown name")
                env[s.target.id] = self.binop(s.op, a, b)
            elif isinstance(s, ast.Return):
                if s.value is None:
                    raise Undecided(f"{f.qual}: bare return")
                return self.ev(s.value, env, depth)
            elif isinstance(s, ast.Expr):
                v = s.value
                if isinstance(v, ast.Constant):
                    continue
                if isinstance(v, ast.Call) and (norm(v.func).startswith("warnings.") or
                                                norm(v.func) == "self.set_maximum_parameter_b"):
                    continue  # a warning; fixing the scale parameter b (a field) on first use
                raise Undecided(f"{f.qual}: statement `{norm(s)[:60]}`")
            elif isinstance(s, ast.If):
                r = self.if_stmt(s, env, depth, f)
                if r is not None:
                    return r
            elif isinstance(s, (ast.Pass, ast.Import, ast.ImportFrom)):
                continue
            else:
                raise Undecided(f"{f.qual}: statement `{norm(s)[:60]}`")
        return None

    def if_stmt(self, s, env, depth, f):
        body_raises = bool(s.body) and isinstance(s.body[-1], ast.Raise)
        if body_raises and not s.orelse:
            return None   # validation
        if not s.orelse and all(isinstance(b, ast.Expr) and isinstance(b.value, ast.Call)
                                and norm(b.value.func).startswith("warnings.") for b in s.body):
            return None   # a warning
        if not s.orelse and "trim_inf" in norm(s.test) and all(
                isinstance(b, ast.Assign) and isinstance(b.value, ast.Call) and norm(b.value.func) == "self._convert_inf"
                and len(b.value.args) >= 1 and norm(b.targets[0]) == norm(b.value.args[0]) for b in s.body):
            return None   # trimming replaces +-inf only: finite values are unchanged
        # scalar / array twin branches: both must denote the same formula
        if s.orelse:
            e1, e2 = dict(env), dict(env)
            r1 = self.block(s.body, e1, depth, f)
            r2 = self.block(s.orelse, e2, depth, f)
            if r1 is not None and r2 is not None:
                if not self.same(r1, r2):
                    raise Undecided(f"{f.qual}: scalar and array branches return different formulas")
                return r1
            if r1 is None and r2 is None:
                for k in set(e1) | set(e2):
                    if k in e1 and k in e2 and self.same(e1[k], e2[k]):
                        env[k] = e1[k]
                    else:
                        env.pop(k, None)   # differs between the branches: unusable afterwards
                return None
        raise Undecided(f"{f.qual}: branch on `{norm(s.test)[:60]}`")

    def same(self, a, b):
        if a == b:
            return True
        try:
            return self.alg.zero(self.alg.nf(a) - self.alg.nf(b))
        except Undecided:
            return False

    # -- expressions
    @staticmethod
    def binop(op, a, b):
        if isinstance(op, ast.Add):
            return a + b
        if isinstance(op, ast.Sub):
            return a - b
        if isinstance(op, ast.Mult):
            return a * b
        if isinstance(op, ast.Div):
            return a / b
        if isinstance(op, ast.Pow):
            return sp.Pow(a, b)
        raise Undecided(f"operator {type(op).__name__}")

    def ev(self, e, env, depth):
        if isinstance(e, ast.Constant):
            if isinstance(e.value, bool) or not isinstance(e.value, (int, float)):
                raise Undecided(f"constant {e.value!r}")
            if isinstance(e.value, int):
                return sp.Integer(e.value)
            fr = Fraction(repr(e.value))   # the decimal literal as written
            return sp.Rational(fr.numerator, fr.denominator)
        if isinstance(e, ast.Name):
            if e.id in env:
                return env[e.id]
            raise Undecided(f"free name {e.id}")
        if isinstance(e, ast.Attribute):
            if isinstance(e.value, ast.Name) and e.value.id == "self":
                m_ = self.repo.resolve_method(self.cls, e.attr) if self.cls is not None else None
                if e.attr in self.opaque or (m_ is not None and not m_.is_property and isinstance(m_.node, ast.FunctionDef)):
                    return _Bound(e.attr)      # a bound method used as a value: `(self.deriv, self.deriv2)[:k]`
                return self.field(e.attr)
            if norm(e) in ("np.pi", "math.pi"):
                return self.alg.param("pi")
            if norm(e) in ONES or norm(e) in ZEROS:
                # an array constructor passed as a value (`self._constant(x, 1, np.ones)`): a constant function
                return _FILL_ONE if norm(e) in ONES else _FILL_ZERO
            raise Undecided(f"attribute {norm(e)[:40]}")
        if isinstance(e, (ast.Tuple, ast.List)):
            return tuple(self.ev(x, env, depth) for x in e.elts)
        if isinstance(e, ast.ListComp) and len(e.generators) == 1 and not e.generators[0].ifs and \
                isinstance(e.generators[0].target, ast.Name) and not e.generators[0].is_async:
            seq = self.ev(e.generators[0].iter, env, depth)
            if isinstance(seq, tuple):      # a comprehension over a literal sequence is unrolled
                return tuple(self.ev(e.elt, {**env, e.generators[0].target.id: item}, depth) for item in seq)
            raise Undecided(f"comprehension over `{norm(e.generators[0].iter)[:40]}`")
        if isinstance(e, ast.Subscript):
            base = self.ev(e.value, env, depth)
            if isinstance(base, tuple):
                def cint(n_):
                    if n_ is None:
                        return None
                    v_ = self.ev(n_, env, depth)
                    if not getattr(v_, "is_Integer", False):
                        raise Undecided(f"index `{norm(n_)}`")
                    return int(v_)
                if isinstance(e.slice, ast.Slice):
                    return base[cint(e.slice.lower):cint(e.slice.upper):cint(e.slice.step)]
                return base[cint(e.slice)]
            raise Undecided(f"subscript `{norm(e)[:40]}`")
        if isinstance(e, ast.BinOp):
            return self.binop(e.op, self.ev(e.left, env, depth), self.ev(e.right, env, depth))
        if isinstance(e, ast.UnaryOp) and isinstance(e.op, (ast.USub, ast.UAdd)):
            v = self.ev(e.operand, env, depth)
            return -v if isinstance(e.op, ast.USub) else v
        if isinstance(e, ast.IfExp):
            # a conditional whose two arms denote the same formula (scalar/array twins, trimming) is that formula
            a, b = self.ev(e.body, env, depth), self.ev(e.orelse, env, depth)
            if self.same(a, b):
                return a
            raise Undecided(f"conditional expression on `{norm(e.test)[:50]}`")
        if isinstance(e, ast.Call):
            fn = norm(e.func)
            if fn in NP_UNARY and len(e.args) == 1:
                return NP_UNARY[fn](self.ev(e.args[0], env, depth))
            if fn in ("np.sqrt", "math.sqrt") and len(e.args) == 1:
                return sp.Pow(self.ev(e.args[0], env, depth), sp.Rational(1, 2))
            if fn in ("np.power", "pow", "math.pow") and len(e.args) == 2:
                return sp.Pow(self.ev(e.args[0], env, depth), self.ev(e.args[1], env, depth))
            if fn in ("np.square",) and len(e.args) == 1:
                return self.ev(e.args[0], env, depth) ** 2
            if fn in ("erf", "scipy.special.erf", "special.erf", "math.erf") and len(e.args) == 1:
                return sp.erf(self.ev(e.args[0], env, depth))
            if fn in ("int", "np.trunc", "math.trunc", "np.fix") and len(e.args) == 1:
                return TRUNC(self.ev(e.args[0], env, depth))
            if fn in IDENT_CALLS and len(e.args) == 1:
                return self.ev(e.args[0], env, depth)
            if isinstance(e.func, ast.Name) and isinstance(env.get(e.func.id), _Bound) and len(e.args) == 1 and not e.keywords:
                return self.call_method(env[e.func.id].name, self.ev(e.args[0], env, depth), depth)
            if isinstance(e.func, ast.Name) and not isinstance(env.get(e.func.id), (tuple, _Bound)) and \
                    env.get(e.func.id) in (_FILL_ONE, _FILL_ZERO):
                return sp.Integer(1) if env[e.func.id] == _FILL_ONE else sp.Integer(0)
            if fn in ONES:
                return sp.Integer(1)   # an array of ones broadcasts like the scalar 1
            if fn in ZEROS:
                return sp.Integer(0)
            if fn in ("np.full", "np.full_like") and len(e.args) == 2:
                return self.ev(e.args[1], env, depth)
            if fn == "self._convert_inf" and e.args:
                return self.ev(e.args[0], env, depth)
            if isinstance(e.func, ast.Attribute) and isinstance(e.func.value, ast.Name) and e.func.value.id == "self" \
                    and len(e.args) == 1 and not e.keywords:
                return self.call_method(e.func.attr, self.ev(e.args[0], env, depth), depth)
            if isinstance(e.func, ast.Attribute) and isinstance(e.func.value, ast.Name) and \
                    e.func.value.id in ("self", "cls", self.cls) and not e.keywords and e.func.attr not in self.opaque:
                return self.call_method_n(e.func.attr, [self.ev(a_, env, depth) for a_ in e.args], depth)
            if isinstance(e.func, ast.Name) and e.func.id not in env and getattr(self, "module", None) and depth < 5:
                g = next((x for x in self.repo.funcs.values() if x.module == self.module and x.cls is None
                          and x.name == e.func.id and isinstance(x.node, ast.FunctionDef)), None)
                if g is not None and not e.keywords and len(e.args) == len(g.params):
                    # the receiver handed to a module-level helper (`_trim(self, values)`) stays the receiver there
                    recv = {p_ for p_, a_ in zip(g.params, e.args) if isinstance(a_, ast.Name) and a_.id == "self"}
                    sub_env = {p_: self.ev(a_, env, depth) for p_, a_ in zip(g.params, e.args) if p_ not in recv}
                    g_body = g.node.body
                    if recv:
                        import copy as _copy

                        class _Recv(ast.NodeTransformer):
                            def visit_Name(self, n):
                                return ast.copy_location(ast.Name(id="self", ctx=n.ctx), n) if n.id in recv else n
                        g_body = [_Recv().visit(_copy.deepcopy(x)) for x in g_body]
                    saved = self.module
                    try:
                        return self.body(strip_docstring(g_body), sub_env, depth + 1, g)
                    finally:
                        self.module = saved
            if isinstance(e.func, ast.Name) and e.func.id in env and len(e.args) == 1 and \
                    isinstance(env[e.func.id], tuple) and env[e.func.id][0] == "bound":
                return self.call_method(env[e.func.id][1], self.ev(e.args[0], env, depth), depth)
            raise Undecided(f"call {fn[:50]}")
        raise Undecided(f"expression `{norm(e)[:50]}`")


def witness(alg, na, nb, points, raw=False):
    """First admissible point at which the two expressions visibly differ: (point, value a, value b) or None.
    With ``raw`` the arguments are un-normalised sympy expressions (used when a normal form cannot be built)."""
    for pt in points:
        try:
            if raw:
                va, vb = (sp.N(sp.sympify(z).subs(pt), 60) for z in (na, nb))
            else:
                va, vb = alg.value(na, pt), alg.value(nb, pt)
        except (Undecided, ValueError, TypeError, ZeroDivisionError):
            continue
        if not (va.is_number and vb.is_number) or va.has(sp.nan, sp.zoo) or vb.has(sp.nan, sp.zoo):
            continue
        scale = max(abs(va), abs(vb), 1)
        if abs(va - vb) > sp.Float(10) ** -30 * scale:
            return pt, va, vb
    return None


def show_point(pt):
    return ", ".join(f"{k}={v}" for k, v in sorted(pt.items(), key=lambda kv: str(kv[0])))
