"""E7 -- symbolic array-shape domain (serves the tensor-layout rule of C13).

An abstract value is one of
  ("scalar",)                       a number
  ("arr", (d0, d1, ...))            an array whose dimensions are symbolic terms
  ("shape", ndim)                   the per-dimension point-count sequence itself
  ("unknown",)
A dimension term is an int, or ("n", k, c) meaning shape[k] + c, or ("prod",) for prod(shape), or "?".

The interpreter is path-sensitive on the dimensionality: the function is analysed once per
ndim in {2, 3}; guards over `dim`, `len(shape)`, `self.ndim` and constant helper arguments are folded.
"""
from __future__ import annotations

import ast

from gridlint.core import AnalysisError, norm

SCALAR = ("scalar",)
UNKNOWN = ("unknown",)
ELEMENTWISE = {"np.sin", "np.cos", "np.exp", "np.sqrt", "np.abs", "np.log", "np.tan", "np.square", "np.float64",
               "np.asarray", "np.array", "np.real", "np.copy"}


def arr(*dims):
    return ("arr", tuple(dims))


def broadcast(a, b):
    """NumPy broadcasting of two abstract values."""
    if a == UNKNOWN or b == UNKNOWN or a[0] == "dims" or b[0] == "dims":
        return UNKNOWN
    if a[0] == "shape" or b[0] == "shape":
        # arithmetic on the shape array itself (shape + 1.0, (shape - 1) / shape): a vector of length ndim
        other = b if a[0] == "shape" else a
        sh = a if a[0] == "shape" else b
        if other == SCALAR or other[0] == "shape":
            return sh
        return UNKNOWN
    if a == SCALAR:
        return b
    if b == SCALAR:
        return a
    da, db = list(a[1]), list(b[1])
    n = max(len(da), len(db))
    da = [1] * (n - len(da)) + da
    db = [1] * (n - len(db)) + db
    out = []
    for x, y in zip(da, db):
        if x == 1:
            out.append(y)
        elif y == 1 or x == y:
            out.append(x)
        else:
            return ("conflict", (tuple(da), tuple(db)))
    return arr(*out)


class ShapeInterp:
    def __init__(self, ndim, fn_node, consts=None, helpers=None, shape_names=("shape",), self_scalars=()):
        self.ndim = ndim
        self.fn = fn_node
        self.env = {}
        self.consts = dict(consts or {})
        self.helpers = dict(helpers or {})  # name -> FunctionDef (nested helpers)
        self.shape_names = set(shape_names)
        self.returns = []
        self.problems = []
        for n in shape_names:
            self.env[n] = ("shape", ndim)

    # ------------------------------------------------------------------ constants / guards
    def const(self, e):
        """Integer value of an expression if statically known."""
        if isinstance(e, ast.Constant) and isinstance(e.value, (int, bool)):
            return int(e.value)
        if isinstance(e, ast.Name) and e.id in self.consts:
            return self.consts[e.id]
        t = norm(e)
        if t in ("len(shape)", "self.ndim", "len(self.shape)", "len(self._shape)", "shape.size", "origin.size"):
            return self.ndim
        if isinstance(e, ast.BinOp) and isinstance(e.op, (ast.Add, ast.Sub, ast.Pow, ast.Mult)):
            a, b = self.const(e.left), self.const(e.right)
            if a is not None and b is not None:
                return {ast.Add: a + b, ast.Sub: a - b, ast.Mult: a * b, ast.Pow: a ** b if 0 <= b < 8 else None}[type(e.op)]
        return None

    def fold(self, test):
        if isinstance(test, ast.Compare) and len(test.ops) == 1:
            a, b = self.const(test.left), self.const(test.comparators[0])
            if a is not None and b is not None:
                op = type(test.ops[0])
                return {ast.Eq: a == b, ast.NotEq: a != b, ast.Lt: a < b, ast.LtE: a <= b, ast.Gt: a > b,
                        ast.GtE: a >= b}.get(op)
        return None

    # ------------------------------------------------------------------ expressions
    def dim_of_len(self, e):
        """Length of a 1-D thing described by an integer expression such as shape[k] + 1."""
        if isinstance(e, ast.Subscript) and norm(e.value) in self.shape_names | {"self.shape", "self._shape"}:
            k = self.const(e.slice)
            if k is not None:
                if k >= self.ndim:
                    self.problems.append(("axis", norm(e), e))
                    return "?"
                return ("n", k, 0)
        if isinstance(e, ast.BinOp) and isinstance(e.op, (ast.Add, ast.Sub)):
            a = self.dim_of_len(e.left)
            c = self.const(e.right)
            if isinstance(a, tuple) and a[0] == "n" and c is not None:
                return ("n", a[1], a[2] + (c if isinstance(e.op, ast.Add) else -c))
        c = self.const(e)
        if c is not None:
            return c
        return "?"

    def dimlist(self, e):
        """A Python list/tuple of dimension terms: a display, `[d] * k`, or a name bound to one."""
        if isinstance(e, (ast.List, ast.Tuple)) and e.elts and not any(isinstance(x, ast.Starred) for x in e.elts):
            ds = [self.dim_of_len(x) for x in e.elts]
            return ds if "?" not in ds else None
        if isinstance(e, ast.BinOp) and isinstance(e.op, ast.Mult):
            for lst, k in ((e.left, e.right), (e.right, e.left)):
                if isinstance(lst, (ast.List, ast.Tuple)):
                    base, n = self.dimlist(lst), self.const(k)
                    if base is not None and n is not None and 0 <= n <= 8:
                        return base * n
        if isinstance(e, ast.Name) and isinstance(self.env.get(e.id), tuple) and self.env[e.id][0] == "dims":
            return list(self.env[e.id][1])
        if isinstance(e, ast.Call) and norm(e.func) in ("tuple", "list") and len(e.args) == 1:
            return self.dimlist(e.args[0])
        return None

    def reshape(self, v, target):
        """Shape after reshaping ``v`` to the dimension list ``target`` -- accepted only when the
        element count is visibly preserved (the same non-unit dimensions in the same order)."""
        if v[0] != "arr":
            return UNKNOWN
        src = [d for d in v[1] if d != 1]
        dst = [d for d in target if d != 1]
        if src == dst and not any(isinstance(d, tuple) and d[0] in ("ravel", "kron") for d in src):
            return arr(*target)
        return UNKNOWN

    def ev(self, e):
        if isinstance(e, ast.Constant):
            return SCALAR if isinstance(e.value, (int, float, complex, bool)) else UNKNOWN
        if isinstance(e, ast.Name):
            if e.id in self.env:
                return self.env[e.id]
            if e.id in self.consts:
                return SCALAR
            return UNKNOWN
        if isinstance(e, ast.Attribute):
            if norm(e) in ("np.pi", "np.e", "np.inf"):
                return SCALAR
            if norm(e) in ("self.shape", "self._shape"):
                return ("shape", self.ndim)
            if e.attr == "T":
                v = self.ev(e.value)
                return arr(*reversed(v[1])) if v[0] == "arr" else v
            return UNKNOWN
        if isinstance(e, ast.UnaryOp):
            return self.ev(e.operand)
        dl = self.dimlist(e)
        if dl is not None:
            return ("dims", tuple(dl))
        if isinstance(e, ast.BinOp):
            a, b = self.ev(e.left), self.ev(e.right)
            r = broadcast(a, b)
            if r[0] == "conflict":
                self.problems.append(("broadcast", f"{norm(e)[:60]}: shapes {r[1]}", e))
                return UNKNOWN
            return r
        if isinstance(e, ast.Subscript):
            base = e.value
            if norm(base) in self.shape_names | {"self.shape", "self._shape"}:
                k = self.const(e.slice)
                if k is not None and k >= self.ndim:
                    self.problems.append(("axis", norm(e), e))
                return SCALAR
            v = self.ev(base)
            if v[0] != "arr":
                return UNKNOWN if v != SCALAR else SCALAR
            idx = list(e.slice.elts) if isinstance(e.slice, ast.Tuple) else [e.slice]
            dims = list(v[1])
            out = []
            pos = 0
            for i in idx:
                if isinstance(i, ast.Constant) and i.value is None:
                    out.append(1)
                elif isinstance(i, ast.Slice) and i.lower is None and i.upper is None and i.step is None:
                    if pos >= len(dims):
                        return UNKNOWN
                    out.append(dims[pos])
                    pos += 1
                elif isinstance(i, ast.Constant) and isinstance(i.value, int):
                    pos += 1
                else:
                    return UNKNOWN
            out += dims[pos:]
            return arr(*out)
        if isinstance(e, ast.Call):
            return self.ev_call(e)
        if isinstance(e, ast.IfExp):
            k = self.fold(e.test)
            if k is True:
                return self.ev(e.body)
            if k is False:
                return self.ev(e.orelse)
            a, b = self.ev(e.body), self.ev(e.orelse)
            return a if a == b else UNKNOWN
        return UNKNOWN

    def ev_call(self, e):
        fn = norm(e.func)
        args = e.args
        if fn in ("np.prod", "np.sum", "np.linalg.det", "np.dot", "np.abs", "float", "int", "len", "np.linalg.norm") and args:
            v = self.ev(args[0])
            if fn in ("np.prod", "np.sum", "len", "np.linalg.det", "float", "int") or v[0] != "arr":
                return SCALAR
        if fn.startswith("self._calculate_") or fn in ("np.cross",):
            return SCALAR
        if fn in ("np.ones", "np.zeros", "np.empty") and args:
            a = args[0]
            if norm(a) in self.shape_names:
                return arr(*[("n", k, 0) for k in range(self.ndim)])
            if isinstance(a, ast.Call) and norm(a.func) == "np.prod" and norm(a.args[0]) in self.shape_names:
                return arr(("prod",))
            if isinstance(a, (ast.Tuple, ast.List)):
                return arr(*[self.dim_of_len(x) for x in a.elts])
            return arr(self.dim_of_len(a))
        if fn in ("np.full", "np.ones", "np.zeros", "np.empty") and args and isinstance(args[0], ast.Name) and \
                args[0].id in self.__dict__.get("prod_names", ()):
            return arr(("prod",))
        if fn in ("np.multiply.outer", "np.outer") and len(args) == 2:
            a, b = self.ev(args[0]), self.ev(args[1])
            if a[0] == "arr" and b[0] == "arr" and (fn == "np.multiply.outer" or (len(a[1]) == 1 and len(b[1]) == 1)):
                return arr(*(a[1] + b[1]))
            return UNKNOWN
        if fn == "np.full" and args:
            a = args[0]
            if isinstance(a, ast.Call) and norm(a.func) == "np.prod" and norm(a.args[0]) in self.shape_names:
                return arr(("prod",))
            if norm(a) in self.shape_names:
                return arr(*[("n", k, 0) for k in range(self.ndim)])
            return arr(self.dim_of_len(a))
        if fn == "np.arange":
            if len(args) == 1:
                return arr(self.dim_of_len(args[0]))
            if len(args) >= 2:
                lo = self.const(args[0])
                hi = self.dim_of_len(args[1])
                if lo is not None and isinstance(hi, tuple) and hi[0] == "n":
                    return arr(("n", hi[1], hi[2] - lo))
                if lo is not None and isinstance(hi, int):
                    return arr(hi - lo)
            return arr("?")
        if fn == "np.outer" and len(args) == 2:
            a, b = self.ev(args[0]), self.ev(args[1])
            if a[0] == "arr" and b[0] == "arr" and len(a[1]) == 1 and len(b[1]) == 1:
                return arr(a[1][0], b[1][0])
            return UNKNOWN
        if fn in ELEMENTWISE and args:
            return self.ev(args[0])
        if fn in ("np.ravel",) and args:
            v = self.ev(args[0])
            self.last_ravel_arg = v
            if v[0] == "arr":
                return ("arr", (("ravel", v[1]),))
            return UNKNOWN
        if isinstance(e.func, ast.Attribute) and e.func.attr in ("ravel", "flatten", "reshape") and not self_is_np(e.func):
            v = self.ev(e.func.value)
            if e.func.attr in ("ravel", "flatten") and v[0] == "arr":
                return ("arr", (("ravel", v[1]),))
            if e.func.attr == "reshape" and args:
                tgt = self.dimlist(args[0]) if len(args) == 1 else self.dimlist(ast.Tuple(elts=list(args), ctx=ast.Load()))
                if tgt is not None:
                    return self.reshape(v, tgt)
            return UNKNOWN
        if fn == "np.einsum" and args and isinstance(args[0], ast.Constant) and isinstance(args[0].value, str):
            spec = args[0].value.replace(" ", "")
            if "->" not in spec:
                return UNKNOWN
            ins, out = spec.split("->")
            ins = ins.split(",")
            ops = [self.ev(a) for a in args[1:]]
            if len(ins) != len(ops):
                self.problems.append(("einsum", f"{spec}: {len(ops)} operands", e))
                return UNKNOWN
            letters = {}
            for s, v in zip(ins, ops):
                if v == SCALAR:
                    continue
                if v[0] != "arr":
                    return UNKNOWN
                if len(s) != len(v[1]):
                    self.problems.append(("einsum", f"`{spec}`: operand with subscripts '{s}' has {len(v[1])} axes "
                                                    f"{show_shape(v)}", e))
                    return UNKNOWN
                for ch, d in zip(s, v[1]):
                    if ch in letters and letters[ch] != d and d != 1 and letters[ch] != 1:
                        self.problems.append(("einsum", f"`{spec}`: index '{ch}' runs over {show_dim(letters[ch])} and "
                                                        f"over {show_dim(d)}", e))
                    letters.setdefault(ch, d)
            return arr(*[letters.get(ch, "?") for ch in out])
        if fn == "np.kron" and len(args) == 2:
            a, b = self.ev(args[0]), self.ev(args[1])
            if a[0] == "arr" and b[0] == "arr" and len(a[1]) == 1 and len(b[1]) == 1:
                return arr(("kron", a[1][0], b[1][0]))
            return UNKNOWN
        if isinstance(e.func, ast.Name) and e.func.id in self.helpers:
            h = self.helpers[e.func.id]
            params = [a.arg for a in h.args.args]
            sub = ShapeInterp(self.ndim, h, consts=dict(self.consts), helpers=self.helpers, shape_names=self.shape_names)
            sub.env = dict(self.env)
            for p, a in zip(params, args):
                c = self.const(a)
                if c is not None:
                    sub.consts[p] = c
                    sub.env.pop(p, None)
                else:
                    sub.consts.pop(p, None)
                    sub.env[p] = self.ev(a)
            sub.run(h.body)
            self.problems += sub.problems
            outs = {r for r in sub.returns}
            if len(outs) == 1:
                return outs.pop()
            return UNKNOWN
        return UNKNOWN

    # ------------------------------------------------------------------ statements
    def run(self, body):
        for s in body:
            if self.stmt(s) == "stop":
                return "stop"

    def stmt(self, s):
        if isinstance(s, ast.Assign):
            v = self.ev(s.value)
            for t in s.targets:
                if isinstance(t, ast.Name):
                    pn = self.__dict__.setdefault("prod_names", set())
                    if isinstance(s.value, ast.Call) and norm(s.value.func) in ("np.prod", "math.prod") and s.value.args \
                            and norm(s.value.args[0]) in self.shape_names | {"self.shape", "self._shape"}:
                        pn.add(t.id)   # a local holding the total number of points
                    else:
                        pn.discard(t.id)
                    c = self.const(s.value)
                    if c is not None and v in (SCALAR, UNKNOWN):
                        self.consts[t.id] = c
                    else:
                        self.consts.pop(t.id, None)
                    self.env[t.id] = v
                elif isinstance(t, ast.Subscript) and isinstance(t.value, ast.Name) and \
                        isinstance(self.env.get(t.value.id), tuple) and self.env[t.value.id][0] == "dims":
                    k, d = self.const(t.slice), self.dim_of_len(s.value)
                    ds = list(self.env[t.value.id][1])
                    if k is not None and -len(ds) <= k < len(ds) and d != "?":
                        ds[k] = d
                        self.env[t.value.id] = ("dims", tuple(ds))
                    else:
                        self.env[t.value.id] = UNKNOWN
        elif isinstance(s, ast.AugAssign):
            if isinstance(s.target, ast.Name):
                r = broadcast(self.ev(s.target), self.ev(s.value))
                if r[0] == "conflict":
                    self.problems.append(("broadcast", f"{norm(s)[:60]}: shapes {r[1]}", s))
                    r = UNKNOWN
                self.env[s.target.id] = r
        elif isinstance(s, ast.Return):
            if s.value is not None:
                self.returns.append(self.ev(s.value))
            else:
                self.returns.append(("none",))
            return "stop"
        elif isinstance(s, ast.If):
            k = self.fold(s.test)
            if k is True:
                return self.run(s.body)
            if k is False:
                return self.run(s.orelse)
            # unknown guard: analyse both, keep the env of the fall-through
            saved = (dict(self.env), dict(self.consts))
            r1 = self.run(s.body)
            e1 = (self.env, self.consts)
            self.env, self.consts = dict(saved[0]), dict(saved[1])
            r2 = self.run(s.orelse)
            if r1 == "stop" and r2 == "stop":
                return "stop"
            if r1 == "stop":
                return None
            if r2 == "stop":
                self.env, self.consts = e1
                return None
            for k2 in set(e1[0]) | set(self.env):
                if e1[0].get(k2) != self.env.get(k2):
                    self.env[k2] = UNKNOWN
        elif isinstance(s, ast.FunctionDef):
            self.helpers[s.name] = s
        elif isinstance(s, ast.Raise):
            return "stop"
        elif isinstance(s, ast.For) and isinstance(s.target, ast.Name) and isinstance(s.iter, ast.Call) and \
                norm(s.iter.func) == "range" and 1 <= len(s.iter.args) <= 3 and not s.iter.keywords and \
                all(self.const(a) is not None and abs(self.const(a)) <= 8 for a in s.iter.args) and not s.orelse \
                and (len(s.iter.args) < 3 or self.const(s.iter.args[2]) != 0):
            # a loop over the (known) dimensionality is unrolled
            for i in range(*[self.const(a) for a in s.iter.args]):
                self.consts[s.target.id] = i
                self.env.pop(s.target.id, None)
                if self.run(s.body) == "stop":
                    return "stop"
        elif isinstance(s, (ast.For, ast.While)):
            self.run(s.body)
        elif isinstance(s, ast.Expr):
            pass
        return None


def self_is_np(attr_node):
    return isinstance(attr_node.value, ast.Name) and attr_node.value.id in ("np", "numpy")


def show_dim(d):
    if isinstance(d, tuple) and d and d[0] == "n":
        return f"shape[{d[1]}]" + (f"{d[2]:+d}" if d[2] else "")
    if isinstance(d, tuple) and d and d[0] == "prod":
        return "prod(shape)"
    if isinstance(d, tuple) and d and d[0] == "ravel":
        return "ravel(" + ", ".join(show_dim(x) for x in d[1]) + ")"
    if isinstance(d, tuple) and d and d[0] == "kron":
        return f"({show_dim(d[1])} x {show_dim(d[2])})"
    return str(d)


def show_shape(v):
    if v[0] == "arr":
        return "(" + ", ".join(show_dim(d) for d in v[1]) + ")"
    return v[0]


# --------------------------------------------------------------------------------------------
# concrete-configuration shape interpreter (dims are ints or the generic symbol "N")
# --------------------------------------------------------------------------------------------
class Conflict(Exception):
    pass


class CShapes:
    """Abstract interpreter over array shapes for one concrete configuration.

    Values: ("arr", dims) | ("scalar",) | ("none",) | ("shape", dims) (a Python tuple of ints,
    e.g. x.shape) | ("int", n) | ("bool", b) | ("tuple", [values]) | ("unknown",).
    dims are ints or "N" (a generic size >= 2).  Guards whose value is known in the configuration
    are folded; `raise` ends a path ("rejected")."""

    def __init__(self, env, where):
        self.env = dict(env)
        self.problems = []   # (kind, text, node)
        self.rejected = None
        self.where = where
        self.fields = {}
        self.returned = False
        self.returns = []
        self.resolver = None    # name -> FunctionDef of a private helper method (set by the rule)
        self.depth = 0

    def call_helper(self, fn_node, args, kw, node):
        """Interpret a private helper with the argument values of this configuration."""
        sub = CShapes({}, None)
        sub.fields = self.fields
        sub.problems = self.problems
        sub.resolver = self.resolver
        sub.depth = self.depth + 1
        params = [a.arg for a in fn_node.args.args]
        is_static = any(norm(d) == "staticmethod" for d in fn_node.decorator_list)
        if not is_static and params and params[0] in ("self", "cls"):
            params = params[1:]
        for p_, v_ in zip(params, args):
            sub.env[p_] = v_
        for k_, v_ in kw.items():
            sub.env[k_] = self.ev(v_)
        body = [s_ for s_ in fn_node.body if not (isinstance(s_, ast.Expr) and isinstance(s_.value, ast.Constant))]
        sub.run(body)
        if sub.rejected is not None and not sub.returns:
            self.rejected = sub.rejected
            return UNKNOWN
        vals = [v for v in sub.returns]
        if vals and all(v == vals[0] for v in vals):
            return vals[0]
        return UNKNOWN

    # -------------------------------------------------------------- helpers
    @staticmethod
    def bdim(x, y):
        if x == 1:
            return y
        if y == 1 or x == y:
            return x
        raise Conflict(f"{x} vs {y}")

    def bcast(self, a, b, node):
        if a[0] != "arr" and b[0] != "arr":
            if "unknown" in (a[0], b[0]):
                return UNKNOWN
            return SCALAR
        if a[0] in ("scalar", "int"):
            return b
        if b[0] in ("scalar", "int"):
            return a
        if a[0] != "arr" or b[0] != "arr":
            return UNKNOWN
        da, db = list(a[1]), list(b[1])
        n = max(len(da), len(db))
        da = [1] * (n - len(da)) + da
        db = [1] * (n - len(db)) + db
        try:
            return ("arr", tuple(self.bdim(x, y) for x, y in zip(da, db)))
        except Conflict:
            self.problems.append(("broadcast", f"`{norm(node)[:70]}`: operands of shape {tuple(a[1])} and {tuple(b[1])} "
                                               f"cannot be broadcast", node))
            return UNKNOWN

    def truth(self, v):
        if v[0] == "bool":
            return v[1]
        if v[0] == "int":
            return v[1] != 0
        if v[0] == "none":
            return False
        return None

    # -------------------------------------------------------------- expressions
    def ev(self, e):
        if isinstance(e, ast.Constant):
            if e.value is None:
                return ("none",)
            if isinstance(e.value, bool):
                return ("bool", e.value)
            if isinstance(e.value, int):
                return ("int", e.value)
            if isinstance(e.value, float):
                return SCALAR
            return UNKNOWN
        if isinstance(e, ast.Name):
            return self.env.get(e.id, UNKNOWN)
        if isinstance(e, ast.Attribute):
            if isinstance(e.value, ast.Name) and e.value.id == "self":
                return self.fields.get(e.attr, self.env.get(norm(e), UNKNOWN))
            v = self.ev(e.value)
            if v[0] == "arr":
                if e.attr == "shape":
                    return ("shape", tuple(v[1]))
                if e.attr == "ndim":
                    return ("int", len(v[1]))
                if e.attr == "size":
                    p = 1
                    for d in v[1]:
                        if d == 0:
                            return ("int", 0)
                        p = p * d if isinstance(d, int) and isinstance(p, int) else "N"
                    return ("int", p) if isinstance(p, int) else SCALAR
                if e.attr == "T":
                    return ("arr", tuple(reversed(v[1])))
                if e.attr == "dtype":
                    return UNKNOWN
            return UNKNOWN
        if isinstance(e, ast.Tuple):
            vals = [self.ev(x) for x in e.elts]
            if all(v[0] == "int" for v in vals):
                return ("shape", tuple(v[1] for v in vals))
            return ("tuple", vals)
        if isinstance(e, ast.List):
            return ("list", [self.ev(x) for x in e.elts])
        if isinstance(e, ast.UnaryOp):
            v = self.ev(e.operand)
            if isinstance(e.op, ast.Not):
                t = self.truth(v)
                return ("bool", not t) if t is not None else UNKNOWN
            if isinstance(e.op, ast.USub) and v[0] == "int":
                return ("int", -v[1])
            return v
        if isinstance(e, ast.BinOp):
            a, b = self.ev(e.left), self.ev(e.right)
            if a[0] == "shape" and b[0] == "shape" and isinstance(e.op, ast.Add):
                return ("shape", a[1] + b[1])
            if a[0] == "int" and b[0] == "int" and isinstance(e.op, (ast.Add, ast.Sub, ast.Mult)):
                return ("int", {ast.Add: a[1] + b[1], ast.Sub: a[1] - b[1], ast.Mult: a[1] * b[1]}[type(e.op)])
            if isinstance(e.op, ast.MatMult):
                return self.matmul(a, b, e)
            return self.bcast(a, b, e)
        if isinstance(e, ast.Compare) and len(e.ops) == 1:
            a, b = self.ev(e.left), self.ev(e.comparators[0])
            op = type(e.ops[0])
            if op in (ast.Is, ast.IsNot):
                if b[0] == "none" and a[0] != "unknown":
                    r = a[0] == "none"
                    return ("bool", r if op is ast.Is else not r)
                return UNKNOWN
            if a[0] in ("int", "shape") and a[0] == b[0]:
                x, y = a[1], b[1]
                if any(isinstance(d, str) for d in (list(x) if isinstance(x, tuple) else [x]) +
                       (list(y) if isinstance(y, tuple) else [y])) and x != y:
                    return UNKNOWN
                try:
                    return ("bool", {ast.Eq: x == y, ast.NotEq: x != y, ast.Lt: x < y, ast.LtE: x <= y,
                                     ast.Gt: x > y, ast.GtE: x >= y}[op])
                except (KeyError, TypeError):
                    return UNKNOWN
            if a[0] == "arr" or b[0] == "arr":
                return self.bcast(a, b, e)
            return UNKNOWN
        if isinstance(e, ast.BoolOp):
            # short-circuit evaluation: operands after a decisive one are not evaluated (and cannot fail)
            unknown = False
            for v in e.values:
                t = self.truth(self.ev(v))
                if isinstance(e.op, ast.And) and t is False:
                    return ("bool", False)
                if isinstance(e.op, ast.Or) and t is True:
                    return ("bool", True)
                if t is None:
                    unknown = True
            if unknown:
                return UNKNOWN
            return ("bool", isinstance(e.op, ast.And))
        if isinstance(e, ast.IfExp):
            t = self.truth(self.ev(e.test))
            if t is True:
                return self.ev(e.body)
            if t is False:
                return self.ev(e.orelse)
            return UNKNOWN
        if isinstance(e, ast.Subscript):
            return self.subscript(e)
        if isinstance(e, ast.Call):
            return self.call(e)
        return UNKNOWN

    def matmul(self, a, b, node):
        if a[0] != "arr" or b[0] != "arr":
            return UNKNOWN
        da, db = a[1], b[1]
        if not da or not db:
            return UNKNOWN
        inner_a = da[-1]
        inner_b = db[0] if len(db) == 1 else db[-2]
        if inner_a != inner_b:
            self.problems.append(("matmul", f"`{norm(node)[:70]}`: inner dimensions {inner_a} and {inner_b} differ "
                                            f"(shapes {tuple(da)} @ {tuple(db)})", node))
            return UNKNOWN
        out = tuple(da[:-1]) + (tuple(db[1:]) if len(db) == 1 else tuple(db[:-2]) + (db[-1],))
        return ("arr", out) if out else SCALAR

    def subscript(self, e):
        v = self.ev(e.value)
        sl = e.slice
        if v[0] == "shape":
            if isinstance(sl, ast.Slice):
                lo = self.ev(sl.lower)[1] if sl.lower is not None and self.ev(sl.lower)[0] == "int" else None
                hi = self.ev(sl.upper)[1] if sl.upper is not None and self.ev(sl.upper)[0] == "int" else None
                return ("shape", v[1][lo:hi])
            i = self.ev(sl)
            if i[0] == "int":
                try:
                    d = v[1][i[1]]
                except IndexError:
                    self.problems.append(("index", f"`{norm(e)}`: shape tuple {v[1]} has no entry {i[1]}", e))
                    return UNKNOWN
                return ("int", d) if isinstance(d, int) else SCALAR
            return UNKNOWN
        if v[0] != "arr":
            return UNKNOWN
        idx = list(sl.elts) if isinstance(sl, ast.Tuple) else [sl]
        dims = list(v[1])
        out = []
        pos = 0
        for i in idx:
            if isinstance(i, ast.Constant) and i.value is None:
                out.append(1)
            elif isinstance(i, ast.Slice):
                if pos >= len(dims):
                    self.problems.append(("index", f"`{norm(e)[:60]}`: too many indices for shape {tuple(dims)}", e))
                    return UNKNOWN
                out.append(dims[pos] if (i.lower is None and i.upper is None) else "N")
                pos += 1
            else:
                iv = self.ev(i)
                if iv[0] == "int" or iv == SCALAR:
                    if pos >= len(dims):
                        self.problems.append(("index", f"`{norm(e)[:60]}`: too many indices for shape {tuple(dims)}", e))
                        return UNKNOWN
                    if iv[0] == "int" and isinstance(dims[pos], int) and not (-dims[pos] <= iv[1] < dims[pos]):
                        self.problems.append(("index", f"`{norm(e)[:60]}`: index {iv[1]} out of range for axis of "
                                                       f"length {dims[pos]}", e))
                    pos += 1
                elif iv[0] == "arr":
                    out.extend(iv[1])
                    pos += 1
                elif iv[0] == "list" and all(x[0] in ("int", "scalar") for x in iv[1]):
                    out.append(len(iv[1]))     # fancy index with a list of integers
                    pos += 1
                else:
                    return UNKNOWN
        out += dims[pos:]
        return ("arr", tuple(out)) if out else SCALAR

    def call(self, e):
        fn = norm(e.func)
        args = [self.ev(a) for a in e.args]
        kw = {k.arg: k.value for k in e.keywords}
        if self.resolver is not None and isinstance(e.func, ast.Attribute) and isinstance(e.func.value, ast.Name) and \
                e.func.attr.startswith("_") and not e.func.attr.startswith("__") and self.depth < 3:
            hf = self.resolver(e.func.value.id, e.func.attr)
            if hf is not None:
                return self.call_helper(hf, args, kw, e)
        if fn in ("np.zeros", "np.ones", "np.empty") and args:
            a = args[0]
            if a[0] == "shape":
                return ("arr", tuple(a[1]))
            if a[0] == "int":
                return ("arr", (a[1],))
            if a[0] == "tuple":
                dims = []
                for x in a[1]:
                    dims.append(x[1] if x[0] == "int" else "N")
                return ("arr", tuple(dims))
            return UNKNOWN
        if fn in ("np.abs", "np.floor", "np.ceil", "np.sqrt", "np.exp", "np.asarray", "np.array", "np.ravel_keep") and args and args[0][0] == "arr":
            return args[0]
        if fn == "np.array" and args and args[0][0] == "list":
            items = args[0][1]
            if not items:
                return ("arr", (0,))
            first = items[0]
            if any(x == UNKNOWN for x in items):
                return UNKNOWN       # an element of unknown shape: the shape of the array is unknown too
            if first[0] == "list":
                inner = first[1]
                return ("arr", (len(items), len(inner)))
            if first[0] == "arr":
                return ("arr", (len(items),) + tuple(first[1]))
            return ("arr", (len(items),))
        if fn == "np.cross" and len(args) == 2 and args[0][0] == "arr" and args[1][0] == "arr":
            return self.bcast(args[0], args[1], e)
        if isinstance(e.func, ast.Attribute) and e.func.attr in ("prod", "sum", "min", "max", "mean") and not e.args \
                and "axis" not in kw and not fn.startswith("np."):
            recv = self.ev(e.func.value)
            if recv[0] in ("arr", "scalar", "int"):
                return SCALAR
        if fn in ("abs", "float", "np.float64") and args and args[0][0] in ("scalar", "int"):
            return SCALAR
        if fn == "np.linalg.norm" and args and args[0][0] == "arr":
            ax = kw.get("axis")
            if ax is None:
                return SCALAR
            a = self.ev(ax)
            dims = list(args[0][1])
            if a[0] == "int":
                if not (-len(dims) <= a[1] < len(dims)):
                    self.problems.append(("axis", f"`{norm(e)[:70]}`: axis {a[1]} out of bounds for an array of shape "
                                                  f"{tuple(dims)}", e))
                    return UNKNOWN
                del dims[a[1]]
                return ("arr", tuple(dims)) if dims else SCALAR
            return UNKNOWN
        if fn == "np.linalg.svd" and args and args[0][0] == "arr" and len(args[0][1]) == 2:
            k, d = args[0][1]
            m = min(k, d) if isinstance(k, int) and isinstance(d, int) else "N"
            return ("tuple", [("arr", (k, m)), ("arr", (m,)), ("arr", (m, d))])
        if fn == "np.einsum" and e.args and isinstance(e.args[0], ast.Constant):
            spec = e.args[0].value.replace(" ", "")
            ins = spec.split("->")[0].split(",")
            ops = args[1:]
            letters = {}
            for s_, v in zip(ins, ops):
                if v[0] != "arr" or len(s_) != len(v[1]):
                    if v[0] == "arr":
                        self.problems.append(("einsum", f"`{spec}`: operand '{s_}' has shape {tuple(v[1])}", e))
                    return UNKNOWN
                for ch, d in zip(s_, v[1]):
                    if ch in letters and letters[ch] != d:
                        self.problems.append(("einsum", f"`{spec}`: index '{ch}' has sizes {letters[ch]} and {d}", e))
                    letters.setdefault(ch, d)
            if "->" in spec:
                out = spec.split("->")[1]
            else:
                allc = "".join(ins)
                out = "".join(sorted(c for c in set(allc) if allc.count(c) == 1))
            return ("arr", tuple(letters.get(c, "N") for c in out)) if out else SCALAR
        if isinstance(e.func, ast.Attribute):
            recv = self.ev(e.func.value)
            m = e.func.attr
            if recv[0] == "arr":
                if m in ("min", "max", "sum", "mean", "all", "any"):
                    ax = kw.get("axis") or (e.args[0] if e.args else None)
                    if ax is None:
                        if m in ("min", "max") and any(d == 0 for d in recv[1]):
                            self.problems.append(("empty-reduction", f"`{norm(e)[:60]}`: {m}() of an array of shape "
                                                                    f"{tuple(recv[1])} (zero-size) raises ValueError", e))
                        return SCALAR
                    a = self.ev(ax)
                    dims = list(recv[1])
                    if a[0] == "int" and -len(dims) <= a[1] < len(dims):
                        if m in ("min", "max") and dims[a[1]] == 0:
                            self.problems.append(("empty-reduction", f"`{norm(e)[:60]}`: {m} along an axis of length 0", e))
                        del dims[a[1]]
                        return ("arr", tuple(dims)) if dims else SCALAR
                    return UNKNOWN
                if m in ("copy", "astype", "clip"):
                    return recv
                if m == "reshape":
                    return UNKNOWN
        if fn == "len" and args:
            if args[0][0] == "arr" and args[0][1]:
                d = args[0][1][0]
                return ("int", d) if isinstance(d, int) else SCALAR
            if args[0][0] == "shape":
                return ("int", len(args[0][1]))
        if fn in ("max", "min") and args and args[0][0] == "shape" and all(isinstance(d, int) for d in args[0][1]):
            return ("int", (max if fn == "max" else min)(args[0][1]))
        if fn in ("abs", "float", "int"):
            return SCALAR
        if fn in ("np.prod", "np.sum") and args and args[0][0] == "arr":
            ax = kw.get("axis")
            if ax is None:
                return SCALAR
            a = self.ev(ax)
            dims = list(args[0][1])
            if a[0] == "int":
                if not (-len(dims) <= a[1] < len(dims)):
                    self.problems.append(("axis", f"`{norm(e)[:70]}`: axis {a[1]} out of bounds for shape {tuple(dims)}", e))
                    return UNKNOWN
                del dims[a[1]]
                return ("arr", tuple(dims)) if dims else SCALAR
        if fn in self.summaries:
            return self.summaries[fn](self, e, args, kw)
        return UNKNOWN

    summaries = {}

    # -------------------------------------------------------------- statements
    def run(self, body):
        for s in body:
            if self.rejected is not None or self.returned:
                return
            self.stmt(s)

    def assign(self, t, v):
        if isinstance(t, ast.Name):
            self.env[t.id] = v
        elif isinstance(t, ast.Attribute) and norm(t).startswith("self."):
            self.fields[t.attr] = v
        elif isinstance(t, (ast.Tuple, ast.List)):
            if v[0] == "tuple" and len(v[1]) == len(t.elts):
                for x, y in zip(t.elts, v[1]):
                    self.assign(x, y)
            elif v[0] == "arr" and v[1] and isinstance(v[1][0], int) and not any(isinstance(x, ast.Starred) for x in t.elts):
                if v[1][0] != len(t.elts):
                    self.problems.append(("unpack", f"`{norm(t)} = ...`: an array whose first axis has length {v[1][0]} is "
                                                    f"unpacked into {len(t.elts)} names (ValueError)", t))
                for x in t.elts:
                    self.assign(x, ("arr", tuple(v[1][1:])) if len(v[1]) > 1 else SCALAR)
            else:
                for x in t.elts:
                    self.assign(x, UNKNOWN)

    def stmt(self, s):
        if isinstance(s, ast.Assign):
            v = self.ev(s.value)
            for t in s.targets:
                self.assign(t, v)
        elif isinstance(s, ast.AugAssign):
            v = self.bcast(self.ev(s.target), self.ev(s.value), s)
            self.assign(s.target, v)
        elif isinstance(s, ast.If):
            t = self.truth(self.ev(s.test))
            if t is True:
                self.run(s.body)
            elif t is False:
                self.run(s.orelse)
            else:
                # unknown condition: explore the fall-through of both sides conservatively
                saved = (dict(self.env), dict(self.fields))
                self.run(s.body)
                r1 = self.rejected
                ret1 = self.returned
                e1 = (self.env, self.fields)
                self.rejected = None
                self.returned = False
                self.env, self.fields = dict(saved[0]), dict(saved[1])
                self.run(s.orelse)
                ret2 = self.returned
                self.returned = ret1 and ret2
                if ret1 and not ret2 and r1 is None:
                    pass      # only the else side falls through: keep its state
                elif ret2 and not ret1 and self.rejected is None:
                    self.env, self.fields = e1
                elif self.rejected is not None and r1 is None:
                    self.rejected = None
                    self.env, self.fields = e1
                elif r1 is not None and self.rejected is None:
                    pass
                elif r1 is None and self.rejected is None:
                    for k in set(e1[0]) | set(self.env):
                        if e1[0].get(k) != self.env.get(k):
                            self.env[k] = UNKNOWN
                    for k in set(e1[1]) | set(self.fields):
                        if e1[1].get(k) != self.fields.get(k):
                            self.fields[k] = UNKNOWN
        elif isinstance(s, ast.Raise):
            self.rejected = s
        elif isinstance(s, ast.Assert):
            self.ev(s.test)
        elif isinstance(s, ast.Expr):
            self.ev(s.value)
        elif isinstance(s, ast.Return):
            if s.value is not None:
                self.returns.append(self.ev(s.value))
            self.returned = True


# --------------------------------------------------------------------------------------------
# symbolic integer sequences (monomials in the per-axis point counts) -- index-map strides
# --------------------------------------------------------------------------------------------
class SeqInterp:
    """Evaluates small integer-sequence computations symbolically for a fixed dimensionality.

    A scalar is a polynomial {monomial: coeff} over the symbols n0, n1, n2 (monomial = sorted tuple
    of (symbol, exponent)); a sequence is a Python list of such polynomials.  Supported: the shape
    sequence and constant slices of it, constants, + - *, np.empty/np.zeros/np.ones(k), element stores
    with constant index, loops over range() with constant bounds (unrolled), np.cumprod, np.prod,
    [::-1], np.append, np.array/list displays, np.dot(x, seq) (returned as ("dot", x, seq))."""

    class Undecided(Exception):
        pass

    def __init__(self, ndim, shape_texts=("self.shape", "self._shape", "shape")):
        self.ndim = ndim
        self.env = {}
        self.shape_texts = set(shape_texts)
        self.ret = None
        self.divisors = []   # right operands of the floor divisions executed, in execution order
        self.resolver = None  # name -> FunctionDef of a private method `self.<name>()` without arguments
        self.depth = 0

    # polynomials
    @staticmethod
    def c(k):
        return {(): k} if k else {}

    @staticmethod
    def sym(i):
        return {((f"n{i}", 1),): 1}

    @staticmethod
    def add(p, q, sign=1):
        out = dict(p)
        for m, k in q.items():
            out[m] = out.get(m, 0) + sign * k
            if out[m] == 0:
                del out[m]
        return out

    @staticmethod
    def mul(p, q):
        out = {}
        for m1, k1 in p.items():
            for m2, k2 in q.items():
                d = dict(m1)
                for a, e in m2:
                    d[a] = d.get(a, 0) + e
                m = tuple(sorted(d.items()))
                out[m] = out.get(m, 0) + k1 * k2
                if out[m] == 0:
                    del out[m]
        return out

    def const_int(self, e):
        v = self.ev(e)
        if isinstance(v, dict) and all(m == () for m in v):
            return v.get((), 0)
        raise self.Undecided(f"not a constant integer: {norm(e)}")

    def ev(self, e):
        t = norm(e)
        if t in self.shape_texts:
            return [self.sym(i) for i in range(self.ndim)]
        if t in ("self.ndim", "len(self.shape)", "len(shape)", "self.shape.size"):
            return self.c(self.ndim)
        if isinstance(e, ast.Constant) and isinstance(e.value, int):
            return self.c(e.value)
        if isinstance(e, ast.Name):
            if e.id in self.env:
                return self.env[e.id]
            raise self.Undecided(f"unknown name {e.id}")
        if isinstance(e, ast.UnaryOp) and isinstance(e.op, ast.USub):
            v = self.ev(e.operand)
            if isinstance(v, dict):
                return {m: -k for m, k in v.items()}
        if isinstance(e, ast.BinOp) and isinstance(e.op, ast.FloorDiv):
            # a coordinate peeled off the flat index: only the divisor matters here
            self.divisors.append(self.ev(e.right))
            raise self.Undecided("quotient of the (unknown) flat index")
        if isinstance(e, ast.BinOp) and isinstance(e.op, (ast.Add, ast.Sub, ast.Mult)):
            a, b = self.ev(e.left), self.ev(e.right)
            if isinstance(a, dict) and isinstance(b, dict):
                if isinstance(e.op, ast.Mult):
                    return self.mul(a, b)
                return self.add(a, b, 1 if isinstance(e.op, ast.Add) else -1)
            raise self.Undecided(f"sequence arithmetic: {t}")
        if isinstance(e, (ast.Tuple, ast.List)):
            return [self.ev(x) for x in e.elts]
        if isinstance(e, ast.Subscript):
            v = self.ev(e.value)
            if not isinstance(v, list):
                raise self.Undecided(f"subscript of a non-sequence: {t}")
            sl = e.slice
            if isinstance(sl, ast.Slice):
                lo = self.const_int(sl.lower) if sl.lower is not None else None
                hi = self.const_int(sl.upper) if sl.upper is not None else None
                st = self.const_int(sl.step) if sl.step is not None else None
                return v[lo:hi:st]
            i = self.const_int(sl)
            try:
                return v[i]
            except IndexError:
                raise self.Undecided(f"index {i} out of range in {t}") from None
        if isinstance(e, ast.Call):
            fn = norm(e.func)
            if fn in ("np.empty", "np.zeros", "np.ones") and e.args:
                k = self.const_int(e.args[0])
                fill = self.c(1) if fn == "np.ones" else ("uninit" if fn == "np.empty" else self.c(0))
                return [fill for _ in range(k)]
            if fn in ("np.asarray", "np.array", "list", "tuple") and e.args:
                return self.ev(e.args[0])
            if fn == "np.cumprod" and e.args:
                v = self.ev(e.args[0])
                out, acc = [], self.c(1)
                for x in v:
                    acc = self.mul(acc, x)
                    out.append(acc)
                return out
            if fn == "np.prod" and e.args:
                v = self.ev(e.args[0])
                acc = self.c(1)
                for x in v:
                    acc = self.mul(acc, x)
                return acc
            if fn == "np.append" and len(e.args) == 2:
                a, b = self.ev(e.args[0]), self.ev(e.args[1])
                return list(a) + (list(b) if isinstance(b, list) else [b])
            if fn in ("np.concatenate", "np.hstack") and e.args and isinstance(e.args[0], (ast.Tuple, ast.List)):
                out = []
                for x in e.args[0].elts:
                    v = self.ev(x)
                    out += v if isinstance(v, list) else [v]
                return out
            if fn == "np.dot" and len(e.args) == 2:
                return ("dot", norm(e.args[0]), self.ev(e.args[1]))
            if fn in ("np.divmod", "divmod", "np.floor_divide") and len(e.args) == 2:
                self.divisors.append(self.ev(e.args[1]))
                raise self.Undecided("quotient of the (unknown) flat index")
            if fn.startswith("self.") and fn.count(".") == 1 and not e.args and not e.keywords and self.resolver and self.depth < 3:
                # a private helper of the grid without arguments (`self._index_strides()`): evaluated in place
                node = self.resolver(fn[5:])
                if node is not None and len(node.args.args) == 1:
                    sub = SeqInterp(self.ndim, tuple(self.shape_texts))
                    sub.resolver, sub.depth = self.resolver, self.depth + 1
                    sub.run([x for x in node.body if not (isinstance(x, ast.Expr) and isinstance(x.value, ast.Constant))])
                    if sub.ret is None:
                        raise self.Undecided(f"helper {fn} returns nothing the analysis can follow")
                    v = sub.ev(sub.ret)
                    self.divisors += sub.divisors
                    return v
        raise self.Undecided(f"unsupported expression `{t[:60]}`")

    def run(self, body):
        for s in body:
            if self.ret is not None:
                return
            if isinstance(s, ast.Expr) and isinstance(s.value, ast.Constant):
                continue
            if isinstance(s, ast.Assign) and len(s.targets) == 1:
                t = s.targets[0]
                if isinstance(t, ast.Name):
                    try:
                        self.env[t.id] = self.ev(s.value)
                    except self.Undecided:
                        self.env.pop(t.id, None)
                elif isinstance(t, ast.Subscript) and isinstance(t.value, ast.Name) and t.value.id in self.env:
                    seq = list(self.env[t.value.id])
                    if isinstance(t.slice, ast.Slice):
                        lo, hi, st = (self.const_int(x) if x is not None else None
                                      for x in (t.slice.lower, t.slice.upper, t.slice.step))
                        val = self.ev(s.value)
                        n_sel = len(seq[lo:hi:st])
                        if not isinstance(val, list):
                            val = [val] * n_sel   # a scalar is broadcast over the slice
                        if len(val) != n_sel:
                            raise self.Undecided(f"slice store of {len(val)} values into {n_sel} places: {norm(s)[:60]}")
                        seq[lo:hi:st] = val
                    else:
                        seq[self.const_int(t.slice)] = self.ev(s.value)
                    self.env[t.value.id] = seq
                elif isinstance(t, ast.Tuple) and not isinstance(s.value, ast.Tuple):
                    try:
                        self.ev(s.value)   # e.g. `i, rest = np.divmod(index, n)`: records the divisor
                    except self.Undecided:
                        pass
                    for a in t.elts:
                        if isinstance(a, ast.Name):
                            self.env.pop(a.id, None)
                elif isinstance(t, ast.Tuple) and isinstance(s.value, ast.Tuple) and len(t.elts) == len(s.value.elts):
                    for a, b in zip(t.elts, s.value.elts):
                        if isinstance(a, ast.Name):
                            try:
                                self.env[a.id] = self.ev(b)
                            except self.Undecided:
                                self.env.pop(a.id, None)
            elif isinstance(s, ast.For) and isinstance(s.iter, ast.Call) and norm(s.iter.func) == "range" \
                    and isinstance(s.target, ast.Name):
                bounds = [self.const_int(a) for a in s.iter.args]
                for i in range(*bounds):
                    self.env[s.target.id] = self.c(i)
                    self.run(s.body)
            elif isinstance(s, ast.For) and isinstance(s.target, ast.Name):
                try:
                    seq = self.ev(s.iter)
                except self.Undecided:
                    seq = None
                if not isinstance(seq, list):
                    raise self.Undecided(f"loop over `{norm(s.iter)[:40]}`")
                for x in seq:
                    self.env[s.target.id] = x
                    self.run(s.body)
            elif isinstance(s, ast.If):
                t = norm(s.test)
                known = {}
                import re
                m = re.fullmatch(r"(self\.ndim|len\(self\.shape\)|len\(shape\)) (==|!=|<|<=|>|>=) (\d)", t)
                if m:
                    known[t] = eval(f"{self.ndim} {m.group(2)} {m.group(3)}")  # noqa: S307 - two literal integers
                if t in known:
                    self.run(s.body if known[t] else s.orelse)
                elif all(isinstance(x, ast.Raise) for x in s.body) and not s.orelse:
                    continue
                else:
                    raise self.Undecided(f"unknown guard `{t}`")
            elif isinstance(s, ast.Return):
                self.ret = s.value
                return


def show_mono_poly(p):
    if not p:
        return "0"
    terms = []
    for m, k in sorted(p.items()):
        mon = "*".join(a if e == 1 else f"{a}^{e}" for a, e in m)
        terms.append((f"{k}*" if k != 1 and mon else (str(k) if not mon else "")) + mon)
    return " + ".join(terms)
