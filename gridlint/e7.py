"""E7 -- symbolic array-shape domain (serves the tensor-layout rule of C13).

An abstract value is one of
  ("scalar",)                       a number
  ("arr", (d0, d1, ...))            an array whose dimensions are symbolic terms
  ("shape", ndim)                   the per-dimension point-count sequence itself
  ("unknown",)
A dimension term is an int, or ("n", k, c) meaning shape[k] + c, or ("prod",) for prod(shape), or "?".

The interpreter is path-sensitive on the dimensionality: the function is analysed once per
ndim in {2, 3}; guards over `dim`, `len(shape)`, `self.ndim` and constant helper arguments are folded.
"""
from __future__ import annotations

import ast

from gridlint.core import AnalysisError, norm

SCALAR = ("scalar",)
UNKNOWN = ("unknown",)
ELEMENTWISE = {"np.sin", "np.cos", "np.exp", "np.sqrt", "np.abs", "np.log", "np.tan", "np.square", "np.float64",
               "np.asarray", "np.array", "np.real", "np.copy"}


def arr(*dims):
    return ("arr", tuple(dims))


def broadcast(a, b):
    """NumPy broadcasting of two abstract values."""
    if a == UNKNOWN or b == UNKNOWN:
        return UNKNOWN
    if a[0] == "shape" or b[0] == "shape":
        # arithmetic on the shape array itself (shape + 1.0, (shape - 1) / shape): a vector of length ndim
        other = b if a[0] == "shape" else a
        sh = a if a[0] == "shape" else b
        if other == SCALAR or other[0] == "shape":
            return sh
        return UNKNOWN
    if a == SCALAR:
        return b
    if b == SCALAR:
        return a
    da, db = list(a[1]), list(b[1])
    n = max(len(da), len(db))
    da = [1] * (n - len(da)) + da
    db = [1] * (n - len(db)) + db
    out = []
    for x, y in zip(da, db):
        if x == 1:
            out.append(y)
        elif y == 1 or x == y:
            out.append(x)
        else:
            return ("conflict", (tuple(da), tuple(db)))
    return arr(*out)


class ShapeInterp:
    def __init__(self, ndim, fn_node, consts=None, helpers=None, shape_names=("shape",), self_scalars=()):
        self.ndim = ndim
        self.fn = fn_node
        self.env = {}
        self.consts = dict(consts or {})
        self.helpers = dict(helpers or {})  # name -> FunctionDef (nested helpers)
        self.shape_names = set(shape_names)
        self.returns = []
        self.problems = []
        for n in shape_names:
            self.env[n] = ("shape", ndim)

    # ------------------------------------------------------------------ constants / guards
    def const(self, e):
        """Integer value of an expression if statically known."""
        if isinstance(e, ast.Constant) and isinstance(e.value, (int, bool)):
            return int(e.value)
        if isinstance(e, ast.Name) and e.id in self.consts:
            return self.consts[e.id]
        t = norm(e)
        if t in ("len(shape)", "self.ndim", "len(self.shape)", "len(self._shape)", "shape.size", "origin.size"):
            return self.ndim
        if isinstance(e, ast.BinOp) and isinstance(e.op, (ast.Add, ast.Sub, ast.Pow, ast.Mult)):
            a, b = self.const(e.left), self.const(e.right)
            if a is not None and b is not None:
                return {ast.Add: a + b, ast.Sub: a - b, ast.Mult: a * b, ast.Pow: a ** b if 0 <= b < 8 else None}[type(e.op)]
        return None

    def fold(self, test):
        if isinstance(test, ast.Compare) and len(test.ops) == 1:
            a, b = self.const(test.left), self.const(test.comparators[0])
            if a is not None and b is not None:
                op = type(test.ops[0])
                return {ast.Eq: a == b, ast.NotEq: a != b, ast.Lt: a < b, ast.LtE: a <= b, ast.Gt: a > b,
                        ast.GtE: a >= b}.get(op)
        return None

    # ------------------------------------------------------------------ expressions
    def dim_of_len(self, e):
        """Length of a 1-D thing described by an integer expression such as shape[k] + 1."""
        if isinstance(e, ast.Subscript) and norm(e.value) in self.shape_names | {"self.shape", "self._shape"}:
            k = self.const(e.slice)
            if k is not None:
                if k >= self.ndim:
                    self.problems.append(("axis", norm(e), e))
                    return "?"
                return ("n", k, 0)
        if isinstance(e, ast.BinOp) and isinstance(e.op, (ast.Add, ast.Sub)):
            a = self.dim_of_len(e.left)
            c = self.const(e.right)
            if isinstance(a, tuple) and a[0] == "n" and c is not None:
                return ("n", a[1], a[2] + (c if isinstance(e.op, ast.Add) else -c))
        c = self.const(e)
        if c is not None:
            return c
        return "?"

    def ev(self, e):
        if isinstance(e, ast.Constant):
            return SCALAR if isinstance(e.value, (int, float, complex, bool)) else UNKNOWN
        if isinstance(e, ast.Name):
            if e.id in self.env:
                return self.env[e.id]
            if e.id in self.consts:
                return SCALAR
            return UNKNOWN
        if isinstance(e, ast.Attribute):
            if norm(e) in ("np.pi", "np.e", "np.inf"):
                return SCALAR
            if norm(e) in ("self.shape", "self._shape"):
                return ("shape", self.ndim)
            if e.attr == "T":
                v = self.ev(e.value)
                return arr(*reversed(v[1])) if v[0] == "arr" else v
            return UNKNOWN
        if isinstance(e, ast.UnaryOp):
            return self.ev(e.operand)
        if isinstance(e, ast.BinOp):
            a, b = self.ev(e.left), self.ev(e.right)
            r = broadcast(a, b)
            if r[0] == "conflict":
                self.problems.append(("broadcast", f"{norm(e)[:60]}: shapes {r[1]}", e))
                return UNKNOWN
            return r
        if isinstance(e, ast.Subscript):
            base = e.value
            if norm(base) in self.shape_names | {"self.shape", "self._shape"}:
                k = self.const(e.slice)
                if k is not None and k >= self.ndim:
                    self.problems.append(("axis", norm(e), e))
                return SCALAR
            v = self.ev(base)
            if v[0] != "arr":
                return UNKNOWN if v != SCALAR else SCALAR
            idx = list(e.slice.elts) if isinstance(e.slice, ast.Tuple) else [e.slice]
            dims = list(v[1])
            out = []
            pos = 0
            for i in idx:
                if isinstance(i, ast.Constant) and i.value is None:
                    out.append(1)
                elif isinstance(i, ast.Slice) and i.lower is None and i.upper is None and i.step is None:
                    if pos >= len(dims):
                        return UNKNOWN
                    out.append(dims[pos])
                    pos += 1
                elif isinstance(i, ast.Constant) and isinstance(i.value, int):
                    pos += 1
                else:
                    return UNKNOWN
            out += dims[pos:]
            return arr(*out)
        if isinstance(e, ast.Call):
            return self.ev_call(e)
        if isinstance(e, ast.IfExp):
            k = self.fold(e.test)
            if k is True:
                return self.ev(e.body)
            if k is False:
                return self.ev(e.orelse)
            a, b = self.ev(e.body), self.ev(e.orelse)
            return a if a == b else UNKNOWN
        return UNKNOWN

    def ev_call(self, e):
        fn = norm(e.func)
        args = e.args
        if fn in ("np.prod", "np.sum", "np.linalg.det", "np.dot", "np.abs", "float", "int", "len", "np.linalg.norm") and args:
            v = self.ev(args[0])
            if fn in ("np.prod", "np.sum", "len", "np.linalg.det", "float", "int") or v[0] != "arr":
                return SCALAR
        if fn.startswith("self._calculate_") or fn in ("np.cross",):
            return SCALAR
        if fn in ("np.ones", "np.zeros", "np.empty") and args:
            a = args[0]
            if norm(a) in self.shape_names:
                return arr(*[("n", k, 0) for k in range(self.ndim)])
            if isinstance(a, ast.Call) and norm(a.func) == "np.prod" and norm(a.args[0]) in self.shape_names:
                return arr(("prod",))
            if isinstance(a, (ast.Tuple, ast.List)):
                return arr(*[self.dim_of_len(x) for x in a.elts])
            return arr(self.dim_of_len(a))
        if fn == "np.full" and args:
            a = args[0]
            if isinstance(a, ast.Call) and norm(a.func) == "np.prod" and norm(a.args[0]) in self.shape_names:
                return arr(("prod",))
            if norm(a) in self.shape_names:
                return arr(*[("n", k, 0) for k in range(self.ndim)])
            return arr(self.dim_of_len(a))
        if fn == "np.arange":
            if len(args) == 1:
                return arr(self.dim_of_len(args[0]))
            if len(args) >= 2:
                lo = self.const(args[0])
                hi = self.dim_of_len(args[1])
                if lo is not None and isinstance(hi, tuple) and hi[0] == "n":
                    return arr(("n", hi[1], hi[2] - lo))
                if lo is not None and isinstance(hi, int):
                    return arr(hi - lo)
            return arr("?")
        if fn == "np.outer" and len(args) == 2:
            a, b = self.ev(args[0]), self.ev(args[1])
            if a[0] == "arr" and b[0] == "arr" and len(a[1]) == 1 and len(b[1]) == 1:
                return arr(a[1][0], b[1][0])
            return UNKNOWN
        if fn in ELEMENTWISE and args:
            return self.ev(args[0])
        if fn in ("np.ravel",) and args:
            v = self.ev(args[0])
            self.last_ravel_arg = v
            if v[0] == "arr":
                return ("arr", (("ravel", v[1]),))
            return UNKNOWN
        if isinstance(e.func, ast.Attribute) and e.func.attr in ("ravel", "flatten", "reshape") and not self_is_np(e.func):
            v = self.ev(e.func.value)
            if e.func.attr in ("ravel", "flatten") and v[0] == "arr":
                return ("arr", (("ravel", v[1]),))
            return UNKNOWN
        if fn == "np.einsum" and args and isinstance(args[0], ast.Constant) and isinstance(args[0].value, str):
            spec = args[0].value.replace(" ", "")
            if "->" not in spec:
                return UNKNOWN
            ins, out = spec.split("->")
            ins = ins.split(",")
            ops = [self.ev(a) for a in args[1:]]
            if len(ins) != len(ops):
                self.problems.append(("einsum", f"{spec}: {len(ops)} operands", e))
                return UNKNOWN
            letters = {}
            for s, v in zip(ins, ops):
                if v == SCALAR:
                    continue
                if v[0] != "arr":
                    return UNKNOWN
                if len(s) != len(v[1]):
                    self.problems.append(("einsum", f"`{spec}`: operand with subscripts '{s}' has {len(v[1])} axes "
                                                    f"{show_shape(v)}", e))
                    return UNKNOWN
                for ch, d in zip(s, v[1]):
                    if ch in letters and letters[ch] != d and d != 1 and letters[ch] != 1:
                        self.problems.append(("einsum", f"`{spec}`: index '{ch}' runs over {show_dim(letters[ch])} and "
                                                        f"over {show_dim(d)}", e))
                    letters.setdefault(ch, d)
            return arr(*[letters.get(ch, "?") for ch in out])
        if fn == "np.kron" and len(args) == 2:
            a, b = self.ev(args[0]), self.ev(args[1])
            if a[0] == "arr" and b[0] == "arr" and len(a[1]) == 1 and len(b[1]) == 1:
                return arr(("kron", a[1][0], b[1][0]))
            return UNKNOWN
        if isinstance(e.func, ast.Name) and e.func.id in self.helpers:
            h = self.helpers[e.func.id]
            params = [a.arg for a in h.args.args]
            sub = ShapeInterp(self.ndim, h, consts=dict(self.consts), helpers=self.helpers, shape_names=self.shape_names)
            sub.env = dict(self.env)
            for p, a in zip(params, args):
                c = self.const(a)
                if c is not None:
                    sub.consts[p] = c
                    sub.env.pop(p, None)
                else:
                    sub.consts.pop(p, None)
                    sub.env[p] = self.ev(a)
            sub.run(h.body)
            self.problems += sub.problems
            outs = {r for r in sub.returns}
            if len(outs) == 1:
                return outs.pop()
            return UNKNOWN
        return UNKNOWN

    # ------------------------------------------------------------------ statements
    def run(self, body):
        for s in body:
            if self.stmt(s) == "stop":
                return "stop"

    def stmt(self, s):
        if isinstance(s, ast.Assign):
            v = self.ev(s.value)
            for t in s.targets:
                if isinstance(t, ast.Name):
                    c = self.const(s.value)
                    if c is not None and v in (SCALAR, UNKNOWN):
                        self.consts[t.id] = c
                    else:
                        self.consts.pop(t.id, None)
                    self.env[t.id] = v
        elif isinstance(s, ast.AugAssign):
            if isinstance(s.target, ast.Name):
                r = broadcast(self.ev(s.target), self.ev(s.value))
                if r[0] == "conflict":
                    self.problems.append(("broadcast", f"{norm(s)[:60]}: shapes {r[1]}", s))
                    r = UNKNOWN
                self.env[s.target.id] = r
        elif isinstance(s, ast.Return):
            if s.value is not None:
                self.returns.append(self.ev(s.value))
            else:
                self.returns.append(("none",))
            return "stop"
        elif isinstance(s, ast.If):
            k = self.fold(s.test)
            if k is True:
                return self.run(s.body)
            if k is False:
                return self.run(s.orelse)
            # unknown guard: analyse both, keep the env of the fall-through
            saved = (dict(self.env), dict(self.consts))
            r1 = self.run(s.body)
            e1 = (self.env, self.consts)
            self.env, self.consts = dict(saved[0]), dict(saved[1])
            r2 = self.run(s.orelse)
            if r1 == "stop" and r2 == "stop":
                return "stop"
            if r1 == "stop":
                return None
            if r2 == "stop":
                self.env, self.consts = e1
                return None
            for k2 in set(e1[0]) | set(self.env):
                if e1[0].get(k2) != self.env.get(k2):
                    self.env[k2] = UNKNOWN
        elif isinstance(s, ast.FunctionDef):
            self.helpers[s.name] = s
        elif isinstance(s, ast.Raise):
            return "stop"
        elif isinstance(s, (ast.For, ast.While)):
            self.run(s.body)
        elif isinstance(s, ast.Expr):
            pass
        return None


def self_is_np(attr_node):
    return isinstance(attr_node.value, ast.Name) and attr_node.value.id in ("np", "numpy")


def show_dim(d):
    if isinstance(d, tuple) and d and d[0] == "n":
        return f"shape[{d[1]}]" + (f"{d[2]:+d}" if d[2] else "")
    if isinstance(d, tuple) and d and d[0] == "prod":
        return "prod(shape)"
    if isinstance(d, tuple) and d and d[0] == "ravel":
        return "ravel(" + ", ".join(show_dim(x) for x in d[1]) + ")"
    if isinstance(d, tuple) and d and d[0] == "kron":
        return f"({show_dim(d[1])} x {show_dim(d[2])})"
    return str(d)


def show_shape(v):
    if v[0] == "arr":
        return "(" + ", ".join(show_dim(d) for d in v[1]) + ")"
    return v[0]
