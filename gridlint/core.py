"""E1 -- loader / resolver shared by every gridlint analysis.

Nothing in here imports or executes the package under analysis: modules are parsed with
``ast`` and every fact is derived from the syntax trees (and, for the table checks, from the
shipped data files read as tables).
"""
from __future__ import annotations

import ast
import hashlib
import json
import os
import sys
import time

VERIF_DIR = os.path.dirname(os.path.dirname(os.path.abspath(__file__)))
DEFAULT_ROOT = "/repo"
PKG_REL = os.path.join("src", "grid")


class AnalysisError(Exception):
    """The analysis cannot decide (anchor vanished, unknown idiom, floor not met)."""


# --------------------------------------------------------------------------------------------
# program model
# --------------------------------------------------------------------------------------------
class FuncInfo:
    """A function, method, nested function or lambda of the package."""

    def __init__(self, qual, node, module, cls=None, parent=None):
        self.qual = qual
        self.node = node
        self.module = module
        self.cls = cls  # name of the class when this is a method defined in a class body
        self.parent = parent  # enclosing FuncInfo for nested defs / lambdas
        self.is_lambda = isinstance(node, ast.Lambda)
        decos = [] if self.is_lambda else node.decorator_list
        self.decorators = [ast.unparse(d) for d in decos]
        self.is_static = "staticmethod" in self.decorators
        self.is_classmethod = "classmethod" in self.decorators
        self.is_property = "property" in self.decorators
        self.is_setter = any(d.endswith(".setter") for d in self.decorators)
        self.is_abstract = "abstractmethod" in self.decorators
        a = node.args
        self.params = [x.arg for x in a.posonlyargs + a.args]
        self.vararg = a.vararg.arg if a.vararg else None
        self.kwonly = [x.arg for x in a.kwonlyargs]
        self.kwarg = a.kwarg.arg if a.kwarg else None
        self.allparams = (
            self.params
            + ([self.vararg] if self.vararg else [])
            + self.kwonly
            + ([self.kwarg] if self.kwarg else [])
        )
        self.name = "<lambda>" if self.is_lambda else node.name

    @property
    def is_method(self):
        """True when the first parameter is the receiver (self / cls)."""
        return self.cls is not None and self.parent is None and not self.is_static

    @property
    def body(self):
        return [ast.Return(value=self.node.body)] if self.is_lambda else self.node.body

    def cls_ctx(self):
        f = self
        while f is not None:
            if f.cls:
                return f.cls
            f = f.parent
        return None

    def defaults(self):
        a = self.node.args
        pos = a.posonlyargs + a.args
        out = dict(zip([x.arg for x in pos][len(pos) - len(a.defaults):], a.defaults))
        out.update({x.arg: d for x, d in zip(a.kwonlyargs, a.kw_defaults) if d is not None})
        return out

    def annotation(self, name):
        a = self.node.args
        for x in a.posonlyargs + a.args + a.kwonlyargs:
            if x.arg == name and x.annotation is not None:
                return ast.unparse(x.annotation)
        return None

    def loc(self):
        return f"src/grid/{self.module}.py:{self.node.lineno}"

    def __repr__(self):
        return f"<Func {self.qual}>"


class ClassInfo:
    def __init__(self, name, module, node):
        self.name = name
        self.module = module
        self.node = node
        self.base_exprs = [ast.unparse(b) for b in node.bases]
        self.methods = {}  # name -> FuncInfo (non-setter)
        self.setters = {}  # property name -> FuncInfo

    def __repr__(self):
        return f"<Class {self.module}.{self.name}>"


class ModuleInfo:
    def __init__(self, name, path, source):
        self.name = name
        self.path = path
        self.source = source
        self.tree = ast.parse(source, filename=path)
        self.repo_imports = {}  # local name -> (module, name)
        self.lib_imports = {}  # local name -> dotted third-party / stdlib path
        self.all = None
        self.globals = {}  # name -> value node (last top-level assignment)
        self.global_assign_count = {}


class Repo:
    """Parsed view of ``<root>/src/grid/*.py`` (tests excluded)."""

    DYNAMIC = {"getattr", "setattr", "delattr", "eval", "exec", "globals", "vars", "locals",
               "__import__"}

    def __init__(self, root=DEFAULT_ROOT):
        self.root = os.path.abspath(root)
        self.pkg = os.path.join(self.root, PKG_REL)
        if not os.path.isdir(self.pkg):
            raise AnalysisError(f"package directory {self.pkg} does not exist")
        self.modules = {}
        self.classes = {}
        self.funcs = {}
        self.by_node = {}
        self.methods_by_name = {}
        for fn in sorted(os.listdir(self.pkg)):
            if not fn.endswith(".py") or fn in ("_version.py",):
                continue
            path = os.path.join(self.pkg, fn)
            with open(path, encoding="utf-8") as fh:
                src = fh.read()
            try:
                mi = ModuleInfo(fn[:-3], path, src)
            except SyntaxError as e:
                raise AnalysisError(f"cannot parse {path}: {e}") from e
            self.modules[mi.name] = mi
        if len(self.modules) < 10:
            raise AnalysisError(f"only {len(self.modules)} modules found under {self.pkg}")
        for mi in self.modules.values():
            self._desugar_getattr(mi)
            self._desugar_property_objects(mi)
        for mi in self.modules.values():
            self._collect_module(mi)
        self._check_dynamic()
        self._mro_cache = {}
        self._sub_cache = {}

    # ---------------------------------------------------------------- collection
    def _collect_module(self, mi):
        for n in mi.tree.body:
            if isinstance(n, ast.ImportFrom):
                mod = n.module or ""
                if n.level and n.level > 0:  # relative import inside the package
                    mod = "grid." + mod if mod else "grid"
                for a in n.names:
                    local = a.asname or a.name
                    if mod == "grid" or mod.startswith("grid."):
                        if a.name == "*":
                            continue
                        mi.repo_imports[local] = (mod[5:] if mod.startswith("grid.") else "", a.name)
                    else:
                        mi.lib_imports[local] = f"{mod}.{a.name}"
            elif isinstance(n, ast.Import):
                for a in n.names:
                    local = a.asname or a.name.split(".")[0]
                    mi.lib_imports[local] = a.name if a.asname else a.name.split(".")[0]
            elif isinstance(n, (ast.Assign, ast.AnnAssign)):
                tgts = n.targets if isinstance(n, ast.Assign) else [n.target]
                for t in tgts:
                    if isinstance(t, ast.Name):
                        if n.value is not None:
                            mi.globals[t.id] = n.value
                        mi.global_assign_count[t.id] = mi.global_assign_count.get(t.id, 0) + 1
                        if t.id == "__all__" and isinstance(n.value, (ast.List, ast.Tuple)):
                            mi.all = [e.value for e in n.value.elts if isinstance(e, ast.Constant)]
        self._visit(mi, mi.tree, [], None, None)

    def _register(self, mi, node, qual, cls, parent):
        f = FuncInfo(qual, node, mi.name, cls, parent)
        if qual in self.funcs:  # e.g. two lambdas on one line
            k = 2
            while f"{qual}#{k}" in self.funcs:
                k += 1
            f.qual = f"{qual}#{k}"
        self.funcs[f.qual] = f
        self.by_node[id(node)] = f
        return f

    def _visit(self, mi, node, qual, cls, parent):
        for ch in ast.iter_child_nodes(node):
            if isinstance(ch, ast.ClassDef):
                ci = ClassInfo(ch.name, mi.name, ch)
                self.classes[ch.name] = ci
                self._visit(mi, ch, qual + [ch.name], ch.name, None)
            elif isinstance(ch, (ast.FunctionDef, ast.AsyncFunctionDef)):
                q = ".".join([mi.name] + qual + [ch.name])
                is_setter = any(isinstance(d, ast.Attribute) and d.attr == "setter"
                                for d in ch.decorator_list)
                if is_setter:
                    q += ".setter"
                in_class_body = cls is not None and parent is None
                f = self._register(mi, ch, q, cls if in_class_body else None, parent)
                if in_class_body:
                    ci = self.classes[cls]
                    if is_setter:
                        ci.setters[ch.name] = f
                    else:
                        ci.methods[ch.name] = f
                    self.methods_by_name.setdefault(ch.name, []).append(f)
                # decorators / defaults are evaluated in the enclosing scope
                for d in ch.args.defaults + [k for k in ch.args.kw_defaults if k is not None]:
                    self._visit_expr_for_lambdas(mi, d, qual, cls, parent)
                self._visit(mi, _Body(ch.body), qual + [ch.name], None, f)
            elif isinstance(ch, ast.Lambda):
                q = ".".join([mi.name] + qual + [f"<lambda@{ch.lineno}>"])
                f = self._register(mi, ch, q, None, parent)
                self._visit(mi, ch, qual + [f"<lambda@{ch.lineno}>"], None, f)
            else:
                self._visit(mi, ch, qual, cls, parent)

    def _visit_expr_for_lambdas(self, mi, expr, qual, cls, parent):
        self._visit(mi, _Body([ast.Expr(value=expr)]), qual, cls, parent)

    def _desugar_property_objects(self, mi):
        """A read-only property written as a class-level object, `name = property(attrgetter("_f"), ...)` or
        `name = property(lambda self: self._f, ...)`, is rewritten at load time into the decorated method
        `@property def name(self): return self._f` that every analysis knows."""
        for cls in [n for n in ast.walk(mi.tree) if isinstance(n, ast.ClassDef)]:
            for i, st in enumerate(cls.body):
                if not (isinstance(st, ast.Assign) and len(st.targets) == 1 and isinstance(st.targets[0], ast.Name) and
                        isinstance(st.value, ast.Call) and isinstance(st.value.func, ast.Name) and st.value.func.id == "property"
                        and len(st.value.args) == 1 and all(k.arg == "doc" for k in st.value.keywords)):
                    continue
                g = st.value.args[0]
                body = None
                if isinstance(g, ast.Call) and ast.unparse(g.func) in ("attrgetter", "operator.attrgetter") and len(g.args) == 1 \
                        and not g.keywords and isinstance(g.args[0], ast.Constant) and isinstance(g.args[0].value, str) \
                        and g.args[0].value.isidentifier():
                    body = ast.Attribute(value=ast.Name(id="self", ctx=ast.Load()), attr=g.args[0].value, ctx=ast.Load())
                elif isinstance(g, ast.Lambda) and len(g.args.args) == 1 and not g.args.defaults and not g.args.vararg and not g.args.kwarg:
                    class _Self(ast.NodeTransformer):
                        def visit_Name(self, n):
                            return ast.copy_location(ast.Name(id="self", ctx=n.ctx), n) if n.id == g.args.args[0].arg else n
                    body = _Self().visit(g.body)
                if body is None:
                    continue
                fn = ast.FunctionDef(name=st.targets[0].id,
                                     args=ast.arguments(posonlyargs=[], args=[ast.arg(arg="self")], kwonlyargs=[], kw_defaults=[], defaults=[]),
                                     body=[ast.Return(value=body)], decorator_list=[ast.Name(id="property", ctx=ast.Load())],
                                     returns=None, type_comment=None, type_params=[])
                ast.copy_location(fn, st)
                for n in ast.walk(fn):
                    if not hasattr(n, "lineno"):
                        ast.copy_location(n, st)
                ast.fix_missing_locations(fn)
                fn.end_lineno = getattr(st, "end_lineno", st.lineno)
                cls.body[i] = fn

    def _desugar_getattr(self, mi):
        """`getattr(E, p)` where p is a parameter of the enclosing function and *every* call of that function in
        the module passes a string literal for p is rewritten, at load time, into the conditional expression
        `E.a if p == "a" else E.b if p == "b" else E.c`: an ordinary attribute access for every analysis.  Any other
        use of getattr stays and is refused by the closed-world guard below."""
        tree = mi.tree
        funcs = [n for n in ast.walk(tree) if isinstance(n, ast.FunctionDef)]
        for f in funcs:
            params = [a.arg for a in f.args.args]
            uses = [n for n in ast.walk(f) if isinstance(n, ast.Call) and isinstance(n.func, ast.Name) and n.func.id == "getattr"
                    and len(n.args) == 2 and not n.keywords and isinstance(n.args[1], ast.Name) and n.args[1].id in params]
            if not uses:
                continue
            for pname in {u.args[1].id for u in uses}:
                # the parameter must not be re-bound inside the function
                if any(isinstance(n, ast.Name) and n.id == pname and isinstance(n.ctx, ast.Store) for n in ast.walk(f)):
                    continue
                pos = params.index(pname)
                lits, ok, ncalls = set(), True, 0
                for c in ast.walk(tree):
                    if not isinstance(c, ast.Call):
                        continue
                    callee = c.func.id if isinstance(c.func, ast.Name) else c.func.attr if isinstance(c.func, ast.Attribute) else None
                    if callee != f.name:
                        continue
                    ncalls += 1
                    is_method = bool(params) and params[0] in ("self", "cls") and isinstance(c.func, ast.Attribute)
                    idx = pos - 1 if is_method else pos
                    arg = next((k.value for k in c.keywords if k.arg == pname), None)
                    if arg is None and 0 <= idx < len(c.args) and not any(isinstance(a, ast.Starred) for a in c.args):
                        arg = c.args[idx]
                    if isinstance(arg, ast.Constant) and isinstance(arg.value, str) and arg.value.isidentifier():
                        lits.add(arg.value)
                    else:
                        ok = False
                # the function must not escape as a value (only called by name), and must be private to the module
                escapes = any(isinstance(n, ast.Attribute) and n.attr == f.name and not any(
                    isinstance(c, ast.Call) and c.func is n for c in ast.walk(tree)) for n in ast.walk(tree))
                if not ok or not lits or ncalls == 0 or escapes or not f.name.startswith("_"):
                    continue
                order = sorted(lits)

                class Rewrite(ast.NodeTransformer):
                    def visit_Call(self, node):
                        self.generic_visit(node)
                        if node in uses and node.args[1].id == pname:
                            base = node.args[0]
                            expr = ast.Attribute(value=copy.deepcopy(base), attr=order[-1], ctx=ast.Load())
                            for lit in reversed(order[:-1]):
                                test = ast.Compare(left=ast.Name(id=pname, ctx=ast.Load()), ops=[ast.Eq()],
                                                   comparators=[ast.Constant(value=lit)])
                                expr = ast.IfExp(test=test, body=ast.Attribute(value=copy.deepcopy(base), attr=lit, ctx=ast.Load()),
                                                 orelse=expr)
                            return ast.copy_location(expr, node)
                        return node
                import copy
                Rewrite().visit(f)
                ast.fix_missing_locations(f)

    def _check_dynamic(self):
        for mi in self.modules.values():
            for n in ast.walk(mi.tree):
                if isinstance(n, ast.Call) and isinstance(n.func, ast.Name) and n.func.id in self.DYNAMIC:
                    raise AnalysisError(
                        f"dynamic feature {n.func.id}() at src/grid/{mi.name}.py:{n.lineno}: "
                        "the closed-world analyses would lose soundness")
                if isinstance(n, ast.Attribute) and n.attr in ("__dict__", "__setattr__", "__getattr__",
                                                               "__getattribute__"):
                    raise AnalysisError(
                        f"dynamic feature .{n.attr} at src/grid/{mi.name}.py:{n.lineno}")

    # ---------------------------------------------------------------- hierarchy
    def bases(self, cname):
        ci = self.classes.get(cname)
        if ci is None:
            return []
        return [b.split(".")[-1] for b in ci.base_exprs if b.split(".")[-1] in self.classes]

    def mro(self, cname):
        if cname in self._mro_cache:
            return self._mro_cache[cname]
        # C3 linearisation restricted to repo classes
        def merge(seqs):
            res = []
            seqs = [list(s) for s in seqs if s]
            while seqs:
                for s in seqs:
                    cand = s[0]
                    if not any(cand in t[1:] for t in seqs):
                        break
                else:
                    raise AnalysisError(f"inconsistent MRO for {cname}")
                res.append(cand)
                seqs = [[x for x in s if x != cand] for s in seqs]
                seqs = [s for s in seqs if s]
            return res
        bs = self.bases(cname)
        out = [cname] + merge([self.mro(b) for b in bs] + [bs])
        self._mro_cache[cname] = out
        return out

    def subclasses(self, cname):
        """All repo classes whose MRO contains ``cname`` (including itself)."""
        if cname not in self._sub_cache:
            self._sub_cache[cname] = [k for k in self.classes if cname in self.mro(k)]
        return self._sub_cache[cname]

    def resolve_method(self, cname, name, start_after=None):
        """FuncInfo of ``name`` looked up on ``cname`` through the MRO (non-setter)."""
        m = self.mro(cname)
        if start_after is not None:
            m = m[m.index(start_after) + 1:] if start_after in m else []
        for k in m:
            f = self.classes[k].methods.get(name)
            if f is not None:
                return f
        return None

    def resolve_setter(self, cname, name):
        """Setter of property ``name`` on ``cname``; a subclass property without a setter
        removes the inherited one."""
        for k in self.mro(cname):
            ci = self.classes[k]
            if name in ci.methods and ci.methods[name].is_property:
                return ci.setters.get(name)
            if name in ci.setters:
                return ci.setters[name]
        return None

    def is_abstract_class(self, cname):
        for k in self.mro(cname):
            for nm, f in self.classes[k].methods.items():
                if f.is_abstract and self.resolve_method(cname, nm) is f:
                    return True
        return False

    # ---------------------------------------------------------------- look-ups
    def func(self, qual):
        f = self.funcs.get(qual)
        if f is None:
            raise AnalysisError(f"anchor vanished: function {qual} not found")
        return f

    def cls(self, name):
        c = self.classes.get(name)
        if c is None:
            raise AnalysisError(f"anchor vanished: class {name} not found")
        return c

    def method(self, cname, name):
        self.cls(cname)
        f = self.resolve_method(cname, name)
        if f is None:
            raise AnalysisError(f"anchor vanished: method {cname}.{name} not found")
        return f

    def module_func(self, module, name):
        return self.func(f"{module}.{name}")

    def lookup_name(self, module, name):
        """Resolve a bare name used in ``module`` to ('func', FuncInfo) / ('class', ClassInfo) /
        ('global', module, name) / ('lib', dotted) / None."""
        mi = self.modules[module]
        q = f"{module}.{name}"
        if q in self.funcs and self.funcs[q].parent is None and self.funcs[q].cls is None:
            return ("func", self.funcs[q])
        if name in self.classes and self.classes[name].module == module:
            return ("class", self.classes[name])
        if name in mi.repo_imports:
            mm, nn = mi.repo_imports[name]
            if mm in self.modules:
                q2 = f"{mm}.{nn}"
                if q2 in self.funcs and self.funcs[q2].parent is None and self.funcs[q2].cls is None:
                    return ("func", self.funcs[q2])
                if nn in self.classes:
                    return ("class", self.classes[nn])
                if nn in self.modules[mm].globals:
                    return ("global", mm, nn)
                # re-exported name
                return self.lookup_name(mm, nn) if nn != name or mm != module else None
            return None
        if name in mi.globals:
            return ("global", module, name)
        if name in mi.lib_imports:
            return ("lib", mi.lib_imports[name])
        return None

    # ---------------------------------------------------------------- public surface
    def is_public_class(self, cname):
        return any(not k.startswith("_") for k in self.subclasses(cname))

    def is_public(self, f):
        """Public entry point: callable by code outside the package through documented names."""
        if f.parent is not None or f.is_lambda:
            return False
        if f.cls is not None:
            if not self.is_public_class(f.cls):
                return False
            n = f.name
            if n.startswith("__") and n.endswith("__"):
                return True
            return not n.startswith("_")
        return not f.name.startswith("_")

    # ---------------------------------------------------------------- misc
    def digest(self, modules=None):
        h = hashlib.sha256()
        for name in sorted(modules or self.modules):
            h.update(name.encode())
            h.update(self.modules[name].source.encode())
        return h.hexdigest()[:16]

    def rel(self, module, node):
        return f"src/grid/{module}.py:{getattr(node, 'lineno', 0)}"


class _Body(ast.AST):
    """Helper so that _visit can iterate over a statement list."""
    _fields = ("body",)

    def __init__(self, body):
        self.body = body


def norm(node):
    """Normalised statement/expression text (position independent key)."""
    try:
        return " ".join(ast.unparse(node).split())
    except Exception:  # pragma: no cover
        return ast.dump(node)


def strip_docstring(body):
    if body and isinstance(body[0], ast.Expr) and isinstance(body[0].value, ast.Constant) and \
            isinstance(body[0].value.value, str):
        return body[1:]
    return body


# --------------------------------------------------------------------------------------------
# verdict protocol
# --------------------------------------------------------------------------------------------
def load_known(path=None):
    path = path or os.path.join(VERIF_DIR, "known_findings.json")
    if not os.path.exists(path):
        return {"findings": [], "fixed": []}
    with open(path, encoding="utf-8") as fh:
        return json.load(fh)


LAST_REPORT = None


class Report:
    """Collects rule instances and violations of one property run and writes the evidence."""

    def __init__(self, prop, tier, root, explanation, rule_text, assumptions=()):
        self.prop = prop
        self.tier = tier
        self.root = root
        self.explanation = explanation
        self.rule_text = rule_text
        self.assumptions = list(assumptions)
        self.instances = []  # dicts: rule, construct, verdict, where, detail
        self.violations = []  # dicts
        self.notes = []
        self.extra = {}
        self.floors = {}
        self.failed_floors = []
        self.t0 = time.time()

    # -- recording
    def ok(self, rule, construct, where="", detail="", nontrivial=True):
        self.instances.append({"rule": rule, "construct": construct, "verdict": "holds",
                               "where": where, "detail": detail, "nontrivial": nontrivial})

    def violation(self, rule, construct, role, what, where="", witness=None):
        v = {"rule": rule, "construct": construct, "role": role, "what": what, "where": where,
             "witness": witness or []}
        v["key"] = f"{self.prop}/{rule}/{construct}/{role}"
        # de-duplicate on the key
        for old in self.violations:
            if old["key"] == v["key"]:
                if where and where not in old.setdefault("also_at", []) and where != old["where"]:
                    old["also_at"].append(where)
                return
        self.violations.append(v)
        self.instances.append({"rule": rule, "construct": construct, "verdict": "VIOLATED",
                               "where": where, "detail": what, "nontrivial": True, "role": role})

    def note(self, text):
        self.notes.append(text)

    def backed(self, rule, decided, what, *args, only=None, **kw):
        """Run a *structural* rule whose clause an *evaluation* rule has already decided (`decided` true: the evaluation
        rule ran to the end without violation).  The structural rule argues from the shape of the code for all sizes
        and is the one that false-alarms or gives up on an unfamiliar idiom; when the evaluation has decided the same
        clause, what the structural rule reports (violations of the rules named in `only`, or an unrecognised idiom) is
        kept as a note.  When the evaluation has not decided the clause, the structural rule counts as before."""
        nv, ni = len(self.violations), len(self.instances)
        try:
            out = rule(*args, **kw)
        except AnalysisError as e:
            if decided:
                self.note(f"structural rule {getattr(rule, '__name__', rule)} did not recognise the idiom ({str(e)[:160]}); {what}")
                return None
            self.failed_floors.append(str(e))
            return None
        if decided:
            keep = []
            for v in self.violations[nv:]:
                if only is None or any(v["rule"].startswith(o) for o in only):
                    self.note(f"structural rule {v['rule']} reported `{v['what'][:200]}` at {v['where']}; {what}")
                    for inst in self.instances[ni:]:
                        if inst.get("verdict") == "VIOLATED" and inst.get("rule") == v["rule"] and inst.get("construct") == v["construct"]:
                            inst["verdict"] = "holds"
                            inst["detail"] = "structural mismatch, clause decided by evaluation: " + inst.get("detail", "")[:120]
                else:
                    keep.append(v)
            self.violations[nv:] = keep
        return out

    def attempt(self, rule, *args, **kw):
        """Run one rule; an undecided rule (AnalysisError) is deferred behind violations found by the
        other rules instead of aborting the whole run."""
        try:
            return rule(*args, **kw)
        except AnalysisError as e:
            self.failed_floors.append(str(e))
            return None

    def floor(self, name, measured, minimum):
        """Guard against rules that silently match nothing."""
        self.floors[name] = {"measured": measured, "minimum": minimum}
        if measured < minimum:
            # deferred: a violation found elsewhere is reported first (see finish)
            self.failed_floors.append(
                f"instance floor not met for {name}: measured {measured} < {minimum} confirmed by hand")

    # -- finishing
    def finish(self, samples=None, evidence_dir=None, quiet=False):
        global LAST_REPORT
        LAST_REPORT = self
        known = load_known()
        kf = {}
        for f in known.get("findings", []):
            if f.get("property") == self.prop:
                kf[f"{f['property']}/{f['rule']}/{f['construct']}/{f['role']}"] = f
        evidence_dir = evidence_dir or os.path.join(VERIF_DIR, "evidence")
        os.makedirs(os.path.join(evidence_dir, "replay"), exist_ok=True)
        new = []
        known_hit = []
        for v in self.violations:
            if v["key"] in kf:
                known_hit.append(v)
                print(f"KNOWN-FINDING: property={self.prop} {v['rule']} {v['construct']} "
                      f"[{v['role']}] -- {v['what']} ({v['where']})")
            else:
                new.append(v)
        for i, v in enumerate(new):
            safe = "".join(ch if ch.isalnum() or ch in "-_." else "_" for ch in v["key"])[:150]
            rp = os.path.join(evidence_dir, "replay", f"{safe}.json")
            with open(rp, "w", encoding="utf-8") as fh:
                json.dump({"property": self.prop, "root": self.root, **v}, fh, indent=1)
            print(f"VIOLATION property={self.prop} replay={rp}")
            print(f"  rule={v['rule']} construct={v['construct']} role={v['role']} at {v['where']}")
            print(f"  {v['what']}")
            for w in v["witness"][:12]:
                print(f"    witness: {w}")
        if self.failed_floors and not new:
            raise AnalysisError("; ".join(self.failed_floors))
        stale = [k for k in kf if k not in {v["key"] for v in self.violations}]
        for k in stale:
            self.notes.append(f"known finding {k} no longer reproduces on this tree")
        nontriv = {(i["rule"], i["construct"], i.get("role", "")) for i in self.instances if i["nontrivial"]}
        if samples is None:
            samples = []
            seen_rules = set()
            for i in self.instances:
                if i["rule"] not in seen_rules or i["verdict"] != "holds":
                    seen_rules.add(i["rule"])
                    samples.append({k: i[k] for k in ("rule", "construct", "verdict", "where", "detail")})
                if len(samples) >= 25:
                    break
        by_rule = {}
        for i in self.instances:
            d = by_rule.setdefault(i["rule"], {"instances": 0, "violated": 0})
            d["instances"] += 1
            d["violated"] += i["verdict"] != "holds"
        ev = {
            "property_id": self.prop,
            "tier": self.tier,
            "seed": int(os.environ.get("VERIF_SEED", "0") or 0),
            "level": "other",
            "coverage": {
                "explanation": self.explanation,
                "evaluations": len(self.instances),
                "distinct_nontrivial": len(nontriv),
                "rule": self.rule_text,
                "samples": samples,
                "exhaustive": True,
                "rules": by_rule,
                "floors": self.floors,
                "notes": self.notes[:60],
                "known_findings_reproduced": [v["key"] for v in known_hit],
                "new_violations": [v["key"] for v in new],
                "analysed_root": self.root,
                **self.extra,
            },
            "assumptions": self.assumptions,
            "wall_s": round(time.time() - self.t0, 3),
            "violations": len(new),
        }
        if not os.environ.get("GRIDLINT_NO_EVIDENCE"):
            with open(os.path.join(evidence_dir, f"{self.prop}.json"), "w", encoding="utf-8") as fh:
                json.dump(ev, fh, indent=1, default=str)
        if not quiet:
            print(f"[{self.prop}/{self.tier}] instances={len(self.instances)} "
                  f"distinct_nontrivial={len(nontriv)} violations={len(new)} "
                  f"known={len(known_hit)} notes={len(self.notes)} wall={ev['wall_s']}s")
            for r, d in sorted(by_rule.items()):
                print(f"   rule {r}: {d['instances']} instances, {d['violated']} violated")
        return 1 if new else 0


def eprint(*a):
    print(*a, file=sys.stderr)
