"""C07 -- molecular grid: constructor fan-out and store-independence (numerics declined).

R1 argument fan-out of MolGrid.from_size / from_preset / from_pruned: no parameter is dead; every
   parameter that names (or is documented as) an argument of the atomic constructor reaches that
   argument; atnums / aim_weights / store reach ``cls(...)``; per-atom list/dict dispatch is not
   crossed (lists are indexed by position, dicts by atomic number).
R2 store-invariance (provenance domain): in every method that branches on whether atomic grids
   are stored, both branches hand back weights of the same kind (atomic vs atomic x aim).
R3 MolGrid.__init__ builds points/weights by slice-wise concatenation delimited by the index table
   and multiplies atomic weights by the aim weights exactly once.
"""
from __future__ import annotations

import ast

from gridlint import e6
from gridlint.core import AnalysisError, Report, norm, strip_docstring
from gridlint.props.common import get_repo

PROP = "C07"
EXPLANATION = (
    "Def-use and provenance analysis of molgrid.py.  Decides: the convenience constructors forward "
    "every argument to the atomic constructor / to cls(...) and do not cross the list/dict per-atom "
    "dispatch (necessary for 'exactly the grid obtained by hand with the same arguments'); methods "
    "that branch on the store flag return weights of the same provenance in both branches "
    "(necessary for 'do not depend on whether atomic grids are stored'); the constructor "
    "concatenates by the index table and applies the aim weights once.  NOT decided: numerical "
    "equality of integrals, the 1% end-to-end accuracy clause.")
RULE = "one instance per (constructor, parameter), per container dispatch branch, per store-branching method, per ctor obligation"

ALIAS = {"atcoords": "center", "size": "sizes", "atnums": "atnum"}


def local_defs(fn):
    """name -> [value exprs] of simple assignments / loop targets (flow-insensitive)."""
    defs = {}
    for s in ast.walk(fn):
        if isinstance(s, ast.Assign):
            for t in s.targets:
                if isinstance(t, ast.Name):
                    defs.setdefault(t.id, []).append(s.value)
                elif isinstance(t, (ast.Tuple, ast.List)):
                    for i, el in enumerate(t.elts):
                        if isinstance(el, ast.Name):
                            v = s.value.elts[i] if isinstance(s.value, (ast.Tuple, ast.List)) and \
                                len(s.value.elts) == len(t.elts) else s.value
                            defs.setdefault(el.id, []).append(v)
        elif isinstance(s, ast.For):
            names = [n for n in ast.walk(s.target) if isinstance(n, ast.Name)]
            it = s.iter
            if isinstance(it, ast.Call) and norm(it.func) == "zip" and isinstance(s.target, ast.Tuple) and \
                    len(it.args) == len(s.target.elts):
                for el, a in zip(s.target.elts, it.args):
                    if isinstance(el, ast.Name):
                        defs.setdefault(el.id, []).append(a)
            elif isinstance(it, ast.Call) and norm(it.func) == "enumerate" and isinstance(s.target, ast.Tuple) and \
                    len(s.target.elts) == 2 and it.args:
                if isinstance(s.target.elts[1], ast.Name):
                    defs.setdefault(s.target.elts[1].id, []).append(it.args[0])
                if isinstance(s.target.elts[0], ast.Name):
                    defs.setdefault(s.target.elts[0].id, []).append(ast.Constant(value=0))
            else:
                for n in names:
                    defs.setdefault(n.id, []).append(it)
    return defs


def depends_on(expr, params, defs, seen=None):
    """Parameters the expression depends on, following local definitions."""
    seen = seen if seen is not None else set()
    out = set()
    for n in ast.walk(expr):
        if isinstance(n, ast.Name):
            if n.id in params:
                out.add(n.id)
            if n.id in defs and n.id not in seen:
                seen.add(n.id)
                for v in defs[n.id]:
                    out |= depends_on(v, params, defs, seen)
    return out


def rule_r1(rep, repo):
    n_par = 0
    for cname in ("from_size", "from_preset", "from_pruned"):
        f = repo.method("MolGrid", cname)
        params = [p for p in f.allparams[1:]]
        defs = local_defs(f.node)
        # dead parameters
        for p in params:
            used = any(isinstance(n, ast.Name) and n.id == p and isinstance(n.ctx, ast.Load) for n in ast.walk(f.node))
            if not used:
                rep.violation("R1.no-dead-parameter", f.qual, p,
                              f"parameter `{p}` of MolGrid.{cname} is never read: the argument has no effect", f.loc())
        # the atomic constructor call
        calls = [n for n in ast.walk(f.node) if isinstance(n, ast.Call) and norm(n.func) in
                 ("AtomGrid", "AtomGrid.from_preset", "AtomGrid.from_pruned", "AtomGrid.from_size")]
        if len(calls) != 1:
            raise AnalysisError(f"unrecognised idiom: MolGrid.{cname} has {len(calls)} atomic constructor calls")
        call = calls[0]
        fn = norm(call.func)
        callee = repo.method("AtomGrid", "__init__") if fn == "AtomGrid" else repo.method("AtomGrid", fn.split(".")[1])
        cparams = callee.params[1:] + callee.kwonly
        bound = {}
        for i, a in enumerate(call.args):
            if i < len(callee.params) - 1:
                bound[callee.params[1 + i]] = a
        for k in call.keywords:
            if k.arg:
                bound[k.arg] = k.value
        ccall = [n for n in ast.walk(f.node) if isinstance(n, ast.Call) and norm(n.func) == "cls"]
        if len(ccall) != 1:
            raise AnalysisError(f"unrecognised idiom: MolGrid.{cname} does not end in one cls(...) call")
        init = repo.method("MolGrid", "__init__")
        cbound = {}
        for i, a in enumerate(ccall[0].args):
            cbound[init.params[1 + i]] = a
        for k in ccall[0].keywords:
            cbound[k.arg] = k.value
        for p in params:
            n_par += 1
            target = None
            where_call = None
            if p in cparams or ALIAS.get(p) in cparams:
                tname = p if p in cparams else ALIAS[p]
                # atnums goes to cls(...) AND (from_preset) to atnum=
                target = ("atomic", tname)
            if p in ("atnums", "aim_weights", "store"):
                tname = p
                if tname not in cbound:
                    rep.violation("R1.argument-fan-out", f.qual, f"{p}->cls.{tname}",
                                  f"`{p}` is not passed to cls(...): the molecular grid ignores it", repo.rel("molgrid", ccall[0]))
                elif p not in depends_on(cbound[tname], set(params), defs):
                    rep.violation("R1.argument-fan-out", f.qual, f"{p}->cls.{tname}",
                                  f"cls(..., {tname}={norm(cbound[tname])[:40]}) does not depend on the argument `{p}`",
                                  repo.rel("molgrid", ccall[0]))
                else:
                    rep.ok("R1.argument-fan-out", f"MolGrid.{cname}:{p}->cls.{tname}", repo.rel("molgrid", ccall[0]),
                           norm(cbound[tname])[:50])
            if target is not None:
                tname = target[1]
                if tname not in bound:
                    rep.violation("R1.argument-fan-out", f.qual, f"{p}->{fn}.{tname}",
                                  f"`{p}` is accepted by MolGrid.{cname} but `{tname}` is not passed to {fn}(...): the "
                                  f"atomic grids are built with the default instead of the argument",
                                  repo.rel("molgrid", call))
                elif p not in depends_on(bound[tname], set(params), defs):
                    rep.violation("R1.argument-fan-out", f.qual, f"{p}->{fn}.{tname}",
                                  f"{fn}(..., {tname}={norm(bound[tname])[:40]}) does not depend on the argument `{p}`",
                                  repo.rel("molgrid", call))
                else:
                    # no crossing: the value passed for tname must not depend on an unrelated same-kind parameter
                    rep.ok("R1.argument-fan-out", f"MolGrid.{cname}:{p}->{fn}.{tname}", repo.rel("molgrid", call),
                           norm(bound[tname])[:50])
        # crossed keywords: kw X receives a value that depends only on another forwarded parameter Y != X
        fw = {(p if p in cparams else ALIAS.get(p)): p for p in params if p in cparams or ALIAS.get(p) in cparams}
        for tname, expr in bound.items():
            if tname in fw:
                dep = depends_on(expr, set(params), defs)
                others = {fw[t] for t in fw if t != tname} - {"atnums", "atcoords"}
                own = fw[tname]
                if own not in dep and dep & others:
                    rep.violation("R1.argument-fan-out", f.qual, f"crossed:{tname}",
                                  f"{fn}(..., {tname}={norm(expr)[:40]}) is fed from `{sorted(dep & others)}` instead of `{own}`",
                                  repo.rel("molgrid", call))
        # default aim weights
        dflt = [s for s in ast.walk(f.node) if isinstance(s, ast.If) and norm(s.test) == "aim_weights is None"]
        if dflt and any("BeckeWeights(" in norm(x) for x in dflt[0].body):
            rep.ok("R1.default-aim-weights", f"MolGrid.{cname}", repo.rel("molgrid", dflt[0]), norm(dflt[0].body[0])[:60])
        else:
            rep.violation("R1.default-aim-weights", f.qual, "aim_weights",
                          "aim_weights=None is not replaced by the documented default BeckeWeights", f.loc())
        # container dispatch
        rule_dispatch(rep, repo, f)
    rep.floor("constructor parameters", n_par, 18)


def rule_dispatch(rep, repo, f):
    """`if isinstance(X, list): v = X[i] elif isinstance(X, dict): v = X[atnums[i]]`"""
    defs = local_defs(f.node)
    # which names are positions / atomic numbers?
    position, number = set(), set()
    for s in ast.walk(f.node):
        if isinstance(s, ast.For):
            it = norm(s.iter)
            if it.startswith("range("):
                position |= {n.id for n in ast.walk(s.target) if isinstance(n, ast.Name)}
            elif it.startswith("enumerate(atnums") and isinstance(s.target, ast.Tuple):
                position.add(norm(s.target.elts[0]))
                number.add(norm(s.target.elts[1]))
            elif it.startswith("zip(atnums") and isinstance(s.target, ast.Tuple):
                number.add(norm(s.target.elts[0]))
    for name, vals in defs.items():
        if any(norm(v) in {f"atnums[{p}]" for p in position} for v in vals):
            number.add(name)
    number |= {f"atnums[{p}]" for p in position}
    visited = set()
    for s in ast.walk(f.node):
        if not isinstance(s, ast.If) or id(s) in visited:
            continue
        cur = s
        while True:
            visited.add(id(cur))
            t = cur.test
            if isinstance(t, ast.Call) and norm(t.func) == "isinstance" and len(t.args) == 2 and \
                    norm(t.args[1]) in ("list", "dict", "(list, tuple)", "(list, np.ndarray)"):
                X = norm(t.args[0])
                kind = "dict" if norm(t.args[1]) == "dict" else "list"
                subs = [n for b in cur.body for n in ast.walk(b) if isinstance(n, ast.Subscript) and norm(n.value) == X]
                for sub in subs:
                    idx = norm(sub.slice)
                    ok = (idx in position) if kind == "list" else (idx in number)
                    cons = f"{f.qual}:{X}[{kind}]"
                    if ok:
                        rep.ok("R1.per-atom-dispatch", cons, repo.rel("molgrid", sub), f"{norm(sub)}")
                    else:
                        want = "the atom's position" if kind == "list" else "the atom's atomic number"
                        rep.violation("R1.per-atom-dispatch", f.qual, f"{X}[{kind}]",
                                      f"`{norm(sub)}` in the {kind} branch is not indexed by {want}: atoms get the "
                                      f"wrong per-atom setting", repo.rel("molgrid", sub))
            if len(cur.orelse) == 1 and isinstance(cur.orelse[0], ast.If):
                cur = cur.orelse[0]
            else:
                break


ATOMIC = "atomic"
MOLECULAR = "atomic x aim"


def weight_tag(expr, defs):
    """Provenance of a weights expression / returned grid."""
    t = norm(expr)
    if "self._atgrids[" in t or t.startswith("self.atgrids["):
        return ATOMIC
    if isinstance(expr, ast.Call) and norm(expr.func) in ("LocalGrid", "Grid", "AtomGrid"):
        args = list(expr.args) + [k.value for k in expr.keywords if k.arg == "weights"]
        if len(expr.args) >= 2:
            return weight_tag(expr.args[1], defs)
        for k in expr.keywords:
            if k.arg == "weights":
                return weight_tag(k.value, defs)
    if "self._atweights" in t or "self.atweights" in t:
        return ATOMIC
    if "self.weights" in t or "self._weights" in t:
        return MOLECULAR
    if isinstance(expr, ast.Name) and expr.id in defs:
        tags = {weight_tag(v, defs) for v in defs[expr.id]}
        if len(tags) == 1:
            return tags.pop()
    return None


def rule_r2(rep, repo):
    n = 0
    for mname, f in repo.classes["MolGrid"].methods.items():
        branching = [s for s in strip_docstring(f.node.body) if isinstance(s, ast.If)
                     and norm(s.test) in ("self._atgrids is None", "self._atgrids is not None", "self.atgrids is None",
                                          "self.atgrids is not None")]
        if not branching:
            continue
        br = branching[0]
        if all(isinstance(x, ast.Raise) for x in br.body):
            continue  # "needs store=True" guard, no alternative route
        defs = local_defs(f.node)
        rets_in = [x for b in br.body for x in ast.walk(b) if isinstance(x, ast.Return)]
        rets_out = [x for x in strip_docstring(f.node.body) if isinstance(x, ast.Return)] + \
                   [x for b in br.orelse for x in ast.walk(b) if isinstance(x, ast.Return)]
        if not rets_in or not rets_out:
            continue
        n += 1
        ta = {weight_tag(r.value, defs) for r in rets_in}
        tb = {weight_tag(r.value, defs) for r in rets_out}
        if None in ta | tb:
            raise AnalysisError(f"unrecognised idiom: cannot classify the weights returned by {f.qual}")
        if ta == tb and len(ta) == 1:
            rep.ok("R2.store-invariant-weights", f.qual, f.loc(), f"both branches return {ta.pop()} weights")
        else:
            stored_first = "is not None" in norm(br.test)
            s_tag, n_tag = (ta, tb) if stored_first else (tb, ta)
            rep.violation("R2.store-invariant-weights", f.qual, "weights",
                          f"with stored atomic grids the method hands back {sorted(s_tag)} weights, without storage "
                          f"{sorted(n_tag)} weights: what the caller gets depends on the store flag",
                          repo.rel("molgrid", br))
    rep.floor("methods branching on the store flag", n, 2)


def rule_r3(rep, repo):
    f = repo.method("MolGrid", "__init__")
    body = strip_docstring(f.node.body)
    loop = next((s for s in body if isinstance(s, ast.For) and "atgrids" in norm(s.iter)), None)
    if loop is None:
        raise AnalysisError("unrecognised idiom: MolGrid.__init__ has no loop over the atomic grids")
    txt = [norm(s) for s in loop.body]
    grid = norm(loop.target.elts[1]) if isinstance(loop.target, ast.Tuple) else norm(loop.target)
    i = norm(loop.target.elts[0]) if isinstance(loop.target, ast.Tuple) else None
    checks = {
        "index-table-cumulative": any(t.replace(" ", "") in (f"self._indices[{i}+1]+=self._indices[{i}]+{grid}.size",
                                                             f"self._indices[{i}+1]=self._indices[{i}]+{grid}.size")
                                      for t in txt),
        "slice-bounds-from-table": any(t == f"start, end = (self._indices[{i}], self._indices[{i} + 1])" for t in txt),
        "points-copied-by-slice": any(t == f"self._points[start:end] = {grid}.points" for t in txt),
        "weights-copied-by-slice": any(t == f"self._atweights[start:end] = {grid}.weights" for t in txt),
        "centres-recorded": any(t == f"self._atcoords[{i}] = {grid}.center" for t in txt),
    }
    for k, okk in checks.items():
        if okk:
            rep.ok("R3.concatenation", f"MolGrid.__init__:{k}", repo.rel("molgrid", loop), "")
        else:
            rep.violation("R3.concatenation", f.qual, k,
                          f"the constructor loop does not contain the expected statement for `{k}`: points/weights of "
                          f"atom k are no longer the slice indices[k]:indices[k+1]", repo.rel("molgrid", loop))
    sup = [n for n in ast.walk(f.node) if isinstance(n, ast.Call) and norm(n.func) == "super().__init__"]
    if len(sup) == 1 and len(sup[0].args) == 2 and norm(sup[0].args[1]) in ("self._atweights * self._aim_weights",
                                                                             "self._aim_weights * self._atweights") \
            and norm(sup[0].args[0]) in ("self.points", "self._points"):
        rep.ok("R3.aim-weights-applied-once", "MolGrid.__init__", repo.rel("molgrid", sup[0]), norm(sup[0])[:80])
    else:
        rep.violation("R3.aim-weights-applied-once", f.qual, "weights",
                      "the molecular weights are not atomic weights times aim weights (applied exactly once)", f.loc())
    # callable aim weights are evaluated on the molecular points with the index table
    call = [n for n in ast.walk(f.node) if isinstance(n, ast.Call) and norm(n.func) == "aim_weights"]
    if call and [norm(a) for a in call[0].args] == ["self._points", "self._atcoords", "atnums", "self._indices"]:
        rep.ok("R3.aim-callable-arguments", "MolGrid.__init__", repo.rel("molgrid", call[0]), norm(call[0])[:80])
    else:
        rep.violation("R3.aim-callable-arguments", f.qual, "aim_weights-call",
                      "the aim-weight callable is not evaluated as aim_weights(points, atcoords, atnums, indices)", f.loc())


def run(tier="quick", root="/repo", evidence_dir=None, quiet=False):
    rep = Report(PROP, tier, root, EXPLANATION, RULE, assumptions=[
        "flow-insensitive local def-use inside each constructor (all three are straight-line loops)",
    ])
    repo = get_repo(root)
    rule_r1(rep, repo)
    rule_r2(rep, repo)
    rule_r3(rep, repo)
    rep.extra["source_digest"] = repo.digest(["molgrid", "atomgrid"])
    return rep.finish(evidence_dir=evidence_dir, quiet=quiet)
