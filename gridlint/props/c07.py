"""C07 -- molecular grid: constructor fan-out and store-independence (numerics declined).

R1 argument fan-out of MolGrid.from_size / from_preset / from_pruned: no parameter is dead; every
   parameter that names (or is documented as) an argument of the atomic constructor reaches that
   argument; atnums / aim_weights / store reach ``cls(...)``; per-atom list/dict dispatch is not
   crossed (lists are indexed by position, dicts by atomic number).
R2 store-invariance (provenance domain): in every method that branches on whether atomic grids
   are stored, both branches hand back weights of the same kind (atomic vs atomic x aim).
R3 MolGrid.__init__ builds points/weights by slice-wise concatenation delimited by the index table
   and multiplies atomic weights by the aim weights exactly once.
"""
from __future__ import annotations

import ast

from gridlint import e6
from gridlint.core import AnalysisError, Report, norm, strip_docstring
from gridlint.props.common import get_repo

PROP = "C07"
EXPLANATION = (
    "Def-use and provenance analysis of molgrid.py.  Decides: the convenience constructors forward "
    "every argument to the atomic constructor / to cls(...) and do not cross the list/dict per-atom "
    "dispatch (necessary for 'exactly the grid obtained by hand with the same arguments'); methods "
    "that branch on the store flag return weights of the same provenance in both branches "
    "(necessary for 'do not depend on whether atomic grids are stored'); the constructor "
    "concatenates by the index table and applies the aim weights once; no per-atom value is carried "
    "from one atom to the next; per-atom sequences are addressed in the index space of the atoms "
    "(index-space inference).  NOT decided: numerical "
    "equality of integrals, the 1% end-to-end accuracy clause.")
RULE = "one instance per (constructor, parameter), per container dispatch branch, per store-branching method, per ctor obligation"

ALIAS = {"atcoords": "center", "size": "sizes", "atnums": "atnum"}


def local_defs(fn):
    """name -> [value exprs] of simple assignments / loop targets (flow-insensitive)."""
    defs = {}
    for s in ast.walk(fn):
        if isinstance(s, ast.Assign):
            for t in s.targets:
                if isinstance(t, ast.Name):
                    defs.setdefault(t.id, []).append(s.value)
                elif isinstance(t, (ast.Tuple, ast.List)):
                    for i, el in enumerate(t.elts):
                        if isinstance(el, ast.Name):
                            v = s.value.elts[i] if isinstance(s.value, (ast.Tuple, ast.List)) and \
                                len(s.value.elts) == len(t.elts) else s.value
                            defs.setdefault(el.id, []).append(v)
        elif isinstance(s, (ast.For, ast.comprehension)):   # loop statements and comprehension generators alike
            def bind_elem(target, seq):
                """`target` receives one element of the sequence expression `seq`."""
                if isinstance(seq, ast.Call) and norm(seq.func) == "enumerate" and seq.args and \
                        isinstance(target, ast.Tuple) and len(target.elts) == 2:
                    if isinstance(target.elts[0], ast.Name):
                        defs.setdefault(target.elts[0].id, []).append(ast.Constant(value=0))
                    bind_elem(target.elts[1], seq.args[0])
                elif isinstance(seq, ast.Call) and norm(seq.func) == "zip" and isinstance(target, ast.Tuple) and \
                        len(seq.args) == len(target.elts):
                    for el, a in zip(target.elts, seq.args):
                        bind_elem(el, a)
                else:
                    for n in ast.walk(target):
                        if isinstance(n, ast.Name):
                            defs.setdefault(n.id, []).append(seq)
            bind_elem(s.target, s.iter)
    return defs


def depends_on(expr, params, defs, seen=None):
    """Parameters the expression depends on, following local definitions."""
    seen = seen if seen is not None else set()
    out = set()
    for n in ast.walk(expr):
        if isinstance(n, ast.Name):
            if n.id in params:
                out.add(n.id)
            if n.id in defs and n.id not in seen:
                seen.add(n.id)
                for v in defs[n.id]:
                    out |= depends_on(v, params, defs, seen)
    return out


def rule_r1(rep, repo):
    n_par = 0
    for cname in ("from_size", "from_preset", "from_pruned"):
        f = repo.method("MolGrid", cname)
        params = [p for p in f.allparams[1:]]
        defs = local_defs(f.node)
        # dead parameters
        for p in params:
            used = any(isinstance(n, ast.Name) and n.id == p and isinstance(n.ctx, ast.Load) for n in ast.walk(f.node))
            if not used:
                rep.violation("R1.no-dead-parameter", f.qual, p,
                              f"parameter `{p}` of MolGrid.{cname} is never read: the argument has no effect", f.loc())
        # the atomic constructor call
        calls = [n for n in ast.walk(f.node) if isinstance(n, ast.Call) and norm(n.func) in
                 ("AtomGrid", "AtomGrid.from_preset", "AtomGrid.from_pruned", "AtomGrid.from_size")]
        if len(calls) != 1:
            raise AnalysisError(f"unrecognised idiom: MolGrid.{cname} has {len(calls)} atomic constructor calls")
        call = calls[0]
        fn = norm(call.func)
        callee = repo.method("AtomGrid", "__init__") if fn == "AtomGrid" else repo.method("AtomGrid", fn.split(".")[1])
        cparams = callee.params[1:] + callee.kwonly
        bound = {}
        for i, a in enumerate(call.args):
            if i < len(callee.params) - 1:
                bound[callee.params[1 + i]] = a
        for k in call.keywords:
            if k.arg:
                bound[k.arg] = k.value
        ccall = [n for n in ast.walk(f.node) if isinstance(n, ast.Call) and norm(n.func) == "cls"]
        if len(ccall) != 1:
            raise AnalysisError(f"unrecognised idiom: MolGrid.{cname} does not end in one cls(...) call")
        init = repo.method("MolGrid", "__init__")
        cbound = {}
        for i, a in enumerate(ccall[0].args):
            cbound[init.params[1 + i]] = a
        for k in ccall[0].keywords:
            cbound[k.arg] = k.value
        for p in params:
            n_par += 1
            target = None
            where_call = None
            if p in cparams or ALIAS.get(p) in cparams:
                tname = p if p in cparams else ALIAS[p]
                # atnums goes to cls(...) AND (from_preset) to atnum=
                target = ("atomic", tname)
            if p in ("atnums", "aim_weights", "store"):
                tname = p
                if tname not in cbound:
                    rep.violation("R1.argument-fan-out", f.qual, f"{p}->cls.{tname}",
                                  f"`{p}` is not passed to cls(...): the molecular grid ignores it", repo.rel("molgrid", ccall[0]))
                elif p not in depends_on(cbound[tname], set(params), defs):
                    rep.violation("R1.argument-fan-out", f.qual, f"{p}->cls.{tname}",
                                  f"cls(..., {tname}={norm(cbound[tname])[:40]}) does not depend on the argument `{p}`",
                                  repo.rel("molgrid", ccall[0]))
                else:
                    rep.ok("R1.argument-fan-out", f"MolGrid.{cname}:{p}->cls.{tname}", repo.rel("molgrid", ccall[0]),
                           norm(cbound[tname])[:50])
            if target is not None:
                tname = target[1]
                if tname not in bound:
                    rep.violation("R1.argument-fan-out", f.qual, f"{p}->{fn}.{tname}",
                                  f"`{p}` is accepted by MolGrid.{cname} but `{tname}` is not passed to {fn}(...): the "
                                  f"atomic grids are built with the default instead of the argument",
                                  repo.rel("molgrid", call))
                elif p not in depends_on(bound[tname], set(params), defs):
                    rep.violation("R1.argument-fan-out", f.qual, f"{p}->{fn}.{tname}",
                                  f"{fn}(..., {tname}={norm(bound[tname])[:40]}) does not depend on the argument `{p}`",
                                  repo.rel("molgrid", call))
                else:
                    # no crossing: the value passed for tname must not depend on an unrelated same-kind parameter
                    rep.ok("R1.argument-fan-out", f"MolGrid.{cname}:{p}->{fn}.{tname}", repo.rel("molgrid", call),
                           norm(bound[tname])[:50])
        # crossed keywords: kw X receives a value that depends only on another forwarded parameter Y != X
        fw = {(p if p in cparams else ALIAS.get(p)): p for p in params if p in cparams or ALIAS.get(p) in cparams}
        for tname, expr in bound.items():
            if tname in fw:
                dep = depends_on(expr, set(params), defs)
                others = {fw[t] for t in fw if t != tname} - {"atnums", "atcoords"}
                own = fw[tname]
                if own not in dep and dep & others:
                    rep.violation("R1.argument-fan-out", f.qual, f"crossed:{tname}",
                                  f"{fn}(..., {tname}={norm(expr)[:40]}) is fed from `{sorted(dep & others)}` instead of `{own}`",
                                  repo.rel("molgrid", call))
        # default aim weights: None (and only None) is replaced by the documented default
        dflt = [s_ for s_ in ast.walk(f.node) if isinstance(s_, ast.If) and norm(s_.test) == "aim_weights is None"]
        asg = [s_ for s_ in ast.walk(f.node) if isinstance(s_, ast.Assign) and norm(s_.targets[0]) == "aim_weights"]
        okd = bool(dflt) and any("BeckeWeights(" in norm(x) for x in dflt[0].body)
        okd = okd or any(isinstance(a.value, ast.IfExp) and norm(a.value.test) in ("aim_weights is None", "aim_weights is not None")
                         and "BeckeWeights(" in norm(a.value) for a in asg)
        truthy = [a for a in asg if isinstance(a.value, ast.BoolOp) and isinstance(a.value.op, ast.Or)
                  and norm(a.value.values[0]) == "aim_weights"]
        if truthy:
            rep.violation("R1.default-aim-weights", f.qual, "aim_weights",
                          f"`{norm(truthy[0])}` truth-tests the argument: an array of weights (which MolGrid accepts) raises "
                          f"'truth value of an array is ambiguous', so the constructor rejects what the grid built by hand "
                          f"takes", repo.rel("molgrid", truthy[0]))
        elif okd:
            rep.ok("R1.default-aim-weights", f"MolGrid.{cname}", repo.rel("molgrid", (dflt or asg)[0]), "None -> BeckeWeights")
        elif not asg and not dflt:
            rep.violation("R1.default-aim-weights", f.qual, "aim_weights",
                          "aim_weights=None is not replaced by the documented default BeckeWeights", f.loc())
        else:
            raise AnalysisError(f"unrecognised idiom: default handling of aim_weights in MolGrid.{cname}")
        # container dispatch
        rule_dispatch(rep, repo, f)
    rep.floor("constructor parameters", n_par, 18)


def rule_dispatch(rep, repo, f):
    """`if isinstance(X, list): v = X[i] elif isinstance(X, dict): v = X[atnums[i]]`"""
    defs = local_defs(f.node)
    # which names are positions / atomic numbers?
    position, number = set(), set()
    def classify(target, seq):
        """Loop targets that are the atom's position / its atomic number, through enumerate / zip nesting."""
        if isinstance(seq, ast.Call) and norm(seq.func) == "enumerate" and seq.args and isinstance(target, ast.Tuple) \
                and len(target.elts) == 2:
            if isinstance(target.elts[0], ast.Name):
                position.add(target.elts[0].id)
            classify(target.elts[1], seq.args[0])
        elif isinstance(seq, ast.Call) and norm(seq.func) == "zip" and isinstance(target, ast.Tuple) and \
                len(seq.args) == len(target.elts):
            for el, a in zip(target.elts, seq.args):
                classify(el, a)
        elif isinstance(seq, ast.Call) and norm(seq.func) == "range":
            position.update(n.id for n in ast.walk(target) if isinstance(n, ast.Name))
        elif norm(seq) == "atnums" and isinstance(target, ast.Name):
            number.add(target.id)
    for s in ast.walk(f.node):
        if isinstance(s, (ast.For, ast.comprehension)):
            classify(s.target, s.iter)
    for name, vals in defs.items():
        if any(norm(v) in {f"atnums[{p}]" for p in position} for v in vals):
            number.add(name)
    number |= {f"atnums[{p}]" for p in position}
    visited = set()
    for s in ast.walk(f.node):
        if not isinstance(s, ast.If) or id(s) in visited:
            continue
        cur = s
        while True:
            visited.add(id(cur))
            t = cur.test
            if isinstance(t, ast.Call) and norm(t.func) == "isinstance" and len(t.args) == 2 and \
                    norm(t.args[1]) in ("list", "dict", "(list, tuple)", "(list, np.ndarray)"):
                X = norm(t.args[0])
                kind = "dict" if norm(t.args[1]) == "dict" else "list"
                subs = [n for b in cur.body for n in ast.walk(b) if isinstance(n, ast.Subscript) and norm(n.value) == X]
                for sub in subs:
                    idx = norm(sub.slice)
                    ok = (idx in position) if kind == "list" else (idx in number)
                    cons = f"{f.qual}:{X}[{kind}]"
                    if ok:
                        rep.ok("R1.per-atom-dispatch", cons, repo.rel("molgrid", sub), f"{norm(sub)}")
                    else:
                        want = "the atom's position" if kind == "list" else "the atom's atomic number"
                        rep.violation("R1.per-atom-dispatch", f.qual, f"{X}[{kind}]",
                                      f"`{norm(sub)}` in the {kind} branch is not indexed by {want}: atoms get the "
                                      f"wrong per-atom setting", repo.rel("molgrid", sub))
            if len(cur.orelse) == 1 and isinstance(cur.orelse[0], ast.If):
                cur = cur.orelse[0]
            else:
                break


ATOMIC = "atomic"
MOLECULAR = "atomic x aim"


def weight_tag(expr, defs):
    """Provenance of a weights expression / returned grid."""
    t = norm(expr)
    if "self._atgrids[" in t or t.startswith("self.atgrids["):
        return ATOMIC
    if isinstance(expr, ast.Call) and norm(expr.func) in ("LocalGrid", "Grid", "AtomGrid"):
        args = list(expr.args) + [k.value for k in expr.keywords if k.arg == "weights"]
        if len(expr.args) >= 2:
            return weight_tag(expr.args[1], defs)
        for k in expr.keywords:
            if k.arg == "weights":
                return weight_tag(k.value, defs)
    if "self._atweights" in t or "self.atweights" in t:
        return ATOMIC
    if "self.weights" in t or "self._weights" in t:
        return MOLECULAR
    if isinstance(expr, ast.Name) and expr.id in defs:
        tags = {weight_tag(v, defs) for v in defs[expr.id]}
        if len(tags) == 1:
            return tags.pop()
    return None


def rule_r2(rep, repo):
    n = 0
    for mname, f in repo.classes["MolGrid"].methods.items():
        branching = [s for s in strip_docstring(f.node.body) if isinstance(s, ast.If)
                     and norm(s.test) in ("self._atgrids is None", "self._atgrids is not None", "self.atgrids is None",
                                          "self.atgrids is not None")]
        if not branching:
            continue
        br = branching[0]
        if all(isinstance(x, ast.Raise) for x in br.body):
            continue  # "needs store=True" guard, no alternative route
        defs = local_defs(f.node)
        rets_in = [x for b in br.body for x in ast.walk(b) if isinstance(x, ast.Return)]
        rets_out = [x for x in strip_docstring(f.node.body) if isinstance(x, ast.Return)] + \
                   [x for b in br.orelse for x in ast.walk(b) if isinstance(x, ast.Return)]
        if not rets_in or not rets_out:
            continue
        n += 1
        ta = {weight_tag(r.value, defs) for r in rets_in}
        tb = {weight_tag(r.value, defs) for r in rets_out}
        if None in ta | tb:
            raise AnalysisError(f"unrecognised idiom: cannot classify the weights returned by {f.qual}")
        if ta == tb and len(ta) == 1:
            rep.ok("R2.store-invariant-weights", f.qual, f.loc(), f"both branches return {ta.pop()} weights")
        else:
            stored_first = "is not None" in norm(br.test)
            s_tag, n_tag = (ta, tb) if stored_first else (tb, ta)
            rep.violation("R2.store-invariant-weights", f.qual, "weights",
                          f"with stored atomic grids the method hands back {sorted(s_tag)} weights, without storage "
                          f"{sorted(n_tag)} weights: what the caller gets depends on the store flag",
                          repo.rel("molgrid", br))
    rep.floor("methods branching on the store flag", n, 2)


def _loop_graph(repo, cls, f, loop, symbols):
    """Value graphs after one symbolic iteration of ``loop`` (statements before it executed first)."""
    from gridlint import e5
    vg = e5.VG(repo, cls, f.node, inline="private")   # private helpers are looked through, properties are not
    for s in strip_docstring(f.node.body):
        if s is loop:
            break
        vg.stmt(s)
    pre = dict(vg.env)
    names = [n.id for n in ast.walk(loop.target) if isinstance(n, ast.Name)]
    for nm, sym in zip(names, symbols):
        vg.env[nm] = ("sym", sym)
    vg.run(loop.body)
    return vg, pre


def rule_r3(rep, repo):
    """Constructor: slice-wise concatenation delimited by a cumulative index table (value graphs:
    local names and statement order do not matter)."""
    from gridlint import e5
    f = repo.method("MolGrid", "__init__")
    body = strip_docstring(f.node.body)
    loop = next((s for s in body if isinstance(s, ast.For) and "atgrids" in norm(s.iter)), None)
    if loop is None or not norm(loop.iter).startswith("enumerate("):
        raise AnalysisError("unrecognised idiom: MolGrid.__init__ has no `for i, g in enumerate(atgrids)` loop")
    vg, pre = _loop_graph(repo, "MolGrid", f, loop, ["I", "G"])
    I, G = ("sym", "I"), ("sym", "G")
    I1 = e5.mk_ac("+", [I, ("const", "1")])
    where = repo.rel("molgrid", loop)
    cons = f.qual

    def field(name):
        return vg.env.get(f"self.{name}")

    def last_store(g, base):
        """(index, value, previous) of the outermost functional update of a field."""
        if isinstance(g, tuple) and g and g[0] == "setitem":
            return g[2], g[3], g[1]
        return None
    # index table
    idx_field = None
    for k, v in vg.env.items():
        if k.startswith("self.") and last_store(v, None) and last_store(v, None)[0] == I1 and pre.get(k) is not None \
                and "dtype" in repr(pre.get(k)):
            idx_field = k
    prefix_field = None
    if idx_field is None:
        # second idiom: the whole table is built before the loop as [0, cumsum(sizes)] and only read in it
        param = norm(loop.iter.args[0]) if isinstance(loop.iter, ast.Call) and loop.iter.args else None

        def sizes_of_atgrids(t):
            """`[g.size for g in atgrids]`, possibly wrapped in np.array/np.asarray (E5 folds those)."""
            return isinstance(t, tuple) and t and t[0] == "comp" and t[1] == "ListComp" and len(t[3]) == 1 and \
                not t[3][0][1] and t[3][0][0] == ("sym", param) and t[2] == ("attr", ("bound", 0, 0), "size")

        def is_cumsum(t):
            return isinstance(t, tuple) and t and t[0] == "call" and e5.show(t[1]) in ("np.cumsum", "numpy.cumsum") \
                and len(t[2]) == 1 and not t[3] and sizes_of_atgrids(t[2][0])

        def zero_first(t):
            return isinstance(t, tuple) and t and t[0] in ("list", "tuple") and len(t[1]) == 1 and t[1][0] == ("const", "0")
        for k, v in pre.items():
            if not k.startswith("self.") or vg.env.get(k) != v:
                continue
            st = last_store(v, None)
            form_a = st is not None and st[0] == ("slice", ("const", "1"), None, None) and is_cumsum(st[1]) and \
                "zeros" in repr(st[2]) and last_store(st[2], None) is None
            form_b = isinstance(v, tuple) and v and v[0] == "call" and e5.show(v[1]) in ("np.concatenate", "np.hstack") \
                and len(v[2]) == 1 and v[2][0][0] in ("list", "tuple") and len(v[2][0][1]) == 2 \
                and zero_first(v[2][0][1][0]) and is_cumsum(v[2][0][1][1])
            form_c = isinstance(v, tuple) and v and v[0] == "call" and e5.show(v[1]) == "np.insert" and len(v[2]) == 3 \
                and is_cumsum(v[2][0]) and v[2][1] == ("const", "0") and v[2][2] == ("const", "0")
            if form_a or form_b or form_c:
                prefix_field = k
        if prefix_field is None:
            raise AnalysisError("unrecognised idiom: MolGrid.__init__ keeps no cumulative index table (neither updated "
                                "at [i + 1] in the loop nor built as [0, cumsum(sizes)] before it)")
        idx_field = prefix_field
        rep.ok("R3.concatenation", "MolGrid.__init__:index-table-cumulative", where,
               "table = [0, cumsum(g.size for g in atgrids)] built before the loop and only read in it")
    else:
        key, val, prev = last_store(vg.env[idx_field], None)
        size_g = ("attr", G, "size")
        want = e5.mk_ac("+", [("sub", prev, I), size_g])
        want_aug = e5.mk_ac("+", [("sub", prev, I1), ("sub", prev, I), size_g])  # `+=` on a zero-initialised table
        zero_init = "zeros" in repr(pre[idx_field])
        if val == want or (val == want_aug and zero_init):
            rep.ok("R3.concatenation", "MolGrid.__init__:index-table-cumulative", where, e5.show(val, 90))
        else:
            rep.violation("R3.concatenation", cons, "index-table-cumulative",
                          f"entry i+1 of the index table is set to {e5.show(val, 110)}; it must be entry i plus the size of "
                          f"atomic grid i, otherwise indices[k]:indices[k+1] no longer delimits atom k", where)
    IDX = vg.env[idx_field]
    lo, hi = ("sub", IDX, I), ("sub", IDX, I1)
    for fld, attr, role in (("_points", "points", "points-copied-by-slice"), ("_atweights", "weights", "weights-copied-by-slice")):
        g = field(fld)
        st = last_store(g, None)
        if st is None:
            raise AnalysisError(f"unrecognised idiom: MolGrid.__init__ does not fill self.{fld} slice-wise")
        k, v, _ = st
        okk = k == ("slice", lo, hi, None) and v == ("attr", G, attr)
        if okk:
            rep.ok("R3.concatenation", f"MolGrid.__init__:{role}", where, f"self.{fld}[indices[i]:indices[i+1]] = g.{attr}")
        else:
            rep.violation("R3.concatenation", cons, role,
                          f"self.{fld}[{e5.show(k, 80)}] = {e5.show(v, 60)}: the {attr} of atom i must be copied into "
                          f"exactly the slice indices[i]:indices[i+1]", where)
    g = field("_atcoords")
    st = last_store(g, None)
    if st is not None and st[0] == I and st[1] == ("attr", G, "center"):
        rep.ok("R3.concatenation", "MolGrid.__init__:centres-recorded", where, "")
    else:
        rep.violation("R3.concatenation", cons, "centres-recorded",
                      "row i of the atomic coordinates is not the centre of atomic grid i", where)
    sup = [n for n in ast.walk(f.node) if isinstance(n, ast.Call) and norm(n.func) == "super().__init__"]
    okk = False
    if len(sup) == 1 and len(sup[0].args) == 2:
        warg = sup[0].args[1]
        # a local that is assigned exactly once stands for its expression (`total = a * b; super().__init__(p, total)`)
        seen = set()
        while isinstance(warg, ast.Name) and warg.id not in seen:
            seen.add(warg.id)
            defs = [n.value for n in ast.walk(f.node) if isinstance(n, ast.Assign) and len(n.targets) == 1
                    and isinstance(n.targets[0], ast.Name) and n.targets[0].id == warg.id]
            if len(defs) != 1:
                break
            warg = defs[0]
        w = e5.VG(repo, "MolGrid", f.node, inline=False).ev(warg)
        okk = w == e5.mk_ac("*", [("attr", ("sym", "self"), "_atweights"), ("attr", ("sym", "self"), "_aim_weights")]) \
            and norm(sup[0].args[0]) in ("self.points", "self._points")
    if okk:
        rep.ok("R3.aim-weights-applied-once", "MolGrid.__init__", repo.rel("molgrid", sup[0]), norm(sup[0])[:80])
    else:
        rep.violation("R3.aim-weights-applied-once", cons, "weights",
                      "the molecular weights are not atomic weights times aim weights (applied exactly once)", f.loc())
    call = [n for n in ast.walk(f.node) if isinstance(n, ast.Call) and norm(n.func) == "aim_weights"]
    if call and [norm(a) for a in call[0].args] == ["self._points", "self._atcoords", "atnums", "self._indices"]:
        rep.ok("R3.aim-callable-arguments", "MolGrid.__init__", repo.rel("molgrid", call[0]), norm(call[0])[:80])
    else:
        rep.violation("R3.aim-callable-arguments", cons, "aim_weights-call",
                      "the aim-weight callable is not evaluated as aim_weights(points, atcoords, atnums, indices)", f.loc())


def rule_r4(rep, repo):
    """The default radial grid is built by two copies (AtomGrid.from_preset with rgrid=None and
    molgrid._generate_default_rgrid): they must be the same value graph."""
    from gridlint import e5
    fa = repo.method("AtomGrid", "from_preset")
    fb = repo.module_func("molgrid", "_generate_default_rgrid")
    if any(isinstance(n, ast.Call) and norm(n.func).endswith("_generate_default_rgrid") for n in ast.walk(fa.node)):
        rep.ok("R4.default-rgrid-siblings", "AtomGrid.from_preset~_generate_default_rgrid", fa.loc(), "delegates")
        return
    # region in fa: the body of `if rgrid is None:` -> `if atnum in TABLE:`
    blk = next((s for s in strip_docstring(fa.node.body) if isinstance(s, ast.If) and norm(s.test) == "rgrid is None"), None)
    if blk is None:
        raise AnalysisError("unrecognised idiom: AtomGrid.from_preset has no `if rgrid is None:` default branch")
    inner = next((s for s in blk.body if isinstance(s, ast.If)), None)
    binner = next((s for s in strip_docstring(fb.node.body) if isinstance(s, ast.If)), None)
    if inner is None or binner is None or norm(inner.test) != norm(binner.test):
        raise AnalysisError("unrecognised idiom: default radial grid siblings do not test table membership the same way")
    A = e5.VG(repo, "AtomGrid", fa.node)
    A.run(inner.body)
    B = e5.VG(repo, None, fb.node)
    B.run(binner.body)
    ga = A.env.get("rgrid")
    gb = B.ret if B.ret is not None else B.env.get("rgrid")
    if ga is None or gb is None:
        raise AnalysisError("unrecognised idiom: default radial grid siblings do not produce `rgrid`")
    d = e5.diff(ga, gb)
    if d is None or e5.algebraically_equal(ga, gb):
        rep.ok("R4.default-rgrid-siblings", "AtomGrid.from_preset~_generate_default_rgrid", fa.loc(), e5.show(ga, 150))
    else:
        rep.violation("R4.default-rgrid-siblings", "molgrid._generate_default_rgrid", "rgrid",
                      f"the default radial grid of MolGrid ({e5.show(d[2], 90)}) differs from the one AtomGrid.from_preset "
                      f"builds by hand ({e5.show(d[1], 90)}): the convenience constructor no longer produces the grid "
                      f"obtained atom by atom with the same arguments", fb.loc(),
                      [f"first differing node at {d[0]}", f"sibling at {repo.rel('atomgrid', inner)}"])


def rule_r5(rep, repo):
    """No per-atom value may survive into the next iteration of the per-atom loop: a name that is
    assigned inside the loop *and* read in the same iteration before that assignment (an
    upward-exposed read, e.g. `if rgrid is None: rgrid = default(atnum)`) carries the value computed
    for atom k into atom k+1 -- the grid then differs from the one built atom by atom."""
    for cname in ("from_size", "from_preset", "from_pruned"):
        f = repo.method("MolGrid", cname)
        loops = [s for s in strip_docstring(f.node.body) if isinstance(s, ast.For)]
        if not loops:
            # the atomic grids may be built by a comprehension: its element expression cannot assign
            # names (other than through `:=`), so nothing is carried from one atom to the next
            comps = [c for c in ast.walk(f.node) if isinstance(c, (ast.ListComp, ast.GeneratorExp))
                     and any(isinstance(x, ast.Call) and norm(x.func).split(".")[0] == "AtomGrid" for x in ast.walk(c.elt))]
            if not comps:
                raise AnalysisError(f"unrecognised idiom: MolGrid.{cname} has no per-atom loop or comprehension")
            walrus = [x for c in comps for x in ast.walk(c) if isinstance(x, ast.NamedExpr)]
            if walrus:
                rep.violation("R5.no-loop-carried-per-atom-state", f.qual, norm(walrus[0].target),
                              f"`{norm(walrus[0])[:70]}` assigns a name inside the per-atom comprehension: the value computed "
                              f"for one atom can be reused for the following atoms", repo.rel("molgrid", walrus[0]))
            else:
                rep.ok("R5.no-loop-carried-per-atom-state", f"MolGrid.{cname}", repo.rel("molgrid", comps[0]),
                       "the atomic grids are built by a comprehension without assignment expressions")
            continue
        loop = loops[-1]
        targets = {n.id for n in ast.walk(loop.target) if isinstance(n, ast.Name)}
        carried = _upward_exposed_assigned(loop.body, set(targets))
        if carried:
            for name, node in sorted(carried.items()):
                rep.violation("R5.no-loop-carried-per-atom-state", f.qual, name,
                              f"`{name}` is read and then re-assigned inside the per-atom loop (`{norm(node)[:70]}`): the value "
                              f"computed for one atom is reused for the following atoms, so the molecular grid differs from "
                              f"the one obtained by building the atomic grids one by one", repo.rel("molgrid", node))
        else:
            rep.ok("R5.no-loop-carried-per-atom-state", f"MolGrid.{cname}", repo.rel("molgrid", loop),
                   "every name assigned in the per-atom loop is assigned before it is read in that iteration")


def _upward_exposed_assigned(body, defined):
    """{name: assigning stmt} for names that are read before being (definitely) assigned within
    one iteration and are also assigned somewhere in the loop body."""
    assigned_somewhere = {}
    for s in body:
        for n in ast.walk(s):
            if isinstance(n, ast.Assign):
                for t in n.targets:
                    for x in ast.walk(t):
                        if isinstance(x, ast.Name) and isinstance(x.ctx, ast.Store):
                            assigned_somewhere.setdefault(x.id, n)
            elif isinstance(n, (ast.AugAssign, ast.AnnAssign)) and isinstance(n.target, ast.Name):
                assigned_somewhere.setdefault(n.target.id, n)
    exposed = set()

    def reads(expr, d):
        for x in ast.walk(expr):
            if isinstance(x, ast.Name) and isinstance(x.ctx, ast.Load) and x.id in assigned_somewhere and x.id not in d:
                exposed.add(x.id)

    def block(stmts, d):
        d = set(d)
        for s in stmts:
            if isinstance(s, ast.If):
                reads(s.test, d)
                d1 = block(s.body, d)
                d2 = block(s.orelse, d)
                t1 = bool(s.body) and isinstance(s.body[-1], (ast.Raise, ast.Return, ast.Continue, ast.Break))
                t2 = bool(s.orelse) and isinstance(s.orelse[-1], (ast.Raise, ast.Return, ast.Continue, ast.Break))
                d = d2 if t1 and not t2 else d1 if t2 and not t1 else (d1 & d2)
            elif isinstance(s, ast.Assign):
                reads(s.value, d)
                for t in s.targets:
                    for x in ast.walk(t):
                        if isinstance(x, ast.Name) and isinstance(x.ctx, ast.Store):
                            d.add(x.id)
                        elif isinstance(x, ast.Name):
                            reads(x, d)
            elif isinstance(s, ast.AugAssign):
                reads(s.value, d)
                if isinstance(s.target, ast.Name) and s.target.id not in d:
                    exposed.add(s.target.id)
            elif isinstance(s, (ast.For, ast.While)):
                reads(s.iter if isinstance(s, ast.For) else s.test, d)
                inner = set(d)
                if isinstance(s, ast.For):
                    inner |= {x.id for x in ast.walk(s.target) if isinstance(x, ast.Name)}
                block(s.body, inner)
            else:
                for ch in ast.iter_child_nodes(s):
                    if isinstance(ch, ast.expr):
                        reads(ch, d)
        return d
    block(body, defined)
    return {n: assigned_somewhere[n] for n in exposed}


def run(tier="quick", root="/repo", evidence_dir=None, quiet=False):
    rep = Report(PROP, tier, root, EXPLANATION, RULE, assumptions=[
        "flow-insensitive local def-use inside each constructor (all three are straight-line loops)",
    ])
    repo = get_repo(root)
    # R7 first: the constructor evaluated over symbolic atomic grids (E10) backs the structural assembly rule R3
    from gridlint import mol_assembly
    nv, nf = len(rep.violations), len(rep.failed_floors)
    rep.attempt(mol_assembly.rule_assembly, rep, repo)
    r7 = len(rep.violations) == nv and len(rep.failed_floors) == nf
    from gridlint import fanout
    nv, nf = len(rep.violations), len(rep.failed_floors)
    rep.attempt(fanout.rule_fanout, rep, repo)
    r8 = len(rep.violations) == nv and len(rep.failed_floors) == nf
    rep.backed(rule_r1, r8, "the evaluation rule R8 decided that every constructor argument reaches its atom unchanged", rep, repo,
               only=("R1.",))
    rep.attempt(rule_r2, rep, repo)
    rep.backed(rule_r3, r7, "the evaluation rule R7 decided the assembly of points, index table, centres and weights",
               rep, repo, only=("R3.",))
    rep.attempt(rule_r4, rep, repo)
    rep.attempt(rule_r5, rep, repo)
    # R6: per-atom sequences are addressed in the index space of the atoms (no permutation applied twice,
    # no counter of a selection used on the full list)
    from gridlint import e9
    rep.attempt(e9.rule_index_spaces, rep, repo, ("molgrid",), "R6.index-space", 2)
    rep.extra["source_digest"] = repo.digest(["molgrid", "atomgrid"])
    return rep.finish(evidence_dir=evidence_dir, quiet=quiet)
