"""C03 -- radial transforms.

R1 sibling agreement (E5): BaseTransform.deriv{,2,3}_inverse and InverseRTransform.deriv{,2,3}
   implement the same inverse-function-theorem formulas over (inverse, deriv, deriv2, deriv3) of
   the wrapped transform: equal value graphs under self._tfm -> self.
R2 definite _domain/_codomain (E3) for every concrete transform class.
R3 trimming honoured: each class taking ``trim_inf`` stores the flag and routes every value
   returned by ``transform`` through ``_convert_inf`` under a test of the flag; ``_convert_inf``
   handles scalar and array, +inf and -inf.
R4 statelessness: no transform field is written after construction except the set-once scale.
R5 derivative chain (E8): d/dx transform == deriv, d/dx deriv == deriv2, d/dx deriv2 == deriv3 as
   algebraic normal forms, for all parameters at once.
R6 inverse(transform(x)) == x on normal forms.
R7 the generic inverse-derivative formulas equal the inverse-function-theorem formulas.
R8 the finite reference end points are mapped to the ends of the declared codomain.
(R5-R8 live in gridlint/identities.py.)
"""
from __future__ import annotations

import ast

from gridlint import e3, e5
from gridlint.core import AnalysisError, Report, norm, strip_docstring
from gridlint.props.common import get_repo

PROP = "C03"
EXPLANATION = (
    "Formula analysis on the source of rtransform.py; nothing is imported or executed.  (R5-R8) each "
    "closed-form method of the 11 concrete transform classes is translated from its syntax tree "
    "into an algebraic normal form - a quotient of polynomials in x, the parameters and generators "
    "f**u / log f / exp t over irreducible bases - differentiated with the generator rules and "
    "compared: a zero numerator of the difference proves the identity for all parameter values "
    "(derivative chain, inverse o forward = id, inverse-function-theorem formulas, finite end-point "
    "images).  A non-identity is reported only with an admissible rational witness point where the "
    "two formulas differ (60-digit evaluation of the analysis's own expressions); anything else is "
    "undecided (exit 2).  (R1) the two hand-written copies of the inverse-derivative formulas are "
    "compared as normalised value graphs, (R2) definite assignment of _domain/_codomain on every "
    "constructor path, (R3) the trim_inf flag is stored and honoured by the forward map and "
    "_convert_inf is two-sided, (R4) transforms are stateless apart from the set-once scale.  NOT "
    "decided: monotonicity; limits at infinite ends beyond 'the image is infinite'.")
RULE = ("11 classes x (3 derivative identities + inverse identity + reference end points); 3 generic formulas; "
        "3 sibling pairs; 12 classes x 2 fields; classes with trim_inf x obligations; writers of transform fields")

PAIRS = (("deriv_inverse", "deriv"), ("deriv2_inverse", "deriv2"), ("deriv3_inverse", "deriv3"))


def _has_comprehension(t):
    if isinstance(t, tuple):
        if t and t[0] == "comp":
            return True
        return any(_has_comprehension(x) for x in t)
    return False


def rule_r1(rep, repo):
    base = repo.cls("BaseTransform")
    inv = repo.cls("InverseRTransform")
    wrapped = None
    init = repo.method("InverseRTransform", "__init__")
    for w, st in e3.field_writes(repo, init):
        if isinstance(st, ast.Assign) and isinstance(st.value, ast.Name) and st.value.id in init.params[1:2]:
            wrapped = w
    if wrapped is None:
        raise AnalysisError("unrecognised idiom: InverseRTransform.__init__ does not store the wrapped transform")
    m = {("attr", ("sym", "self"), wrapped): ("sym", "self")}
    for bm, im in PAIRS:
        fa = repo.method("BaseTransform", bm)
        fb = repo.method("InverseRTransform", im)
        if fb.cls != "InverseRTransform":
            raise AnalysisError(f"anchor vanished: InverseRTransform.{im} is inherited")
        # delegation discharges the instance
        if any(isinstance(n, ast.Call) and norm(n.func) in (f"self.{bm}", f"self.{wrapped}.{bm}", f"super().{bm}")
               for n in ast.walk(fb.node)):
            rep.ok("R1.inverse-formulas-agree", f"{bm}~InverseRTransform.{im}", fb.loc(), "delegates")
            continue
        A = e5.VG(repo, "BaseTransform", fa.node)
        A.run(strip_docstring(fa.node.body))
        B = e5.VG(repo, "InverseRTransform", fb.node)
        B.run(strip_docstring(fb.node.body))
        if A.ret is None or B.ret is None:
            raise AnalysisError(f"no return value graph for {bm} / {im}")
        # parameter names may differ (r / x): bind B's parameter to A's
        pa, pb = fa.params[1], fb.params[1]
        gb = e5.subst(B.ret, {**m, ("sym", pb): ("sym", pa)})
        d = e5.diff(A.ret, gb)
        if d is None:
            rep.ok("R1.inverse-formulas-agree", f"{bm}~InverseRTransform.{im}", fa.loc(), e5.show(A.ret, 120))
        elif e5.algebraically_equal(A.ret, gb):
            # differently factored but the same Laurent polynomial in (d1, d2, d3): same function
            rep.ok("R1.inverse-formulas-agree", f"{bm}~InverseRTransform.{im}", fa.loc(),
                   "equal after expansion to the normal form " + e5.show_poly(e5.laurent(A.ret), 120))
        elif _has_comprehension(A.ret) or _has_comprehension(gb):
            # a value graph keeps a comprehension as one un-evaluated node (`[f(x) for f in (self.deriv, ...)[:k]]`): the two
            # graphs cannot be compared term by term, and a difference found there says nothing about the formulas
            raise AnalysisError(f"cannot compare BaseTransform.{bm} with InverseRTransform.{im}: the derivatives are produced by a "
                                f"comprehension the value graph does not unfold")
        else:
            rep.violation(
                "R1.inverse-formulas-agree", f"rtransform.BaseTransform.{bm}", f"InverseRTransform.{im}",
                f"the two implementations of the derivative of the inverse map differ: "
                f"BaseTransform.{bm} computes {e5.show(d[1], 90)} where InverseRTransform.{im} computes "
                f"{e5.show(d[2], 90)}; both must equal the same inverse-function-theorem formula, so one is wrong",
                fa.loc(), [f"first differing node at {d[0]}", f"A = {e5.show(A.ret, 200)}", f"B = {e5.show(gb, 200)}",
                           f"normal form A: {e5.show_poly(e5.laurent(A.ret), 200)}",
                           f"normal form B: {e5.show_poly(e5.laurent(gb), 200)}",
                           f"sibling at {fb.loc()}"])


def rule_r2(rep, repo):
    classes = [k for k in repo.subclasses("BaseTransform") if not repo.is_abstract_class(k)]
    rep.floor("concrete transform classes", len(classes), 12)
    getters = {}
    for p in ("domain", "codomain"):
        g = repo.method("BaseTransform", p)
        body = strip_docstring(g.node.body)
        if not (len(body) == 1 and isinstance(body[0], ast.Return) and e3.self_attr(body[0].value)):
            raise AnalysisError(f"unrecognised idiom: BaseTransform.{p} is not `return self.<field>`")
        getters[p] = body[0].value.attr
    for k in classes:
        fields, probs = e3.init_fields(repo, k)
        for p, fld in getters.items():
            g = repo.resolve_method(k, p)
            if g.cls != "BaseTransform":
                rep.ok("R2.domain-fields-defined", f"{k}.{p}", g.loc(), "overrides the property")
                continue
            if fld in fields:
                rep.ok("R2.domain-fields-defined", f"{k}.{fld}", repo.classes[k].node and g.loc(), "assigned on every constructor path")
            else:
                init = repo.resolve_method(k, "__init__")
                rep.violation("R2.domain-fields-defined", f"rtransform.{k}.__init__", fld,
                              f"{k}.__init__ does not assign self.{fld} on every path: tf.{p} raises AttributeError",
                              init.loc() if init else "")
    return classes


def _tests_flag(test, flag):
    t = norm(test)
    return t in (f"self.{flag}", f"self.{flag} is True", f"self.{flag} == True", f"bool(self.{flag})")


def rule_r3(rep, repo, classes):
    conv = repo.method("BaseTransform", "_convert_inf")
    n = 0
    for k in classes:
        init = repo.resolve_method(k, "__init__")
        if init is None or "trim_inf" not in init.allparams:
            continue
        n += 1
        stored = [w for w, st in e3.field_writes(repo, init)
                  if isinstance(st, ast.Assign) and isinstance(st.value, ast.Name) and st.value.id == "trim_inf"]
        if not stored:
            rep.violation("R3.trim-flag-stored", f"rtransform.{k}.__init__", "trim_inf",
                          "the trim_inf argument is not stored on the instance: the option has no effect", init.loc())
            continue
        flag = stored[0]
        rep.ok("R3.trim-flag-stored", f"{k}.__init__", init.loc(), f"self.{flag} = trim_inf")
        tr = repo.resolve_method(k, "transform")
        # small module-level helpers (`return _trim_inf_if_requested(self, values)`) are read inlined
        from gridlint import inline
        helpers = {g.name: g.node for g in repo.funcs.values()
                   if g.module == tr.module and g.cls is None and g.parent is None and not g.is_lambda and isinstance(g.node, ast.FunctionDef)}
        tr_node = inline.inline_calls(tr.node, helpers)
        body = strip_docstring(tr_node.body)
        rets = [s for s in ast.walk(tr_node) if isinstance(s, ast.Return) and s.value is not None]
        if not rets:
            raise AnalysisError(f"{k}.transform has no return")
        ok_all = True
        for r in rets:
            ok = False
            v = r.value
            if isinstance(v, ast.IfExp) and _tests_flag(v.test, flag) and "_convert_inf" in norm(v.body):
                ok = True
            elif isinstance(v, ast.Call) and norm(v.func) == "self._convert_inf":
                ok = True  # unconditional trimming would ignore trim_inf=False, checked below
                ok = False
            elif isinstance(v, ast.Name):
                # find `if self.trim_inf: v = self._convert_inf(v)` at top level before the return; positions are taken in
                # statement order (inlined helper statements share one line), plain copies `a = b` are followed backwards
                top = next((i for i, s in enumerate(body) if any(x is r for x in ast.walk(s))), len(body))
                names, trimmed_at = {v.id}, None
                for i in range(top - 1, -1, -1):
                    s = body[i]
                    if isinstance(s, ast.If) and _tests_flag(s.test, flag) and trimmed_at is None:
                        for b_ in s.body:
                            if isinstance(b_, ast.Assign) and norm(b_.targets[0]) in names and \
                                    isinstance(b_.value, ast.Call) and norm(b_.value.func) == "self._convert_inf" and \
                                    b_.value.args and norm(b_.value.args[0]) == norm(b_.targets[0]):
                                trimmed_at = i
                        if trimmed_at is not None:
                            break
                    if isinstance(s, ast.Assign) and len(s.targets) == 1 and norm(s.targets[0]) in names:
                        if isinstance(s.value, ast.Name):
                            names = (names - {norm(s.targets[0])}) | {s.value.id}
                            continue
                        break                   # a plain reassignment after the trimming block (or no block at all)
                    if isinstance(s, ast.AugAssign) and norm(s.target) in names:
                        break
                ok = trimmed_at is not None
            if not ok:
                ok_all = False
                rep.violation("R3.trim-honoured-by-transform", f"rtransform.{k}.transform", flag,
                              f"`{norm(r)[:70]}` is not routed through self._convert_inf under a test of "
                              f"self.{flag}: with trimming on, the forward map can return +-inf", repo.rel("rtransform", r))
        if ok_all:
            rep.ok("R3.trim-honoured-by-transform", f"{k}.transform", tr.loc(),
                   f"every return passes through _convert_inf when self.{flag}")
    rep.floor("classes with trim_inf", n, 5)
    # _convert_inf two-sided, scalar and array: decided by evaluation (E10); the earlier textual version (look for
    # `== np.inf` / `== -np.inf` stores and np.sign) false-alarmed on a loop over (infinity, replacement) pairs
    from gridlint import trim_inf
    trim_inf.rule_convert_inf(rep, repo)
    # the array branch must work on a copy (shared with C20, informational here)


def rule_r4(rep, repo, classes):
    from gridlint.props import c19
    sub = Report("C19", rep.tier, rep.root, "", "")
    c19.rule_r3(sub, repo)
    for i in sub.instances:
        if i["verdict"] == "holds":
            rep.ok("R4." + i["rule"].split(".", 1)[1], i["construct"], i["where"], i["detail"])
    for v in sub.violations:
        rep.violation("R4." + v["rule"].split(".", 1)[1], v["construct"], v["role"], v["what"], v["where"], v["witness"])


def run(tier="quick", root="/repo", evidence_dir=None, quiet=False):
    rep = Report(PROP, tier, root, EXPLANATION, RULE, assumptions=[
        "equal normalised value graphs over the same opaque callees imply equal results (referential "
        "transparency of transform/inverse/deriv*, which R4 supports: transforms are stateless)",
    ])
    repo = get_repo(root)
    rule_r1(rep, repo)
    classes = rule_r2(rep, repo)
    rule_r3(rep, repo, classes)
    rule_r4(rep, repo, classes)
    from gridlint import identities
    rep.attempt(identities.rule_ift, rep, repo)
    rep.attempt(identities.rule_identities, rep, repo, classes)
    rep.extra.update({"transform_classes": classes, "source_digest": repo.digest(["rtransform"])})
    return rep.finish(evidence_dir=evidence_dir, quiet=quiet)
