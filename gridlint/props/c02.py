"""C02 -- shipped angular grids: labelling / shape clauses and two table invariants.

R1 inventory agreement: every advertised (method, degree, size) is backed by exactly the file the
   loader opens, with the members it reads, `points` of shape (size, 3) and `weights` of shape
   (size,) or (1,), and embedded degree/size members equal to the label.
R2 dispatch agreement: the three string dispatch chains agree on keys, pair each key with tables
   of one family, map keys to caches injectively, and every later test of the method name reads the
   variable the dispatch reads.
R3 table invariants, computed on the stored columns: unit-norm points; weights summing to 4 pi or to
   one according to the constructor's convention for the method.

Not decided: exactness to the labelled degree (integrating harmonics is a numerical experiment).
"""
from __future__ import annotations

import ast
import os

from gridlint import e4
from gridlint.core import AnalysisError, Report, norm
from gridlint.props.common import get_repo

PROP = "C02"
EXPLANATION = (
    "Table/inventory analysis: the four degree<->size tables are constant-folded from the source "
    "of angular.py, the loader's string dispatch and file-name template are extracted from its "
    "syntax tree, and every advertised grid is checked against the header (member names, shape, "
    "dtype, embedded degree/size scalars) of the .npz archive the loader would open.  Exhaustive "
    "over all advertised (method, degree) pairs.  Two invariants are computed on the stored columns "
    "of every table (no function is integrated, nothing of the package is executed): every point has "
    "unit norm, and the weights sum to 4 pi or to one, whichever the constructor's branch for that "
    "method implies.  The exactness clause (harmonics up to the labelled degree integrate exactly) "
    "is NOT decided.")
RULE = ("one instance per (method, size->degree table entry) x 5 obligations (file exists, members, "
        "points shape/dtype, weights shape, embedded labels) plus one per dispatch key and chain")


class AngularModel:
    """Facts extracted from angular.py."""

    def __init__(self, repo):
        self.repo = repo
        mi = repo.modules.get("angular")
        if mi is None:
            raise AnalysisError("anchor vanished: module angular")
        self.mi = mi
        self.cls = repo.cls("AngularGrid")
        self.f_init = repo.method("AngularGrid", "__init__")
        self.f_get = repo.method("AngularGrid", "_get_degree_and_size")
        self.f_load = repo.method("AngularGrid", "_load_precomputed_angular_grid")
        # the resolver is read with its small private helpers inlined (a guarded look-up moved into a module-level function is
        # still the same look-up); helpers called with a tuple target -- the dispatch accessors -- are left to the table rules
        import copy
        from gridlint import inline
        helpers = {g.name: g.node for g in repo.funcs.values()
                   if g.module == "angular" and g.cls is None and g.parent is None and not g.is_lambda and isinstance(g.node, ast.FunctionDef)}
        inl = inline.inline_calls(self.f_get.node, helpers)
        if ast.dump(inl) != ast.dump(self.f_get.node):
            f2 = copy.copy(self.f_get)
            f2.node = inl
            self.f_get = f2
        self.chains = {}
        self.var = {}   # chain name -> role -> local variable bound by the dispatch
        legacy = {"degrees": "dict_degrees", "npoints": "dict_npoints", "package": "file_path", "cache": "cache_dict"}

        def role_of(v):
            if isinstance(v, ast.Name) and v.id.endswith("_DEGREES"):
                return "degrees"
            if isinstance(v, ast.Name) and v.id.endswith("_NPOINTS"):
                return "npoints"
            if isinstance(v, ast.Name) and v.id.endswith("_CACHE"):
                return "cache"
            if isinstance(v, ast.Constant) and isinstance(v.value, str) and "." in v.value:
                return "package"
            return None
        for name, f, wanted in (("__init__", self.f_init, ("cache",)),
                                ("_get_degree_and_size", self.f_get, ("degrees", "npoints")),
                                ("_load_precomputed_angular_grid", self.f_load, ("degrees", "npoints", "package"))):
            mod_funcs = {g.name: g.node for g in repo.funcs.values()
                         if g.module == "angular" and g.cls is None and not g.is_lambda and isinstance(g.node, ast.FunctionDef)}
            mod_classes = {c_.name: c_ for c_ in mi.tree.body if isinstance(c_, ast.ClassDef)} if hasattr(mi, "tree") else {}
            # the dispatch variable: the method argument, or a local derived from it (a normalised spelling)
            cands = ["method"] + [st.targets[0].id for st in ast.walk(f.node)
                                  if isinstance(st, ast.Assign) and len(st.targets) == 1 and isinstance(st.targets[0], ast.Name)
                                  and st.targets[0].id != "method"
                                  and any(isinstance(x, ast.Name) and x.id == "method" for x in ast.walk(st.value))]
            d = None
            for cand in cands:
                d = e4.string_dispatch(f.node.body, cand, mi.globals, mod_funcs, mod_classes)
                if d is not None and len(d[0]) >= 2 and d[1] and isinstance(d[1][-1], ast.Raise):
                    self.dvar = getattr(self, "dvar", {})
                    self.dvar[name] = cand
                    break
                d = None
            if d is None:
                d = e4.string_dispatch(f.node.body, "method", mi.globals, mod_funcs, mod_classes)
                self.dvar = getattr(self, "dvar", {})
                self.dvar[name] = "method"
            if d is None:
                raise AnalysisError(f"unrecognised idiom: no `method == \"...\"` dispatch chain in AngularGrid.{name}")
            chain, else_body, node = d
            if not (else_body and isinstance(else_body[-1], ast.Raise)):
                raise AnalysisError(f"dispatch chain in AngularGrid.{name} does not end in raise")
            table = {}
            self.var[name] = {}
            for key, body in chain:
                asg = e4.branch_assignments(body)
                roles = {}
                for var_, val in asg.items():
                    r = role_of(val)
                    if r is not None:
                        if r in roles:
                            raise AnalysisError(f"dispatch branch {key!r} of AngularGrid.{name} assigns two {r} values")
                        roles[r] = (var_, val)
                miss = [w for w in wanted if w not in roles]
                if miss:
                    raise AnalysisError(f"dispatch branch {key!r} of AngularGrid.{name} does not assign {miss}")
                if key in table:
                    raise AnalysisError(f"duplicate dispatch key {key!r} in AngularGrid.{name}")
                table[key] = {legacy[w]: roles[w][1] for w in wanted}
                for w in wanted:
                    if self.var[name].setdefault(w, roles[w][0]) != roles[w][0]:
                        raise AnalysisError(f"dispatch branches of AngularGrid.{name} bind the {w} to different names")
            self.chains[name] = (table, node)
        # tables
        self.tables = {}
        for tname, node in mi.globals.items():
            if tname.endswith("_NPOINTS") or tname.endswith("_DEGREES"):
                try:
                    self.tables[tname] = e4.fold(node, {}, mi.globals)
                except e4.NotConstant as e:
                    raise AnalysisError(f"table angular.{tname} is not a literal table ({e})") from e
        # file-name template: the f-string naming an .npz file
        self.template = None
        for s in ast.walk(self.f_load.node):
            if isinstance(s, ast.JoinedStr):
                t = e4.fstring_template(s)
                if t and any(p[0] == "lit" and p[1].endswith(".npz") for p in t):
                    self.template = t
        if self.template is None:
            raise AnalysisError("unrecognised idiom: no f-string '*.npz' file name in the loader")
        # the archive object: a name bound to np.load(...) by assignment or `with ... as`
        arch = set()
        for n in ast.walk(self.f_load.node):
            if isinstance(n, ast.Assign) and isinstance(n.value, ast.Call) and norm(n.value.func) in ("np.load", "numpy.load") \
                    and isinstance(n.targets[0], ast.Name):
                arch.add(n.targets[0].id)
            if isinstance(n, ast.With):
                for it in n.items:
                    if isinstance(it.context_expr, ast.Call) and norm(it.context_expr.func) in ("np.load", "numpy.load") \
                            and isinstance(it.optional_vars, ast.Name):
                        arch.add(it.optional_vars.id)
        if not arch:
            raise AnalysisError("unrecognised idiom: the loader does not bind the result of np.load(...) to a name")
        # members read by the loader: archive["..."]
        reads = [n for n in ast.walk(self.f_load.node)
                 if isinstance(n, ast.Subscript) and isinstance(n.slice, ast.Constant)
                 and isinstance(n.slice.value, str) and norm(n.value) in arch]
        self.members_read = sorted({n.slice.value for n in reads})
        if "points" not in self.members_read or "weights" not in self.members_read:
            raise AnalysisError(f"loader reads members {self.members_read}; expected points and weights")
        # single-weight idiom present?  `len(<the weights member>) == 1`, the member possibly through a local
        wnames = {f"{a_}['weights']" for a_ in arch}
        for n in ast.walk(self.f_load.node):
            if isinstance(n, ast.Assign):
                tg, vl = n.targets[0], n.value
                if isinstance(tg, ast.Name) and norm(vl) in wnames:
                    wnames.add(tg.id)
                if isinstance(tg, ast.Tuple) and isinstance(vl, ast.Tuple) and len(tg.elts) == len(vl.elts):
                    for t_, v_ in zip(tg.elts, vl.elts):
                        if isinstance(t_, ast.Name) and norm(v_) in wnames:
                            wnames.add(t_.id)
        self.single_weight_idiom = any(
            isinstance(n, ast.Compare) and len(n.ops) == 1 and isinstance(n.ops[0], ast.Eq)
            and norm(n.comparators[0]) == "1" and isinstance(n.left, ast.Call) and norm(n.left.func) == "len"
            and n.left.args and norm(n.left.args[0]) in wnames
            for n in ast.walk(self.f_load.node))

    def methods(self):
        return list(self.chains["_load_precomputed_angular_grid"][0])

    def tables_for(self, key, chain="_load_precomputed_angular_grid"):
        br = self.chains[chain][0][key]
        dn, nn = norm(br["dict_degrees"]), norm(br["dict_npoints"])
        for t in (dn, nn):
            if t not in self.tables:
                raise AnalysisError(f"dispatch key {key!r} names unknown table {t}")
        return dn, nn

    def data_dir(self, key):
        br = self.chains["_load_precomputed_angular_grid"][0][key]
        v = br["file_path"]
        if not (isinstance(v, ast.Constant) and isinstance(v.value, str)):
            raise AnalysisError(f"file_path of method {key!r} is not a string literal")
        return e4.package_dir(self.repo, v.value)

    def filename(self, key, degree, size):
        return e4.render_template(self.template, {"method": key, "degree": degree, "size": size})


def rule_dispatch(rep, repo, prefix="R2.", model=None):
    m = model or AngularModel(repo)
    names = list(m.chains)
    keysets = {n: list(m.chains[n][0]) for n in names}
    ref = keysets["_load_precomputed_angular_grid"]
    for n in names:
        if set(keysets[n]) == set(ref):
            rep.ok(prefix + "dispatch-keys-agree", f"AngularGrid.{n}", repo.rel("angular", m.chains[n][1]),
                   f"keys {sorted(keysets[n])}")
        else:
            rep.violation(prefix + "dispatch-keys-agree", f"angular.AngularGrid.{n}", "keys",
                          f"method keys {sorted(keysets[n])} differ from the loader's {sorted(ref)}: a method "
                          f"accepted in one place is rejected or mis-routed in another",
                          repo.rel("angular", m.chains[n][1]))
    # same table family per key in both table chains; degrees/npoints from the same family
    for key in ref:
        fams = {}
        for n in ("_get_degree_and_size", "_load_precomputed_angular_grid"):
            if key not in m.chains[n][0]:
                continue
            dn, nn = m.tables_for(key, n)
            fams[n] = (dn, nn)
            if dn.rsplit("_", 1)[0] != nn.rsplit("_", 1)[0]:
                rep.violation(prefix + "table-family", f"angular.AngularGrid.{n}", key,
                              f"method {key!r} pairs {dn} with {nn} (different families): degree and size "
                              f"no longer form a matching pair", repo.rel("angular", m.chains[n][1]))
            else:
                rep.ok(prefix + "table-family", f"AngularGrid.{n}[{key}]", repo.rel("angular", m.chains[n][1]),
                       f"{dn} / {nn}")
        if len(set(fams.values())) > 1:
            rep.violation(prefix + "table-family", "angular.AngularGrid._load_precomputed_angular_grid", key,
                          f"method {key!r} resolves sizes with {fams.get('_get_degree_and_size')} but loads with "
                          f"{fams.get('_load_precomputed_angular_grid')}", repo.rel("angular", m.f_load.node))
    # every test of the method name in the constructor reads the variable the dispatch reads (a
    # normalised spelling must not be bypassed by a later test of the raw argument)
    dv = m.dvar.get("__init__", "method")
    keyset = set(ref)
    for n_ in ast.walk(m.f_init.node):
        if isinstance(n_, ast.Compare) and len(n_.ops) == 1 and isinstance(n_.left, ast.Name):
            c_ = n_.comparators[0]
            consts = [c_.value] if isinstance(c_, ast.Constant) else \
                [e_.value for e_ in c_.elts if isinstance(e_, ast.Constant)] if isinstance(c_, (ast.List, ast.Tuple, ast.Set)) else []
            if not consts or not set(consts) <= keyset:
                continue
            if n_.left.id == dv:
                rep.ok(prefix + "method-tests-use-dispatch-variable", f"AngularGrid.__init__:{norm(n_)[:40]}",
                       repo.rel("angular", n_), f"tests `{dv}`")
            elif dv != "method" or n_.left.id != "method":
                rep.violation(prefix + "method-tests-use-dispatch-variable", "angular.AngularGrid.__init__", norm(n_)[:50],
                              f"`{norm(n_)[:70]}` tests `{n_.left.id}` while the tables and caches are selected through "
                              f"`{dv}`: a spelling that the dispatch accepts takes the other branch here", repo.rel("angular", n_))
    # caches injective
    caches = {}
    for key, br in m.chains["__init__"][0].items():
        c = norm(br["cache_dict"])
        caches.setdefault(c, []).append(key)
    for c, ks in caches.items():
        if len(ks) > 1:
            rep.violation(prefix + "cache-injective", "angular.AngularGrid.__init__", c,
                          f"methods {ks} share the cache {c}: a grid cached for one method is returned for the "
                          f"other whenever the degrees coincide", repo.rel("angular", m.chains["__init__"][1]))
        else:
            rep.ok(prefix + "cache-injective", f"{c}<-{ks[0]}", repo.rel("angular", m.chains["__init__"][1]), "")
    # the key used for the cache is the resolved degree: `degree` must be (re)assigned from
    # _get_degree_and_size before any cache access
    f = m.f_init
    resolved_line = None
    for s in f.node.body:
        if isinstance(s, ast.Assign) and isinstance(s.value, ast.Call) and \
                norm(s.value.func).endswith("_get_degree_and_size"):
            tgt = s.targets[0]
            names_ = [norm(e) for e in tgt.elts] if isinstance(tgt, ast.Tuple) else [norm(tgt)]
            resolved_line = s.lineno
            resolved_names = names_
    if resolved_line is None:
        raise AnalysisError("unrecognised idiom: AngularGrid.__init__ does not call _get_degree_and_size at top level")
    bad = False
    for n in ast.walk(f.node):
        cvar = m.var["__init__"]["cache"]
        get_call = isinstance(n, ast.Call) and isinstance(n.func, ast.Attribute) and norm(n.func.value) == cvar and \
            n.func.attr in ("get", "pop", "setdefault") and n.args
        if isinstance(n, ast.Subscript) and norm(n.value) == cvar or get_call or \
                (isinstance(n, ast.Compare) and any(norm(c) == cvar for c in n.comparators)):
            keyexpr = norm(n.slice) if isinstance(n, ast.Subscript) else norm(n.args[0]) if get_call else norm(n.left)
            if n.lineno < resolved_line or keyexpr != resolved_names[0]:
                bad = True
                rep.violation(prefix + "cache-key-resolved", "angular.AngularGrid.__init__", keyexpr,
                              f"cache accessed with key `{keyexpr}` which is not the degree resolved by "
                              f"_get_degree_and_size: equal grids get different entries or different grids collide",
                              repo.rel("angular", n))
    if not bad:
        rep.ok(prefix + "cache-key-resolved", "AngularGrid.__init__", repo.rel("angular", f.node),
               f"every cache access uses `{resolved_names[0]}` assigned from _get_degree_and_size")
    return m


def rule_inventory(rep, repo, m, prefix="R1."):
    total = 0
    extras = []
    for key in m.methods():
        dn, nn = m.tables_for(key)
        npoints = m.tables[nn]
        ddir = m.data_dir(key)
        if not os.path.isdir(ddir):
            raise AnalysisError(f"data directory {ddir} for method {key!r} does not exist")
        listed = set(os.listdir(ddir))
        used = set()
        for size, degree in npoints.items():
            total += 1
            fn = m.filename(key, degree, size)
            used.add(fn)
            where = f"src/grid/data/{os.path.basename(ddir)}/{fn}"
            cons = f"{key}:{degree}:{size}"
            if fn not in listed:
                rep.violation(prefix + "file-exists", f"angular.{nn}", cons,
                              f"advertised grid (method={key}, degree={degree}, size={size}) has no data file {fn}",
                              where)
                continue
            rep.ok(prefix + "file-exists", cons, where, "", nontrivial=True)
            inv = e4.npz_inventory(os.path.join(ddir, fn), small_int_members=True, max_small=2)
            miss = [x for x in m.members_read if x not in inv]
            if miss:
                rep.violation(prefix + "members", f"angular.{nn}", cons,
                              f"{fn} lacks member(s) {miss} that the loader reads", where)
                continue
            rep.ok(prefix + "members", cons, where, ",".join(sorted(inv)))
            ps, pd = inv["points"]["shape"], inv["points"]["descr"]
            if ps != (size, 3) or pd[1] != "f":
                rep.violation(prefix + "points-shape", f"angular.{nn}", cons,
                              f"{fn}: points has shape {ps} dtype {pd}; advertised size {size} requires ({size}, 3) float",
                              where)
            else:
                rep.ok(prefix + "points-shape", cons, where, f"{ps} {pd}")
            ws = inv["weights"]["shape"]
            okw = ws == (size,) or (ws == (1,) and m.single_weight_idiom)
            if not okw or inv["weights"]["descr"][1] != "f":
                rep.violation(prefix + "weights-shape", f"angular.{nn}", cons,
                              f"{fn}: weights has shape {ws} dtype {inv['weights']['descr']}; expected ({size},)"
                              + (" or (1,)" if m.single_weight_idiom else ""), where)
            else:
                rep.ok(prefix + "weights-shape", cons, where, f"{ws}")
            lab_ok = True
            for lab, want in (("degree", degree), ("size", size)):
                if lab in inv and "value" in inv[lab] and len(inv[lab]["value"]) == 1:
                    if inv[lab]["value"][0] != want:
                        lab_ok = False
                        rep.violation(prefix + "embedded-label", f"angular.{nn}", cons + ":" + lab,
                                      f"{fn}: embedded {lab}={inv[lab]['value'][0]} but the table/file name says {want}",
                                      where)
            if lab_ok:
                rep.ok(prefix + "embedded-label", cons, where,
                       "embedded degree/size equal the label" if "degree" in inv else "no embedded labels")
        for fn in sorted(listed - used):
            if fn.endswith(".npz"):
                extras.append(f"{os.path.basename(ddir)}/{fn}")
    for x in extras:
        rep.note(f"data file {x} is not named by any table entry (cannot be constructed through the API)")
    rep.extra["unreachable_extra_files"] = extras
    return total


def _four_pi_convention(m):
    """{method key: True if the stored weights already include 4 pi} -- read off the constructor: the
    methods whose branch hands the loaded weights on unchanged include it, the others are multiplied
    by `4 * np.pi` (their stored weights are normalised to one)."""
    f = m.f_init
    keys = m.methods()
    listed = None
    for n in ast.walk(f.node):
        test = n.test if isinstance(n, (ast.If, ast.IfExp)) else None
        if test is None and isinstance(n, ast.Assign) and isinstance(n.value, ast.Compare):
            test = n.value
        if isinstance(test, ast.Compare) and len(test.ops) == 1 and isinstance(test.ops[0], ast.In) and \
                isinstance(test.comparators[0], (ast.List, ast.Tuple, ast.Set)) and \
                all(isinstance(x, ast.Constant) and x.value in keys for x in test.comparators[0].elts):
            body_txt = norm(n) if not isinstance(n, ast.Assign) else " ".join(
                norm(x) for x in ast.walk(f.node) if isinstance(x, (ast.IfExp, ast.If)) and n.targets and
                norm(x.test) == norm(n.targets[0]))
            if "4 * np.pi" in norm(f.node) and ("np.pi" in body_txt or isinstance(n, ast.Assign)):
                listed = {x.value for x in test.comparators[0].elts}
    if listed is None or "4 * np.pi" not in norm(f.node):
        raise AnalysisError("unrecognised idiom: AngularGrid.__init__ does not distinguish the methods whose stored "
                            "weights include 4 pi from those that are multiplied by 4 * np.pi")
    return {k: (k in listed) for k in keys}


def rule_table_invariants(rep, repo, m, prefix="R3."):
    """Two invariants of every shipped table, computed on the stored columns (no function is integrated):
    all points have unit norm, and the weights sum to 4 pi (methods whose stored weights include it) or
    to one (methods that the constructor multiplies by 4 pi)."""
    import math
    import numpy as np
    conv = _four_pi_convention(m)
    n = 0
    for key in m.methods():
        dn, nn = m.tables_for(key)
        ddir = m.data_dir(key)
        target = 4 * math.pi if conv[key] else 1.0
        for size, degree in m.tables[nn].items():
            fn = m.filename(key, degree, size)
            path = os.path.join(ddir, fn)
            if not os.path.exists(path):
                continue   # reported by R1
            where = f"src/grid/data/{os.path.basename(ddir)}/{fn}"
            cons = f"data/{os.path.basename(ddir)}/{fn}"
            try:
                with np.load(path) as z:
                    pts, wts = np.asarray(z["points"], dtype=float), np.asarray(z["weights"], dtype=float)
            except Exception as e:  # noqa: BLE001
                rep.violation(prefix + "table-readable", cons, f"{key}:{degree}", f"{fn} cannot be read: {e}", where)
                continue
            n += 1
            total = float(math.fsum(wts)) if wts.size > 1 else float(wts[0]) * len(pts)
            dev_w = abs(total - target)
            dev_p = float(np.max(np.abs(np.sqrt(np.sum(pts * pts, axis=1)) - 1.0))) if pts.ndim == 2 and len(pts) else 0.0
            if dev_w <= 1e-9 * max(1.0, target):
                rep.ok(prefix + "weights-sum", f"{key}:{degree}:{size}", where, f"sum = {total:.12g}")
            else:
                rep.violation(prefix + "weights-sum", cons, f"{key}:{degree}",
                              f"the stored weights of {fn} sum to {total:.10g}, not to {target:.10g} "
                              f"({'4 pi' if conv[key] else '1, before the constructor multiplies by 4 pi'}): the grid does "
                              f"not integrate a constant exactly", where)
            if dev_p <= 1e-10:
                rep.ok(prefix + "unit-sphere", f"{key}:{degree}:{size}", where, f"max | |p| - 1 | = {dev_p:.1e}")
            else:
                rep.violation(prefix + "unit-sphere", cons, f"{key}:{degree}",
                              f"{fn}: a point is {dev_p:.3g} away from the unit sphere", where)
    rep.floor("shipped tables with invariants checked", n, 440)


def run(tier="quick", root="/repo", evidence_dir=None, quiet=False):
    rep = Report(PROP, tier, root, EXPLANATION, RULE, assumptions=[
        "np.load + importlib.resources resolve 'grid.data.<dir>' to src/grid/data/<dir> (package layout)",
        "npy headers describe the stored arrays truthfully (format invariant of NumPy)",
    ])
    repo = get_repo(root)
    m = rule_dispatch(rep, repo, prefix="R2.")
    total = rule_inventory(rep, repo, m)
    rep.attempt(rule_table_invariants, rep, repo, m)
    rep.floor("advertised (method, degree) pairs", total, 440)
    rep.floor("dispatch keys", len(m.methods()), 4)
    rep.extra.update({"methods": m.methods(), "table_sizes": {k: len(v) for k, v in m.tables.items()},
                      "file_template": m.template, "members_read_by_loader": m.members_read,
                      "source_digest": repo.digest(["angular"])})
    return rep.finish(evidence_dir=evidence_dir, quiet=quiet)
