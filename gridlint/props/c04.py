"""C04 -- transforming a 1D grid: data-flow shape of ``BaseTransform.transform_1d_grid``.

(a) new points  = self.transform(oned_grid.points), nothing else;
(b) new weights = product of oned_grid.weights and self.deriv(<the same points>);
(c) magnitude: when some shipped transform has a provably negative derivative on its domain (sign
    domain under the documented parameter assumptions) the Jacobian factor must pass through a
    magnitude operator before reaching the weights;
(d) new domain  = ordered image of the old domain, only built when the old domain is not None;
(e) the domain-inclusion precondition dominates the construction;
(f) ``OneDGrid.__init__`` keeps its armed containment check of points against the domain.
"""
from __future__ import annotations

import ast

from gridlint import e5, e6
from gridlint.core import AnalysisError, Report, norm, strip_docstring
from gridlint.props.common import get_repo

PROP = "C04"
EXPLANATION = (
    "Def-use / value-graph shape of transform_1d_grid plus a sign domain over the closed-form "
    "derivatives of the shipped transforms.  Decides: nodes are the mapped nodes, weights are the "
    "old weights times the Jacobian evaluated at the same nodes, the Jacobian enters through a "
    "magnitude whenever a decreasing map is shipped, the domain is the ordered image, the "
    "precondition and the containment check are armed.  NOT decided: transport of exactness, any "
    "numerical value.")
RULE = "6 obligations at one site (transform_1d_grid) + sign classification of deriv for each concrete transform"

ABS_FUNCS = ("np.abs", "np.absolute", "np.fabs", "abs", "numpy.abs")

# documented parameter assumptions: constructors validate or document these
ASSUME_POS = {"self._R", "self._k", "self._m", "self._a", "self._b", "self.b", "self._rmin", "self._rmax",
              "1 + x", "x + 1", "1 - x", "qi", "two_m", "2", "self._rmax - self._rmin", "size_r"}


def sign(e, local=None):
    """'+', '-', '0' or None (unknown) for an expression under ASSUME_POS."""
    local = local or {}
    t = norm(e)
    if t in ASSUME_POS:
        return "+"
    if isinstance(e, ast.Name) and e.id in local:
        return local[e.id]
    if isinstance(e, ast.Constant) and isinstance(e.value, (int, float)):
        return "+" if e.value > 0 else ("-" if e.value < 0 else "0")
    if isinstance(e, ast.UnaryOp) and isinstance(e.op, ast.USub):
        s = sign(e.operand, local)
        return {"+": "-", "-": "+", "0": "0"}.get(s)
    if isinstance(e, ast.BinOp):
        a, b = sign(e.left, local), sign(e.right, local)
        if isinstance(e.op, (ast.Mult, ast.Div)):
            if a is None or b is None:
                return None
            if "0" in (a, b):
                return "0" if isinstance(e.op, ast.Mult) or a == "0" else None
            return "+" if a == b else "-"
        if isinstance(e.op, ast.Pow):
            if a == "+":
                return "+"
            if isinstance(e.right, ast.Constant) and isinstance(e.right.value, int) and e.right.value % 2 == 0 and a:
                return "+"
            return None
        if isinstance(e.op, ast.Add):
            if a is not None and a == b and a in "+-":
                return a
            return None
    if isinstance(e, ast.Call) and norm(e.func) in ("np.exp", "np.ones", "np.cosh"):
        return "+"
    if isinstance(e, ast.Call) and norm(e.func) in ("np.power",) and e.args and sign(e.args[0], local) == "+":
        return "+"
    if isinstance(e, ast.Call) and norm(e.func) == "self._convert_inf" and e.args:
        return sign(e.args[0], local)
    return None


def _less_pairs(test):
    """{(a, b)} for every comparison meaning a < b (or <=) inside a guard, whatever its spelling."""
    out = set()
    for n in ast.walk(test):
        if isinstance(n, ast.Compare) and len(n.ops) == 1:
            a, b = norm(n.left), norm(n.comparators[0])
            if isinstance(n.ops[0], (ast.Lt, ast.LtE)):
                out.add((a, b))
            elif isinstance(n.ops[0], (ast.Gt, ast.GtE)):
                out.add((b, a))
    return out


def deriv_sign(f):
    """Sign of the value returned by a ``deriv`` method (all returns must agree)."""
    local = {}
    signs = set()
    for s in strip_docstring(f.node.body):
        for x in ast.walk(s):
            if isinstance(x, ast.Assign) and isinstance(x.targets[0], ast.Name):
                sg = sign(x.value, local)
                name = x.targets[0].id
                if name in local and local[name] != sg:
                    # re-assignment through _convert_inf keeps the sign; otherwise unknown
                    if not (isinstance(x.value, ast.Call) and norm(x.value.func) == "self._convert_inf"):
                        local[name] = None
                else:
                    local[name] = sg
            if isinstance(x, ast.Return) and x.value is not None:
                signs.add(sign(x.value, local))
    if len(signs) == 1:
        return signs.pop()
    return None


def run(tier="quick", root="/repo", evidence_dir=None, quiet=False):
    rep = Report(PROP, tier, root, EXPLANATION, RULE, assumptions=[
        "parameter assumptions of the sign domain: R, k, m, a, b, rmin, rmax > 0, rmax > rmin, x in (-1, 1) "
        "(validated or documented by the constructors)",
    ])
    repo = get_repo(root)
    # (g) first: the function evaluated over a symbolic grid (E10) decides the clauses that the structural rules a, b, d argue
    # for from the shape of the code; when it has decided them, what those rules report is kept as a note
    from gridlint import transform_grid
    nv, nf = len(rep.violations), len(rep.failed_floors)
    rep.attempt(transform_grid.rule_assembly_evaluated, rep, repo)
    g_ok = len(rep.violations) == nv and len(rep.failed_floors) == nf
    try:
        return _structural(rep, repo, g_ok, evidence_dir, quiet)
    except AnalysisError as e:
        if not g_ok:
            raise
        rep.note(f"the structural rules did not recognise the idiom ({str(e)[:160]}); the evaluation rule g decided the assembly")
        rep.extra.update({"source_digest": repo.digest(["rtransform", "basegrid"])})
        return rep.finish(evidence_dir=evidence_dir, quiet=quiet)


def _structural(rep, repo, g_ok, evidence_dir, quiet):
    _violation = rep.violation

    def violation(rule, construct, role, what, where="", witness=None):
        if g_ok and rule[:2] in ("a.", "b.", "d."):
            rep.note(f"structural rule {rule} reported `{what[:160]}`; the evaluation rule g decided the assembly of points, weights "
                     f"and domain")
            return
        _violation(rule, construct, role, what, where, witness)
    rep.violation = violation
    f = repo.method("BaseTransform", "transform_1d_grid")
    cons = "rtransform.BaseTransform.transform_1d_grid"
    gparam = f.params[1]
    vg = e5.VG(repo, "BaseTransform", f.node, inline=False)
    body = strip_docstring(f.node.body)
    vg.run(body)
    ret = vg.ret
    if ret is None or ret[0] != "call" or e5.show(ret[1]) != "OneDGrid" or len(ret[2]) + len(ret[3]) < 2:
        raise AnalysisError(f"unrecognised idiom: transform_1d_grid returns {e5.show(ret, 100) if ret else None}")
    args = list(ret[2]) + [None] * 3
    kw = dict(ret[3])
    P = kw.get("points", args[0])
    W = kw.get("weights", args[1])
    D = kw.get("domain", args[2])
    g = ("sym", gparam)
    pts = ("attr", g, "points")
    wts = ("attr", g, "weights")
    dom = ("attr", g, "domain")
    where = f.loc()
    # (a)
    want_p = ("call", ("attr", ("sym", "self"), "transform"), (pts,), ())
    if P == want_p:
        rep.ok("a.points-are-mapped-nodes", cons, where, e5.show(P))
    else:
        rep.violation("a.points-are-mapped-nodes", cons, "points",
                      f"the new nodes are {e5.show(P, 120)} instead of self.transform({gparam}.points)", where)
    # (b)
    dcall = ("call", ("attr", ("sym", "self"), "deriv"), (pts,), ())

    def contains(t, x):
        if t == x:
            return True
        return isinstance(t, tuple) and any(contains(y, x) for y in t)

    def factors(t):
        if isinstance(t, tuple) and t and t[0] == "ac" and t[1] == "*":
            return list(t[2])
        return [t]
    fac = factors(W)
    has_w = wts in fac
    jac = [x for x in fac if contains(x, ("attr", ("sym", "self"), "deriv"))]
    if has_w and len(jac) == 1 and contains(jac[0], dcall) and len(fac) == 2:
        rep.ok("b.weights-times-jacobian", cons, where, e5.show(W, 120))
    else:
        rep.violation("b.weights-times-jacobian", cons, "weights",
                      f"the new weights are {e5.show(W, 140)}; expected {gparam}.weights times self.deriv({gparam}.points) "
                      f"(Jacobian at the same nodes) and nothing else", where)
    # (c) magnitude
    classes = [k for k in repo.subclasses("BaseTransform") if not repo.is_abstract_class(k)]
    neg = []
    for k in classes:
        d = repo.resolve_method(k, "deriv")
        if d is None or d.cls == "InverseRTransform":
            continue
        s = deriv_sign(d)
        rep.ok("c.deriv-sign-classified", f"{k}.deriv", d.loc(), {"+": "positive", "-": "NEGATIVE", "0": "zero",
                                                                  None: "unknown"}[s])
        if s == "-":
            neg.append(k)
    rep.floor("transform classes classified", len(classes), 12)
    through_abs = False
    if jac:
        j = jac[0]
        through_abs = (j[0] == "call" and e5.show(j[1]) in ABS_FUNCS) or \
            (W[0] == "call" and e5.show(W[1]) in ABS_FUNCS)
    if not neg:
        rep.ok("c.jacobian-magnitude", cons, where, "no shipped transform has a provably negative derivative")
    elif through_abs:
        rep.ok("c.jacobian-magnitude", cons, where, f"|Jacobian| used; decreasing maps: {neg}")
    else:
        rep.violation("c.jacobian-magnitude", cons, "weights",
                      f"signed Jacobian: the weights are {e5.show(W, 90)} with no magnitude operator, but "
                      f"{', '.join(neg)}.deriv is negative on its whole domain (decreasing map): positive weights become "
                      f"negative and the integral of a positive function comes out negative", where,
                      [f"{k}.deriv at {repo.resolve_method(k, 'deriv').loc()}" for k in neg])
    # (d) domain -- evaluated with private helpers inlined (`self._transform_domain(domain)`)
    vgi = e5.VG(repo, "BaseTransform", f.node, inline=True)
    vgi.run(body)
    Di = None
    if vgi.ret is not None and vgi.ret[0] == "call":
        ai = list(vgi.ret[2]) + [None] * 3
        Di = dict(vgi.ret[3]).get("domain", ai[2])
    d_ok = False
    d_desc = e5.show(Di, 160) if Di is not None else "None"
    # `oned_grid.domain` may be spelled through the trivial property or the field
    doms = (dom, ("attr", g, "_domain"))
    if Di is not None and Di[0] == "phi":
        cond, a, b = Di[1], Di[2], Di[3]
        none_test = cond[0] == "cmp" and cond[1] in (("IsNot",), ("Is",)) and cond[2] in doms and \
            cond[3] == (("const", "None"),)
        if none_test:
            built, other = (a, b) if cond[1] == ("IsNot",) else (b, a)
            images = [("call", ("attr", ("sym", "self"), "transform"), (d_,), ()) for d_ in doms] + \
                     [("call", ("attr", ("sym", "self"), "transform"),
                       (("call", ("attr", ("glob", "np"), "array"), (d_,), ()),), ()) for d_ in doms]
            ordered = any(contains(built, im) for im in images) \
                and any(fn in e5.show(built, 300) for fn in ("np.sort(", "sorted(", "min(", "np.min("))
            # the ordered image and nothing else: only the ordering / container conversions may wrap it
            def only_ordering(t):
                if t in images:
                    return True
                if isinstance(t, tuple) and t and t[0] == "call" and e5.show(t[1]) in (
                        "tuple", "list", "np.sort", "sorted", "np.asarray", "np.array") and len(t[2]) == 1 and not t[3]:
                    return only_ordering(t[2][0])
                if isinstance(t, tuple) and t and t[0] in ("tuple", "list") and len(t[1]) == 2:
                    a_, b_ = t[1]
                    return all(isinstance(z, tuple) and z[0] == "call" and e5.show(z[1]) in
                               ("min", "max", "np.min", "np.max", "np.amin", "np.amax") and len(z[2]) == 1 and
                               z[2][0] in images for z in (a_, b_)) and e5.show(a_[1]).endswith("min") and \
                        e5.show(b_[1]).endswith("max")
                return False
            exact = only_ordering(built)
            d_ok = ordered and exact and (other in doms or other == ("const", "None"))
            if ordered and not exact and (other in doms or other == ("const", "None")):
                txt_b = e5.show(built, 300)
                if any(w_ in txt_b for w_ in ("clip", "minimum", "maximum", "codomain", "where(")):
                    pass    # the image is altered after it was computed: reported below
                else:
                    raise AnalysisError(f"unrecognised idiom: new domain `{txt_b[:120]}` wraps the ordered image in "
                                        f"operations the checker does not know")
    if d_ok:
        rep.ok("d.domain-is-ordered-image", cons, where, d_desc[:140])
    else:
        rep.violation("d.domain-is-ordered-image", cons, "domain",
                      f"the new domain is {d_desc[:150]}; expected the sorted image self.transform(np.array(domain)) when "
                      f"the old domain is not None, else None", where)
    # (e) precondition -- comparisons read through local names (value graphs)
    def show_pairs(test, graph):
        out = set()
        for n in ast.walk(test):
            if isinstance(n, ast.Compare) and len(n.ops) == 1:
                a_, b_ = e5.show(graph.ev(n.left), 200), e5.show(graph.ev(n.comparators[0]), 200)
                if isinstance(n.ops[0], (ast.Lt, ast.LtE)):
                    out.add((a_, b_))
                elif isinstance(n.ops[0], (ast.Gt, ast.GtE)):
                    out.add((b_, a_))
        return out
    pre = None
    cmp_ = set()
    pre_line = None
    for s in body:
        if isinstance(s, ast.If) and s.body and isinstance(s.body[-1], ast.Raise):
            pr = show_pairs(s.test, vg)
            if any(f"{gparam}.domain" in a_ + b_ and "self.domain" in a_ + b_ for a_, b_ in pr):
                pre, cmp_, pre_line = s, pr, s.lineno
        # the check delegated to a private method that is called as a statement (`self._check_grid_domain(grid)`)
        if isinstance(s, ast.Expr) and isinstance(s.value, ast.Call) and isinstance(s.value.func, ast.Attribute) and \
                norm(s.value.func.value) == "self" and s.value.func.attr.startswith("_"):
            h = repo.resolve_method("BaseTransform", s.value.func.attr)
            if h is None:
                continue
            hg = e5.VG(repo, "BaseTransform", h.node, inline=False)
            hp = [p_ for p_ in h.params if p_ not in ("self", "cls")]
            for p_, a_ in zip(hp, s.value.args):
                hg.env[p_] = vg.ev(a_)
            for k_ in s.value.keywords:
                if k_.arg:
                    hg.env[k_.arg] = vg.ev(k_.value)
            for s_ in ast.walk(h.node):
                if isinstance(s_, ast.Assign):
                    try:
                        hg.stmt(s_)
                    except Exception:  # noqa: BLE001
                        pass
            for s_ in ast.walk(h.node):
                if isinstance(s_, ast.If) and s_.body and isinstance(s_.body[-1], ast.Raise):
                    pr = show_pairs(s_.test, hg)
                    if any(f"{gparam}.domain" in a_ + b_ and "self.domain" in a_ + b_ for a_, b_ in pr):
                        pre, cmp_, pre_line = s_, pr, s.lineno
    t = norm(pre.test) if pre is not None else ""
    lo = (f"{gparam}.domain[0]", "self.domain[0]") in cmp_
    hi = ("self.domain[1]", f"{gparam}.domain[1]") in cmp_
    first_use = min((n.lineno for n in ast.walk(f.node) if isinstance(n, ast.Call) and norm(n.func) in
                     ("self.transform", "self.deriv")), default=10 ** 9)
    if pre is not None and lo and hi and isinstance(pre.test, ast.BoolOp) and isinstance(pre.test.op, ast.Or) \
            and pre_line < first_use:
        rep.ok("e.domain-precondition", cons, repo.rel("rtransform", pre), t[:100])
    else:
        rep.violation("e.domain-precondition", cons, "precondition",
                      "the check that the grid's domain lies inside the transform's domain (both ends, raising otherwise) "
                      "does not dominate the construction", where)
    # (f) OneDGrid containment check
    init = repo.method("OneDGrid", "__init__")
    gi = e5.VG(repo, "OneDGrid", init.node, inline=False)
    for s_ in ast.walk(init.node):
        if isinstance(s_, ast.Assign):   # single-assignment locals of the constructor (min_p, lower, upper, ...)
            try:
                gi.stmt(s_)
            except Exception:  # noqa: BLE001 - a statement the value graph cannot bind is simply not looked through
                pass
    pairs = set()
    for s_ in ast.walk(init.node):
        if isinstance(s_, ast.If) and s_.body and isinstance(s_.body[-1], ast.Raise):
            pairs |= show_pairs(s_.test, gi)
    # validation delegated to private helpers: their guards count, with the parameters bound to the
    # arguments of the call
    for c_ in ast.walk(init.node):
        if isinstance(c_, ast.Call) and isinstance(c_.func, ast.Attribute) and norm(c_.func.value) in ("self", "cls", "OneDGrid") \
                and c_.func.attr.startswith("_") and not c_.func.attr.startswith("__"):
            h = repo.resolve_method("OneDGrid", c_.func.attr)
            if h is None:
                continue
            hg = e5.VG(repo, "OneDGrid", h.node, inline=False)
            hp = [p_ for p_ in h.params if p_ not in ("self", "cls")]
            for p_, a_ in zip(hp, c_.args):
                hg.env[p_] = gi.ev(a_)
            for k_ in c_.keywords:
                if k_.arg:
                    hg.env[k_.arg] = gi.ev(k_.value)
            for s_ in ast.walk(h.node):
                if isinstance(s_, ast.Assign):
                    try:
                        hg.stmt(s_)
                    except Exception:  # noqa: BLE001
                        pass
            for s_ in ast.walk(h.node):
                if isinstance(s_, ast.If) and s_.body and isinstance(s_.body[-1], ast.Raise):
                    pairs |= show_pairs(s_.test, hg)
    low = any(("min" in a and "domain[0]" in b) for a, b in pairs)     # min(points) < domain[0] (- tol)
    high = any(("domain[1]" in a and "max" in b) for a, b in pairs)    # domain[1] (+ tol) < max(points)
    for side, okk in (("lower", low), ("upper", high)):
        if okk:
            rep.ok("f.containment-check-armed", f"basegrid.OneDGrid.__init__[{side}]", init.loc(), "")
        else:
            rep.violation("f.containment-check-armed", "basegrid.OneDGrid.__init__", side,
                          f"OneDGrid no longer rejects points beyond the {side} end of the declared domain", init.loc())
    rep.extra.update({"decreasing_transforms": neg, "source_digest": repo.digest(["rtransform", "basegrid"])})
    rep.violation = _violation
    return rep.finish(evidence_dir=evidence_dir, quiet=quiet)
