"""C17 -- closed-form Coulomb potentials: parameter-table clause only.

Every shipped per-element parameter set has the keys the loader subscripts, the two lists have
equal length >= 1, exponents are positive finite literals, every top-level key is reachable
through both look-ups (symbol and atomic number), and the loader converts through a fresh array
conversion.  The analytic identities of the s/p formulas are NOT decided.
"""
from __future__ import annotations

import ast
import math
import os

from gridlint import e4
from gridlint.core import AnalysisError, Report, norm, strip_docstring
from gridlint.props.common import get_repo

PROP = "C17"
EXPLANATION = (
    "Table <-> loader agreement: the keys that load_atomic_gaussian_params subscripts are extracted "
    "from its syntax tree and checked against every entry of the shipped JSON table (keys present, "
    "equal lengths >= 1, exponents > 0 and finite, coefficients finite, element symbols known to the "
    "num2sym table so that both look-up routes reach them); the loader hands the lists out only "
    "through np.asarray(..., dtype=float).  Analytic clause (E8 with an erf generator, nothing "
    "executed): the formula each Gaussian-potential routine returns above the small-r threshold and "
    "the value it returns below it are extracted from the source (masked ufuncs, masked stores, "
    "np.where, private helpers) and, for the normalised and unnormalised s and p variants, (P1) "
    "(r V)'' == -4 pi r rho for the documented density rho as algebraic normal forms, (P2) the small-r "
    "value equals the r -> 0 limit of the formula, (P3) r V tends to the total charge.  Known "
    "finding: the p-type formula is not the potential of its documented density (pinned by a test).  "
    "NOT decided: how far an r-dependent small-r expansion may be used (numerical), superposition.")
RULE = ("one instance per (element entry x obligation) of atomic_gauss_params.json, plus loader-side obligations; "
        "2 routines x 2 variants x 3 analytic identities")


def rule_superposition(rep, repo):
    """`coulomb_potential` is the coefficient-weighted sum over *all* s and *all* p primitives: each
    family must be accumulated into the returned array, and the loops / guards that decide which
    primitives of one family are visited must not depend on the arrays of the other family (a p
    function enumerated through the s centres is dropped whenever its centre is not an s centre)."""
    from gridlint.props.c07 import local_defs, depends_on
    f = repo.module_func("coulomb", "coulomb_potential")
    params = list(f.allparams)
    fam = {"s": {p_ for p_ in params if p_.endswith("_s")}, "p": {p_ for p_ in params if p_.endswith("_p")}}
    if len(fam["s"]) < 3 or len(fam["p"]) < 3:
        raise AnalysisError("anchor vanished: coulomb_potential(points, centers_s, coeffs_s, alphas_s, centers_p, ...)")
    defs = local_defs(f.node)
    helpers = {g.name: g for g in repo.funcs.values()
               if g.module == "coulomb" and g.cls is None and not g.is_lambda and isinstance(g.node, ast.FunctionDef)}
    # enclosing loops / guards of every accumulation statement
    found = {"s": [], "p": []}

    def walk(stmts, ctx):
        for st in stmts:
            if isinstance(st, (ast.For, ast.While)):
                it = st.iter if isinstance(st, ast.For) else st.test
                walk(st.body, ctx + [it])
                walk(st.orelse, ctx)
            elif isinstance(st, ast.If):
                walk(st.body, ctx + [st.test])
                walk(st.orelse, ctx + [st.test])
            elif isinstance(st, (ast.With, ast.Try)):
                walk(st.body, ctx)
            else:
                for c in ast.walk(st):
                    if isinstance(c, ast.Call) and norm(c.func) in ("coulomb_gaussian_s", "coulomb_gaussian_p"):
                        plain = isinstance(st, ast.Assign) and len(st.targets) == 1 and isinstance(st.targets[0], ast.Name) and \
                            isinstance(st.value, ast.BinOp) and isinstance(st.value.op, ast.Add) and \
                            any(isinstance(x, ast.Name) and x.id == st.targets[0].id for x in ast.walk(st.value))
                        if (isinstance(st, ast.AugAssign) and isinstance(st.op, ast.Add)) or plain:   # V += t  or  V = V + t
                            found[norm(c.func)[-1]].append((st, list(ctx)))
                    # the accumulation delegated to a helper that receives the family's potential function
                    if isinstance(c, ast.Call) and isinstance(c.func, ast.Name) and c.func.id in helpers:
                        passed = [a_.id for a_ in list(c.args) + [k_.value for k_ in c.keywords]
                                  if isinstance(a_, ast.Name) and a_.id in ("coulomb_gaussian_s", "coulomb_gaussian_p")]
                        h = helpers[c.func.id]
                        accumulates = any(isinstance(x, ast.AugAssign) and isinstance(x.op, ast.Add) for x in ast.walk(h.node))
                        if len(passed) == 1 and accumulates:
                            # the other arguments of the call belong to the selection context of this family
                            others = [a_ for a_ in list(c.args) + [k_.value for k_ in c.keywords]
                                      if not (isinstance(a_, ast.Name) and a_.id == passed[0])]
                            found[passed[0][-1]].append((st, list(ctx) + others))
    walk(strip_docstring(f.node.body), [])
    for k, other in (("s", "p"), ("p", "s")):
        cons = "coulomb.coulomb_potential"
        if not found[k]:
            rep.violation("S1.every-primitive-summed", cons, f"{k}-type",
                          f"no `+=` accumulation of coulomb_gaussian_{k}(...) terms: the {k}-type functions do not enter the sum",
                          f.loc())
            continue
        for st, ctx in found[k]:
            deps = set()
            for e_ in ctx:
                deps |= depends_on(e_, set(params), defs)
            cross = sorted(deps & fam[other])
            if cross:
                rep.violation("S1.every-primitive-summed", cons, f"{k}-type",
                              f"which {k}-type functions are added (`{norm(st)[:70]}`) is decided by loops / tests that depend "
                              f"on {cross}: a {k}-type function whose centre (or index) has no counterpart there is left "
                              f"out of the sum", repo.rel("coulomb", st))
            else:
                rep.ok("S1.every-primitive-summed", f"coulomb_potential[{k}-type]", repo.rel("coulomb", st),
                       f"enumeration depends on {sorted(deps & fam[k]) or 'nothing'} only")


def run(tier="quick", root="/repo", evidence_dir=None, quiet=False):
    rep = Report(PROP, tier, root, EXPLANATION, RULE, assumptions=[
        "json.load returns the document as dict/list/float objects",
    ])
    repo = get_repo(root)
    f = repo.module_func("coulomb", "load_atomic_gaussian_params")
    mi = repo.modules["coulomb"]
    # file name and package read by the loader
    fname = None
    pkgname = None
    # the loader together with the module-level helpers it calls (a lazy table accessor, ...)
    scope = [f.node]
    for _ in range(2):
        for fn in list(scope):
            for c in ast.walk(fn):
                if isinstance(c, ast.Call) and isinstance(c.func, ast.Name):
                    g = next((x for x in repo.funcs.values() if x.module == "coulomb" and x.cls is None
                                   and x.name == c.func.id), None)
                    if g is not None and g.node not in scope:
                        scope.append(g.node)
    CACHE = "_ATOMIC_GAUSS_PARAMS_CACHE"
    # helpers all of whose returns hand out the cache object itself
    accessors = {fn.name for fn in scope[1:]
                 if (rs := [r for r in ast.walk(fn) if isinstance(r, ast.Return)]) and
                 all(r.value is not None and norm(r.value) == CACHE for r in rs)}
    table_names = {CACHE}
    for n in ast.walk(f.node):
        if isinstance(n, ast.Assign) and isinstance(n.targets[0], ast.Name) and \
                (norm(n.value) == CACHE or (isinstance(n.value, ast.Call) and isinstance(n.value.func, ast.Name)
                                            and n.value.func.id in accessors and not n.value.args)):
            table_names.add(n.targets[0].id)
    table_names |= {f"{a}()" for a in accessors}
    for n in (x for fn in scope for x in ast.walk(fn)):
        if isinstance(n, ast.Call) and isinstance(n.func, ast.Attribute) and n.func.attr == "joinpath" and n.args \
                and isinstance(n.args[0], ast.Constant) and str(n.args[0].value).endswith(".json"):
            fname = n.args[0].value
            inner = n.func.value
            if isinstance(inner, ast.Call) and norm(inner.func) == "files" and inner.args and \
                    isinstance(inner.args[0], ast.Constant):
                pkgname = inner.args[0].value
    if fname is None or pkgname is None:
        raise AnalysisError("unrecognised idiom: loader does not open files('<pkg>').joinpath('<name>.json')")
    path = os.path.join(e4.package_dir(repo, pkgname), fname)
    if not os.path.exists(path):
        rep.violation("table-file-exists", "coulomb.load_atomic_gaussian_params", fname,
                      f"the parameter table {fname} opened by the loader is not shipped", f.loc())
        return rep.finish(evidence_dir=evidence_dir, quiet=quiet)
    table = e4.load_json(path)
    # keys subscripted on the per-element entry
    entry_var = None
    for n in ast.walk(f.node):
        if isinstance(n, ast.Assign) and isinstance(n.value, ast.Subscript) and \
                norm(n.value.value) in table_names and isinstance(n.targets[0], ast.Name):
            entry_var = n.targets[0].id
        # `entry = table.get(symbol)` (a missing element is rejected explicitly afterwards)
        if isinstance(n, ast.Assign) and isinstance(n.value, ast.Call) and isinstance(n.value.func, ast.Attribute) and \
                n.value.func.attr == "get" and norm(n.value.func.value) in table_names and len(n.value.args) == 1 and \
                isinstance(n.targets[0], ast.Name):
            entry_var = n.targets[0].id
    if entry_var is None:
        raise AnalysisError("unrecognised idiom: loader does not read `_ATOMIC_GAUSS_PARAMS_CACHE[<symbol>]`")
    reads = {}
    for n in ast.walk(f.node):
        if isinstance(n, ast.Subscript) and norm(n.value) == entry_var and isinstance(n.slice, ast.Constant):
            reads[n.slice.value] = n
    if len(reads) < 2:
        raise AnalysisError(f"loader reads only {sorted(reads)} from an entry")
    coeff_key = next((k for k in reads if "coeff" in k), None)
    alpha_key = next((k for k in reads if "alpha" in k), None)
    if coeff_key is None or alpha_key is None:
        raise AnalysisError(f"cannot tell coefficient/exponent keys among {sorted(reads)}")
    # fresh conversion of what is returned
    conv_ok = True
    for k, n in reads.items():
        parent_ok = False
        for c in ast.walk(f.node):
            if isinstance(c, ast.Call) and norm(c.func) in ("np.asarray", "np.array", "numpy.asarray", "numpy.array",
                                                             "list", "tuple") and c.args and c.args[0] is n:
                parent_ok = True
        if parent_ok:
            rep.ok("loader-fresh-conversion", f"coulomb.load_atomic_gaussian_params[{k}]", repo.rel("coulomb", n),
                   "the JSON list is converted to a new array before it is returned")
        else:
            conv_ok = False
            rep.violation("loader-fresh-conversion", "coulomb.load_atomic_gaussian_params", k,
                          f"data[{k!r}] of the process-wide table is handed out without a fresh conversion: "
                          f"a caller editing it changes later calls", repo.rel("coulomb", n))
    # symbol tables
    utils = repo.modules["utils"]
    try:
        num2sym = e4.fold(utils.globals["num2sym"], {}, utils.globals)
    except (KeyError, e4.NotConstant) as e:
        raise AnalysisError(f"utils.num2sym is not a literal table: {e}") from e
    symbols = set(num2sym.values())
    if not isinstance(table, dict) or not table:
        rep.violation("table-shape", f"data/{fname}", "top", "the parameter table is not a non-empty JSON object", path)
        return rep.finish(evidence_dir=evidence_dir, quiet=quiet)
    where = f"src/grid/data/{fname}"
    for sym, entry in table.items():
        cons = f"{fname}[{sym}]"
        if sym in symbols and sym == sym.strip().title():
            rep.ok("entry-reachable", cons, where, "element symbol known to num2sym (both look-up routes reach it)")
        else:
            rep.violation("entry-reachable", f"data/{fname}", f"{sym}:symbol",
                          f"key {sym!r} is not a title-cased element symbol of utils.num2sym: the entry cannot be "
                          f"loaded by symbol and/or atomic number", where)
        miss = [k for k in reads if not isinstance(entry, dict) or k not in entry]
        if miss:
            rep.violation("entry-keys", f"data/{fname}", f"{sym}:keys",
                          f"entry {sym!r} lacks key(s) {miss} that the loader subscripts (KeyError at load time)", where)
            continue
        rep.ok("entry-keys", cons, where, ",".join(sorted(entry)))
        cs, al = entry[coeff_key], entry[alpha_key]
        if not (isinstance(cs, list) and isinstance(al, list) and len(cs) == len(al) and len(cs) >= 1):
            rep.violation("entry-lengths", f"data/{fname}", f"{sym}:lengths",
                          f"entry {sym!r}: {coeff_key} and {alpha_key} must be lists of equal length >= 1 "
                          f"(got {len(cs) if isinstance(cs, list) else type(cs).__name__} and "
                          f"{len(al) if isinstance(al, list) else type(al).__name__})", where)
            continue
        rep.ok("entry-lengths", cons, where, f"{len(cs)} coefficients / exponents")
        num = lambda x: isinstance(x, (int, float)) and not isinstance(x, bool) and math.isfinite(x)  # noqa: E731
        if all(num(a) and a > 0 for a in al):
            rep.ok("entry-positive-exponents", cons, where, f"min exponent {min(al)}")
        else:
            bad = [a for a in al if not (num(a) and a > 0)]
            rep.violation("entry-positive-exponents", f"data/{fname}", f"{sym}:exponents",
                          f"entry {sym!r} has non-positive or non-finite exponent(s) {bad[:3]}", where)
        if all(num(c) for c in cs):
            rep.ok("entry-finite-coefficients", cons, where, "")
        else:
            rep.violation("entry-finite-coefficients", f"data/{fname}", f"{sym}:coefficients",
                          f"entry {sym!r} has non-numeric / non-finite coefficient(s)", where)
    rep.floor("shipped parameter sets", len(table), 5)
    rep.attempt(rule_superposition, rep, repo)
    from gridlint import superposition
    rep.attempt(superposition.rule_superposition_evaluated, rep, repo)
    # analytic clause: the s/p routines return the potential of the density they document (E8 + erf)
    from gridlint import identities
    rep.attempt(identities.rule_coulomb, rep, repo)
    rep.extra.update({"elements": sorted(table), "keys_read_by_loader": sorted(reads),
                      "source_digest": repo.digest(["coulomb", "utils"])})
    return rep.finish(evidence_dir=evidence_dir, quiet=quiet)
