"""C20 -- library calls never modify the caller's arrays, dictionaries or callback results.

Rule (E2): no in-place construct of the package is reachable by an object whose origins include
a parameter of a public entry / escaping closure (EXT) or a value returned by a user callback
(CBRET), on any path.  Decided for every public entry and every aliasing pattern at once by the
ownership/effect analysis; nothing is executed.
"""
from __future__ import annotations

import collections

from gridlint.core import AnalysisError, Report
from gridlint.e2 import classify_sites, ext_write_findings
from gridlint.props.common import get_e2, get_repo

PROP = "C20"
EXPLANATION = (
    "Static ownership/alias/effect analysis (abstract interpretation over origins, parametric "
    "per-function summaries instantiated at every call site, 0-CFA for closures, field-based "
    "heap, fixpoint over the whole package).  Decides: no in-place write (augmented assignment, "
    "subscript/attribute store, mutator method, out=, del, np.copyto-like) can reach an object "
    "supplied by the caller of any public function/method/returned closure, nor an object "
    "returned by a user callback.  Every syntactic in-place construct of the package is "
    "enumerated and must be classified by the analysis (candidate accounting).")
RULE = ("instances = every in-place construct in src/grid/*.py (syntactic enumeration) plus every "
        "(public entry, parameter) pair; an instance is non-trivial when the construct exists in "
        "the source / the parameter is a non-receiver parameter of a public callable")


def run(tier="quick", root="/repo", evidence_dir=None, quiet=False):
    rep = Report(PROP, tier, root, EXPLANATION, RULE, assumptions=[
        "closed world: user subclasses of library classes are not analysed",
        "library model: NumPy/SciPy callees not in the model default to 'returns a new object' "
        "and are listed under defaulted_library_callees",
        "no getattr/setattr/eval/exec/__dict__ in the package (verified by the loader on every run)",
        "field-based heap: one cell per (class, field), container contents are one cell",
    ])
    repo = get_repo(root)
    eng = get_e2(root)
    rows = classify_sites(eng)
    for r in rows:
        if r["class"] in ("UNCLASSIFIED", "UNKNOWN-TARGET"):
            raise AnalysisError(
                f"in-place construct not classified by the analysis: {r['func']} {r['where']}: {r['text']}")
    findings = ext_write_findings(eng)
    bad_sites = {v["where"] for v in findings.values()}
    for r in rows:
        if r["where"] in bad_sites:
            continue  # reported below with the witness path
        rep.ok("inplace-construct-classified", f"{r['func']}::{r['text'][:60]}", r["where"],
               f"{r['kind']}: {r['class']} {','.join(r['origins'][:3])}")
    public, esc = eng.entry_points()
    npar = 0
    for q in sorted(public | esc):
        f = repo.funcs[q]
        for i, p in enumerate(f.allparams):
            if f.is_method and i == 0:
                continue
            npar += 1
            hit = any(v["entry"] == q and v["param"] == p for v in findings.values())
            if not hit:
                rep.ok("no-write-to-caller-data", f"{q}({p})", f.loc(),
                       "no in-place sink reachable from this parameter or from a value it returns")
    for (prim, role), v in sorted(findings.items()):
        rep.violation("no-write-to-caller-data", prim, role,
                      f"in-place write `{v['text'][:90]}` ({v['what'][:80]}) reaches "
                      f"{'the value returned by callback' if v['kind'] == 'cbret' else 'caller-owned argument'} "
                      f"'{v['param']}' of public entry {v['entry']}",
                      v["where"], v["witness"])
    kinds = collections.Counter(r["kind"] for r in rows)
    rep.floor("in-place constructs", len(rows), 150)
    rep.floor("public entry parameters", npar, 400)
    rep.floor("functions analysed", len(repo.funcs), 300)
    rep.extra.update({
        "functions_analysed": len(repo.funcs), "classes": len(repo.classes), "modules": len(repo.modules),
        "public_entries": len(public), "escaping_closures": sorted(esc),
        "inplace_constructs_by_kind": dict(kinds),
        "inplace_constructs_by_class": dict(collections.Counter(r["class"] for r in rows)),
        "fixpoint_rounds": eng.rounds,
        "unresolved_calls": dict(eng.unresolved.most_common(20)),
        "defaulted_library_callees": dict(eng.defaulted_lib),
        "library_model_audit": {k: eng.lib_seen[k] for k in sorted(eng.lib_seen)},
        "source_digest": repo.digest(),
    })
    return rep.finish(evidence_dir=evidence_dir, quiet=quiet)
