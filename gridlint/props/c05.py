"""C05 -- atomic grid = radial x shells: presets, shell-sibling agreement, seeding.

R1 preset table <-> branch agreement for every (preset, element) pair shipped.
R2 shell sibling (E5): ``_generate_atomic_grid`` (loop body, shell i) and ``get_shell_grid`` apply the
   same value graph to the unit angular grid.
R3 the centre is added exactly once, on read.
R4 every random draw on the construction path is seeded from the ``rotate`` argument.
R5 count-style presets reach the constructor through ``sizes=`` (so C12's round-up applies).
"""
from __future__ import annotations

import ast
import os

from gridlint import e4, e5
from gridlint.core import AnalysisError, Report, norm, strip_docstring
from gridlint.props.c02 import AngularModel
from gridlint.props.common import get_repo

PROP = "C05"
EXPLANATION = (
    "(R1) table/branch agreement: every (preset, element) pair of the 17 shipped preset archives "
    "is routed through the guards of AtomGrid.from_preset by a literal guard interpreter and the "
    "table it finds (member names, dtype, lengths, small integer values) must fit the branch it "
    "takes; (R2) the stored shell and the shell returned on request are the same computation "
    "(value-graph equality of points and weights incl. the rotation seed); (R3) the centre is added "
    "once, in the points getter; (R4) rotations are seeded from the rotate argument; (R5) preset "
    "sizes are passed as sizes; (R6) the shell index table accumulates the appended shell sizes; (R7) "
    "binary searches only run over data whose order is established in the same function.  NOT decided: "
    "numerical values of points/weights, the "
    "factorisation of integrals.")
RULE = ("one instance per (preset file, element) x obligations; 2 sibling graphs; centre/seed/sizes sites")


# ------------------------------------------------------------------------------ guard interpreter
def eval_guard(test, env):
    """Evaluate a boolean guard over literal operands and the names in env."""
    if isinstance(test, ast.BoolOp):
        vals = [eval_guard(v, env) for v in test.values]
        return all(vals) if isinstance(test.op, ast.And) else any(vals)
    if isinstance(test, ast.UnaryOp) and isinstance(test.op, ast.Not):
        return not eval_guard(test.operand, env)
    if isinstance(test, ast.Compare) and len(test.ops) == 1:
        def val(n):
            if isinstance(n, ast.Name) and n.id in env:
                return env[n.id]
            try:
                return e4.fold(n)
            except e4.NotConstant as e:
                raise AnalysisError(f"guard operand `{norm(n)}` is not a literal") from e
        a, b = val(test.left), val(test.comparators[0])
        op = type(test.ops[0])
        table = {ast.Eq: lambda: a == b, ast.NotEq: lambda: a != b, ast.Gt: lambda: a > b,
                 ast.GtE: lambda: a >= b, ast.Lt: lambda: a < b, ast.LtE: lambda: a <= b,
                 ast.In: lambda: a in b, ast.NotIn: lambda: a not in b}
        if op in table:
            return table[op]()
    raise AnalysisError(f"unrecognised guard `{norm(test)}`")


def branch_style(body, rad="rad", npt="npt"):
    """Which kind of table a branch of from_preset expects, from how it uses the two rows:
    sector  -- the `_rad` row is handed to _find_degrees_for_radial_points as sector radii
    count   -- a comprehension repeats npt[i] for range(<entry i of the `_rad` row>)
    count-repeat -- np.repeat(npt, rad)"""
    txt = " ".join(norm(s) for s in body)
    nodes = [n for s in body for n in ast.walk(s)]
    repeat = any(isinstance(n, ast.Call) and norm(n.func) == "np.repeat" and [norm(a) for a in n.args] == [npt, rad]
                 for n in nodes)
    sector = any(isinstance(n, ast.Call) and norm(n.func).endswith("_find_degrees_for_radial_points")
                 and rad in [norm(a) for a in n.args] for n in nodes)
    count = False
    # index variables bound by enclosing `for` statements (`for idx in range(len(rad)): acc.extend(npt[idx] for _ in range(rad[idx]))`)
    loop_counts = set()
    for n in nodes:
        if isinstance(n, ast.For):
            if isinstance(n.target, ast.Name):
                loop_counts.add(f"{rad}[{n.target.id}]")
            if isinstance(n.iter, ast.Call) and norm(n.iter.func) == "enumerate" and n.iter.args and norm(n.iter.args[0]) == rad and \
                    isinstance(n.target, ast.Tuple) and len(n.target.elts) == 2:
                loop_counts.add(norm(n.target.elts[1]))
                loop_counts.add(f"{rad}[{norm(n.target.elts[0])}]")
    for n in nodes:
        if isinstance(n, (ast.ListComp, ast.GeneratorExp)) and any(
                isinstance(x, ast.Subscript) and norm(x.value) == npt for x in ast.walk(n.elt)):
            counts = {f"{rad}[{norm(g.target)}]" for g in n.generators if isinstance(g.target, ast.Name)} | loop_counts
            for g in n.generators:   # `for idx, count in enumerate(rad)` binds the count directly
                if isinstance(g.iter, ast.Call) and norm(g.iter.func) == "enumerate" and g.iter.args and \
                        norm(g.iter.args[0]) == rad and isinstance(g.target, ast.Tuple) and len(g.target.elts) == 2:
                    counts.add(norm(g.target.elts[1]))
                    counts.add(f"{rad}[{norm(g.target.elts[0])}]")
            if any(isinstance(g.iter, ast.Call) and norm(g.iter.func) == "range" and len(g.iter.args) == 1
                   and norm(g.iter.args[0]) in counts for g in n.generators):
                count = True
    if repeat and not sector:
        return "count-repeat"
    if count and not sector:
        return "count"
    if sector and not count and not repeat:
        return "sector"
    raise AnalysisError(f"unrecognised preset branch: `{txt[:120]}`")


def _preset_rows(repo, f):
    """Where from_preset gets its two table rows: (rad variable, npt variable, member template of the
    `_rad` row, of the `_npt` row, file-name template, data package).  The archive may be read in
    from_preset itself or in a module-level helper that returns the two rows."""
    mi = repo.modules[f.module]
    scope = [f.node]
    for c in ast.walk(f.node):
        if isinstance(c, ast.Call) and isinstance(c.func, ast.Name):
            g = next((x for x in repo.funcs.values() if x.module == f.module and x.cls is None and x.name == c.func.id
                      and isinstance(x.node, ast.FunctionDef)), None)
            if g is not None and g.node not in scope:
                scope.append(g.node)
    tmpl = pkg = None
    members = {}     # role -> (template, subscript node, function node)
    for fn in scope:
        for n in ast.walk(fn):
            if isinstance(n, ast.JoinedStr):
                t = e4.fstring_template(n)
                if t and any(p_[0] == "lit" and p_[1].endswith(".npz") for p_ in t):
                    tmpl = t
            if isinstance(n, ast.Call) and norm(n.func) == "files" and n.args and isinstance(n.args[0], ast.Constant):
                pkg = n.args[0].value
            if isinstance(n, ast.Subscript) and isinstance(n.slice, ast.JoinedStr):
                t = e4.fstring_template(n.slice)
                tail = "".join(p_[1] for p_ in t if p_[0] == "lit")
                if tail.endswith("_rad"):
                    members["rad"] = (t, n, fn)
                elif tail.endswith("_npt"):
                    members["npt"] = (t, n, fn)
    if not (tmpl and pkg and "rad" in members and "npt" in members):
        raise AnalysisError("unrecognised idiom: from_preset does not read data[f'{atnum}_rad'] / data[f'{atnum}_npt'] "
                            "of files('<package>') / f'..._{preset}.npz'")
    var = {}
    for role, (t, node, fn) in members.items():
        if fn is f.node:
            for st in ast.walk(f.node):
                if isinstance(st, ast.Assign) and st.value is node and isinstance(st.targets[0], ast.Name):
                    var[role] = st.targets[0].id
        else:
            # returned by the helper at some position of a tuple
            for r in ast.walk(fn):
                if isinstance(r, ast.Return) and isinstance(r.value, ast.Tuple) and node in r.value.elts:
                    pos = r.value.elts.index(node)
                    for st in ast.walk(f.node):
                        if isinstance(st, ast.Assign) and isinstance(st.value, ast.Call) and \
                                isinstance(st.value.func, ast.Name) and st.value.func.id == fn.name and \
                                isinstance(st.targets[0], ast.Tuple) and len(st.targets[0].elts) == len(r.value.elts):
                            var[role] = norm(st.targets[0].elts[pos])
    if set(var) != {"rad", "npt"}:
        raise AnalysisError("unrecognised idiom: the `_rad` / `_npt` rows of the preset archive are not bound to local names")
    return var["rad"], var["npt"], members["rad"][0], members["npt"][0], tmpl, pkg


def rule_r1(rep, repo):
    f = repo.method("AtomGrid", "from_preset")
    # the dispatch chain: first top-level `if` whose test mentions preset and whose branches return
    # boolean locals computed before the dispatch (`is_count = preset in [...]; is_count = is_count or ...`)
    # are substituted into the guards, in statement order
    import copy
    bools = {}

    class _Subst(ast.NodeTransformer):
        def visit_Name(self, node):
            if isinstance(node.ctx, ast.Load) and node.id in bools:
                return copy.deepcopy(bools[node.id])
            return node

    def inline(test):
        return ast.fix_missing_locations(_Subst().visit(copy.deepcopy(test)))
    chain = None
    for s in strip_docstring(f.node.body):
        if isinstance(s, ast.Assign) and len(s.targets) == 1 and isinstance(s.targets[0], ast.Name):
            if isinstance(s.value, (ast.Compare, ast.BoolOp)) or \
                    (isinstance(s.value, ast.UnaryOp) and isinstance(s.value.op, ast.Not)) or \
                    (isinstance(s.value, ast.Name) and s.value.id in bools):
                bools[s.targets[0].id] = inline(s.value)
            else:
                bools.pop(s.targets[0].id, None)
        if isinstance(s, ast.If) and "preset" in norm(inline(s.test)) and any(isinstance(x, ast.Return) for x in ast.walk(s)):
            chain = s
            break
    if chain is None:
        raise AnalysisError("unrecognised idiom: AtomGrid.from_preset has no preset dispatch chain")
    branches = []
    cur = chain
    while True:
        branches.append((inline(cur.test), cur.body))
        if len(cur.orelse) == 1 and isinstance(cur.orelse[0], ast.If):
            cur = cur.orelse[0]
        else:
            tail = cur.orelse
            if not tail and all(b and isinstance(b[-1], (ast.Return, ast.Raise)) for _, b in branches):
                # `if ...: return ...` followed by the remaining case as straight-line code
                body_ = strip_docstring(f.node.body)
                tail = body_[body_.index(chain) + 1:]
            branches.append((None, tail))
            break
    rad_v, npt_v, rad_t, npt_t, tmpl, pkg = _preset_rows(repo, f)
    styles = [branch_style(b, rad_v, npt_v) for _, b in branches]
    # literal lists bound to local names before the dispatch (used inside the guards)
    local_consts = {}
    mi_ = repo.modules[f.module]
    for gname, gnode in mi_.globals.items():   # module-level literal tuples/lists named in the guards
        try:
            v_ = e4.fold(gnode, {}, mi_.globals)
        except (e4.NotConstant, AnalysisError):
            continue
        if isinstance(v_, (list, tuple, set, frozenset)):
            local_consts[gname] = v_
    for st in strip_docstring(f.node.body):
        if isinstance(st, ast.Assign) and len(st.targets) == 1 and isinstance(st.targets[0], ast.Name):
            try:
                local_consts[st.targets[0].id] = e4.fold(st.value)
            except (e4.NotConstant, AnalysisError):
                pass
    ddir = e4.package_dir(repo, pkg)
    m = AngularModel(repo)
    dn, nn = m.tables_for("lebedev")
    max_size = max(m.tables[nn])
    prefix = "".join(p[1] for p in tmpl if p[0] == "lit" and not p[1].endswith(".npz"))
    files = sorted(x for x in os.listdir(ddir) if x.endswith(".npz"))
    presets = []
    for fn in files:
        if not fn.startswith(prefix):
            rep.note(f"data file {fn} does not follow the preset file-name template")
            continue
        presets.append(fn[len(prefix):-4])
    rep.floor("preset files", len(presets), 17)
    # names listed in the code
    named = set()
    for n in ast.walk(f.node):
        if isinstance(n, ast.Compare) and norm(n.left) == "preset":
            for c in n.comparators:
                if isinstance(c, (ast.List, ast.Tuple)):
                    named |= {e.value for e in c.elts if isinstance(e, ast.Constant)}
                elif isinstance(c, ast.Constant):
                    named.add(c.value)
    g = repo.module_func("atomgrid", "_get_rgrid_size")
    named_g = set()
    for n in ast.walk(g.node):
        if isinstance(n, ast.Compare) and norm(n.left) == g.params[0]:
            for c in n.comparators:
                if isinstance(c, (ast.List, ast.Tuple)):
                    named_g |= {e.value for e in c.elts if isinstance(e, ast.Constant)}
                elif isinstance(c, ast.Constant):
                    named_g.add(c.value)
    for nm in sorted(named | named_g):
        if nm in presets:
            rep.ok("R1.named-preset-has-file", nm, f"src/grid/data/prune_grid/{prefix}{nm}.npz")
        else:
            rep.violation("R1.named-preset-has-file", "atomgrid.AtomGrid.from_preset", nm,
                          f"preset {nm!r} is named in the code but {prefix}{nm}.npz is not shipped", f.loc())
    npairs = 0
    rsize_member = None
    for n in ast.walk(g.node):
        if isinstance(n, ast.Subscript) and norm(n.value) == "data" and isinstance(n.slice, ast.Constant):
            rsize_member = n.slice.value
    for preset in presets:
        path = os.path.join(ddir, f"{prefix}{preset}.npz")
        inv = e4.npz_inventory(path, small_int_members=True, max_small=512)
        zs = sorted({int(k.split("_")[0]) for k in inv if k.split("_")[0].isdigit()})
        where = f"src/grid/data/prune_grid/{prefix}{preset}.npz"
        for z in zs:
            npairs += 1
            cons = f"{preset}:Z={z}"
            kr = e4.render_template(rad_t, {"atnum": z})
            kn = e4.render_template(npt_t, {"atnum": z})
            if kr not in inv or kn not in inv:
                rep.violation("R1.preset-members", f"data/prune_grid/{prefix}{preset}.npz", f"{cons}:members",
                              f"{where} lacks {kr if kr not in inv else kn}: from_preset raises KeyError for this element", where)
                continue
            # which branch does this pair take?
            idx = None
            for i, (test, body) in enumerate(branches):
                if test is None or eval_guard(test, {**local_consts, "preset": preset, "atnum": z}):
                    idx = i
                    break
            style = styles[idx]
            rad, npt = inv[kr], inv[kn]
            if "value" not in rad or "value" not in npt:
                raise AnalysisError(f"{where}: member {kr}/{kn} too large to be a configuration table")
            is_int = rad["descr"][1] in "iu"
            bad = None
            if style == "count-repeat":
                if not is_int:
                    bad = (f"table is sector-style (radii, dtype {rad['descr']}) but routed to the shell-count branch")
                elif len(npt["value"]) != len(rad["value"]):
                    bad = (f"np.repeat(npt, rad) needs as many sizes as shell counts, but the shipped table has "
                           f"{len(npt['value'])} sizes for {len(rad['value'])} counts: ValueError (operands could not "
                           f"be broadcast), so this tabulated element cannot be built")
                elif any(v < 0 for v in rad["value"]):
                    bad = "negative shell count"
            elif style == "count":
                if not is_int:
                    bad = (f"table is sector-style (radii, dtype {rad['descr']}) but the guards of from_preset route "
                           f"({preset}, Z={z}) to the shell-count branch: range(rad[idx]) fails on floats")
                elif len(npt["value"]) < len(rad["value"]):
                    bad = (f"count-style table has {len(rad['value'])} shell counts but only {len(npt['value'])} sizes: "
                           f"npt[idx] raises IndexError")
                elif any(v < 0 for v in rad["value"]):
                    bad = "negative shell count"
            else:
                if is_int:
                    bad = (f"table is count-style (integer shell counts {rad['value'][:6]}) but the guards of "
                           f"from_preset route ({preset}, Z={z}) to the sector branch, which reads the counts as radii "
                           f"in bohr: shells beyond r={rad['value'][-1]} index past the size table (IndexError) and the "
                           f"prescribed shell counts are ignored")
                elif len(npt["value"]) < len(rad["value"]) + 1:
                    bad = (f"sector-style table has {len(rad['value'])} sector radii but {len(npt['value'])} sizes "
                           f"(needs one more than radii)")
                elif any(a >= b for a, b in zip(rad["value"], rad["value"][1:])):
                    bad = "sector radii are not strictly ascending"
            if bad:
                rep.violation("R1.preset-table-fits-branch", f"data/prune_grid/{prefix}{preset}.npz", cons, bad, where,
                              [f"branch {idx} ({style}) of the dispatch at {repo.rel('atomgrid', chain)}"])
            else:
                rep.ok("R1.preset-table-fits-branch", cons, where, f"{style} branch, {len(rad['value'])} entries")
                extra = len(npt["value"]) - len(rad["value"]) - (1 if style == "sector" else 0)
                if extra > 0:
                    rep.note(f"{cons}: {extra} surplus size entries (unused, builds)")
            if all(0 <= v <= max_size for v in npt["value"]):
                rep.ok("R1.preset-sizes-supported", cons, where, f"max size {max(npt['value'])} <= {max_size}")
            else:
                rep.violation("R1.preset-sizes-supported", f"data/prune_grid/{prefix}{preset}.npz", cons + ":sizes",
                              f"size table contains {max(npt['value'])} > largest supported Lebedev size {max_size}", where)
        # prescribed radial size (sg_1 keeps it in a separate member)
        if rsize_member and preset in named_g:
            uses_member = any(isinstance(n, ast.If) and eval_guard_safe(n.test, {g.params[0]: preset})
                              for n in ast.walk(g.node) if isinstance(n, ast.If) and g.params[0] in norm(n.test)
                              and rsize_member in " ".join(norm(s) for s in n.body))
            if uses_member:
                if rsize_member in inv and "value" in inv[rsize_member]:
                    pres = sum(inv[rsize_member]["value"])
                    okc = True
                    for z in zs:
                        kr = e4.render_template(rad_t, {"atnum": z})
                        r_ = inv.get(kr)
                        if r_ and r_["descr"][1] in "iu" and sum(r_["value"]) != pres:
                            okc = False
                            rep.violation("R1.prescribed-radial-size", f"data/prune_grid/{prefix}{preset}.npz",
                                          f"{preset}:Z={z}:rsize",
                                          f"shell counts sum to {sum(r_['value'])} but _get_rgrid_size prescribes {pres}", where)
                    if okc:
                        rep.ok("R1.prescribed-radial-size", preset, where, f"{rsize_member} = {pres}")
                else:
                    rep.violation("R1.prescribed-radial-size", "atomgrid._get_rgrid_size", f"{preset}:{rsize_member}",
                                  f"_get_rgrid_size reads data[{rsize_member!r}] for {preset} but {where} has no such member",
                                  where)
    rep.floor("(preset, element) pairs", npairs, 1300)
    rep.extra["preset_pairs"] = npairs
    rep.extra["presets"] = presets
    # R5: the count branches pass sizes=
    for (test, body), st in zip(branches, styles):
        ret = next((s for s in body if isinstance(s, ast.Return)), None)
        if ret is None or not isinstance(ret.value, ast.Call):
            raise AnalysisError("unrecognised idiom: preset branch does not return cls(...)")
        kws = {k.arg: norm(k.value) for k in ret.value.keywords}
        where = repo.rel("atomgrid", ret)
        label = norm(test)[:50] if test is not None else "else"
        if st in ("count", "count-repeat"):
            if "sizes" in kws and (len(ret.value.args) < 2 or norm(ret.value.args[1]) == "None") and "degrees" not in kws:
                rep.ok("R5.count-presets-pass-sizes", f"from_preset[{label}]", where, f"sizes={kws['sizes']}")
            else:
                rep.violation("R5.count-presets-pass-sizes", "atomgrid.AtomGrid.from_preset", label,
                              f"`{norm(ret)[:100]}` does not hand the tabulated sizes to the constructor as sizes=: "
                              f"they would be read as degrees (coarser shells than tabulated)", where)
        for kw in ("center", "rotate", "method"):
            if kws.get(kw) != kw:
                rep.violation("R5.preset-forwards-arguments", "atomgrid.AtomGrid.from_preset", f"{label}:{kw}",
                              f"`{norm(ret)[:100]}` does not forward {kw}={kw}", where)
            else:
                rep.ok("R5.preset-forwards-arguments", f"from_preset[{label}]:{kw}", where)


def eval_guard_safe(test, env):
    try:
        return eval_guard(test, env)
    except AnalysisError:
        return False


# ------------------------------------------------------------------------------ R2 shell sibling
def rule_r2(rep, repo):
    G = repo.method("AtomGrid", "_generate_atomic_grid")
    S = repo.method("AtomGrid", "get_shell_grid")
    if any(isinstance(n, ast.Call) and norm(n.func).endswith("get_shell_grid") for n in ast.walk(G.node)) or \
            any(isinstance(n, ast.Call) and norm(n.func).endswith("_generate_atomic_grid") for n in ast.walk(S.node)):
        rep.ok("R2.shell-sibling", "AtomGrid._generate_atomic_grid~get_shell_grid", G.loc(), "one delegates to the other")
        return
    loop = next((s for s in strip_docstring(G.node.body) if isinstance(s, ast.For)), None)
    if loop is None:
        raise AnalysisError("unrecognised idiom: _generate_atomic_grid has no shell loop")
    # loop variable(s): for i, deg_i in enumerate(degrees)
    names = [n.id for n in ast.walk(loop.target) if isinstance(n, ast.Name)]
    g = e5.VG(repo, "AtomGrid", G.node)
    for s in strip_docstring(G.node.body):
        if s is loop:
            break
        g.stmt(s)
    g.env[names[0]] = ("sym", "IDX")
    for nm in names[1:]:
        g.env[nm] = ("sym", "DEG")
    # the angular grid built per shell is an opaque symbol in both siblings
    def is_sphere(s):
        return isinstance(s, ast.Assign) and isinstance(s.value, ast.Call) and norm(s.value.func) == "AngularGrid"
    sg_g = next((s for s in loop.body if is_sphere(s)), None)
    sg_s = next((s for s in strip_docstring(S.node.body) if is_sphere(s)), None)
    if sg_g is None or sg_s is None:
        raise AnalysisError("unrecognised idiom: siblings do not build an AngularGrid per shell")
    g.env[norm(sg_g.targets[0])] = ("sym", "SG")
    for s in loop.body:
        if s is sg_g:
            continue
        g.stmt(s)
    # appended values -> returned stacks
    apps = [e for e in g.effects if e[0] == "append"]
    if len(apps) < 2:
        raise AnalysisError("unrecognised idiom: shell loop does not append points and weights")
    # find which appended list is stacked into return position 0 / 1
    ret = next((s for s in strip_docstring(G.node.body) if isinstance(s, ast.Return)), None)
    post = e5.VG(repo, "AtomGrid", G.node)
    post.env = dict(g.env)
    after = False
    for s in strip_docstring(G.node.body):
        if after and not isinstance(s, ast.Return):
            post.stmt(s)
        if s is loop:
            after = True
    rv = post.ev(ret.value)
    if rv[0] != "tuple" or len(rv[1]) < 2:
        raise AnalysisError("unrecognised idiom: _generate_atomic_grid does not return a tuple")

    def appended_value(stack_graph):
        # call(np.vstack, (appended(list0, value),))
        if stack_graph[0] == "call" and stack_graph[2] and stack_graph[2][0][0] == "appended":
            return e5.show(stack_graph[1]), stack_graph[2][0][2]
        raise AnalysisError(f"unrecognised idiom: returned stack is {e5.show(stack_graph, 100)}")
    (fn_p, gp), (fn_w, gw) = appended_value(rv[1][0]), appended_value(rv[1][1])
    if fn_p not in ("np.vstack", "np.concatenate") or fn_w not in ("np.hstack", "np.concatenate"):
        raise AnalysisError(f"unrecognised stacking functions {fn_p}/{fn_w}")
    # sibling S under r_sq=True
    s = e5.VG(repo, "AtomGrid", S.node, consts={"r_sq": True})
    s.env[S.params[1]] = ("sym", "IDX")
    s.env[norm(sg_s.targets[0])] = ("sym", "SG")
    for st in strip_docstring(S.node.body):
        if st is sg_s:
            continue
        s.stmt(st)
    sets = {e[2]: e[3] for e in s.effects if e[0] == "setattr" and e[1] == ("sym", "SG")}
    if "points" not in sets or "weights" not in sets:
        raise AnalysisError("unrecognised idiom: get_shell_grid does not assign .points and .weights of the shell grid")
    m = {("sym", "rgrid"): ("attr", ("sym", "self"), "_rgrid"), ("sym", "rotate"): ("attr", ("sym", "self"), "_rot"),
         ("sym", "method"): ("attr", ("sym", "self"), "_method")}
    for role, a, b in (("points", gp, sets["points"]), ("weights", gw, sets["weights"])):
        a2 = e5.subst(a, m)
        d = e5.diff(a2, b)
        if d is None or e5.algebraically_equal(a2, b):
            rep.ok("R2.shell-sibling", f"AtomGrid shell {role}", repo.rel("atomgrid", loop), e5.show(a2, 160))
        else:
            rep.violation("R2.shell-sibling", "atomgrid.AtomGrid.get_shell_grid", role,
                          f"the shell {role} stored at construction are {e5.show(d[1], 110)} but get_shell_grid "
                          f"recomputes {e5.show(d[2], 110)}: the shell returned on request is not the stored shell",
                          S.loc(), [f"first differing node at {d[0]}", f"stored:   {e5.show(a2, 220)}",
                                    f"returned: {e5.show(b, 220)}", f"sibling loop at {repo.rel('atomgrid', loop)}"])
    # both siblings build the sphere grid with the shell's degree and the grid's method
    for label, node, want_method in (("_generate_atomic_grid", sg_g, "method"), ("get_shell_grid", sg_s, "self.method")):
        kws = {k.arg: norm(k.value) for k in node.value.keywords}
        if kws.get("method") in (want_method, "self._method", "method") and ("degree" in kws or node.value.args):
            rep.ok("R2.shell-angular-grid", f"AtomGrid.{label}", repo.rel("atomgrid", node), norm(node.value)[:70])
        else:
            rep.violation("R2.shell-angular-grid", f"atomgrid.AtomGrid.{label}", "AngularGrid-call",
                          f"`{norm(node.value)[:80]}` does not pass the shell degree and the grid's method", repo.rel("atomgrid", node))


def rule_r3(rep, repo):
    getter = repo.method("AtomGrid", "points")
    if getter.cls != "AtomGrid" or not getter.is_property:
        raise AnalysisError("anchor vanished: AtomGrid.points property")
    vg = e5.VG(repo, "AtomGrid", getter.node, inline=False)
    vg.run(strip_docstring(getter.node.body))
    want = e5.mk_ac("+", [("attr", ("sym", "self"), "_points"), ("attr", ("sym", "self"), "_center")])
    if vg.ret == want:
        rep.ok("R3.centre-added-once", "AtomGrid.points", getter.loc(), e5.show(vg.ret))
    else:
        rep.violation("R3.centre-added-once", "atomgrid.AtomGrid.points", "getter",
                      f"the points getter returns {e5.show(vg.ret, 100)} instead of stored points + centre", getter.loc())
    G = repo.method("AtomGrid", "_generate_atomic_grid")
    S = repo.method("AtomGrid", "get_shell_grid")
    for f in (G, S):
        refs = [n for n in ast.walk(f.node) if (isinstance(n, ast.Attribute) and n.attr in ("center", "_center"))
                or (isinstance(n, ast.Name) and n.id == "center")
                or (isinstance(n, ast.Attribute) and n.attr == "points" and norm(n.value) == "self")]
        if refs:
            rep.violation("R3.centre-added-once", f.qual, "shell",
                          f"{f.qual} refers to `{norm(refs[0])}`: shell points must stay relative to the centre "
                          f"(the getter adds it on read)", repo.rel("atomgrid", refs[0]))
        else:
            rep.ok("R3.centre-added-once", f.qual, f.loc(), "no reference to the centre")
    init = repo.method("AtomGrid", "__init__")
    stores = [s for s in ast.walk(init.node) if isinstance(s, ast.Assign) and "self._points" in norm(s.targets[0])]
    def through_locals(v):
        # `result = self._generate_atomic_grid(...); self._points, ... = result`: a local that is assigned once stands for its value
        seen = set()
        while isinstance(v, ast.Name) and v.id not in seen:
            seen.add(v.id)
            defs = [n.value for n in ast.walk(init.node) if isinstance(n, ast.Assign) and len(n.targets) == 1
                    and isinstance(n.targets[0], ast.Name) and n.targets[0].id == v.id]
            if len(defs) != 1:
                break
            v = defs[0]
        return v
    if len(stores) == 1 and "_generate_atomic_grid(" in norm(through_locals(stores[0].value)) and \
            "center" not in norm(through_locals(stores[0].value)):
        rep.ok("R3.centre-added-once", "AtomGrid.__init__", repo.rel("atomgrid", stores[0]), "stores uncentred points")
    else:
        rep.violation("R3.centre-added-once", "atomgrid.AtomGrid.__init__", "store",
                      "self._points is not the uncentred result of _generate_atomic_grid", init.loc())


def rule_r4(rep, repo):
    n = 0
    for q, f in repo.funcs.items():
        if f.module not in ("atomgrid", "molgrid", "angular", "basegrid"):
            continue
        mi = repo.modules[f.module]
        for c in ast.walk(f.node):
            if not isinstance(c, ast.Call):
                continue
            fn = norm(c.func)
            root = fn.split(".")[0]
            lib = mi.lib_imports.get(root, "")
            is_random = (fn.endswith(".random") and "Rotation" in lib) or ".random." in fn + "." and root in ("np", "numpy") \
                and "random" in fn.split(".")[1:2] or fn.startswith("random.")
            if not is_random:
                continue
            if repo.by_node.get(id(f.node)) is not f:
                continue
            n += 1
            seed = next((k.value for k in c.keywords if k.arg in ("random_state", "seed", "rng")), None)
            if seed is None and c.args:
                seed = c.args[-1] if fn.endswith(".random") else None
            stxt = norm(seed) if seed is not None else ""
            if seed is not None and any(t in stxt for t in ("rotate", "self._rot")):
                rep.ok("R4.rotation-seeded", f"{q}", repo.rel(f.module, c), f"{fn}({stxt})")
            else:
                rep.violation("R4.rotation-seeded", q, fn,
                              f"`{norm(c)[:80]}` draws random numbers without a seed derived from the rotate argument: "
                              f"the grid is not reproducible from its seed", repo.rel(f.module, c))
    rep.floor("random draws on the construction path", n, 1)


def rule_r6(rep, repo):
    """Shell index table (value graphs): indices[i+1] = indices[i] + number of points appended for
    shell i; one more entry than shells; shells generated in radial order."""
    from gridlint.props.c07 import _loop_graph
    G = repo.method("AtomGrid", "_generate_atomic_grid")
    body = strip_docstring(G.node.body)
    loop = next((s for s in body if isinstance(s, ast.For)), None)
    cons = "atomgrid.AtomGrid._generate_atomic_grid"
    where = repo.rel("atomgrid", loop)
    if norm(loop.iter) != f"enumerate({G.params[1]})":
        rep.violation("R6.shell-index-table", cons, "order", f"shells are generated over `{norm(loop.iter)}`, not in radial "
                      f"order enumerate({G.params[1]})", where)
    else:
        rep.ok("R6.shell-index-table", "AtomGrid._generate_atomic_grid:order", where, norm(loop.iter))
    vg, pre = _loop_graph(repo, "AtomGrid", G, loop, ["I", "DEG"])
    I = ("sym", "I")
    I1 = e5.mk_ac("+", [I, ("const", "1")])
    tables = [k for k, v in vg.env.items() if k in pre and isinstance(v, tuple) and v and v[0] == "setitem" and v[2] == I1]
    want_init = ("call", ("attr", ("glob", "np"), "zeros"),
                 (e5.mk_ac("+", [("call", ("glob", "len"), (("sym", G.params[1]),), ()), ("const", "1")]),),
                 (("dtype", ("glob", "int")),))
    if not tables:
        # second idiom: the sizes of the appended shells are collected in the loop and the table is
        # built after it as zeros(n + 1, int) with [1:] = cumsum(sizes)
        apps = [e for e in vg.effects if e[0] == "append"]
        for st in body[body.index(loop) + 1:]:
            if isinstance(st, ast.Return):
                break
            vg.stmt(st)
        found = None
        for k, v in vg.env.items():
            if isinstance(v, tuple) and v and v[0] == "setitem" and v[2] == ("slice", ("const", "1"), None, None) and \
                    v[3][0] == "call" and e5.show(v[3][1]) in ("np.cumsum", "numpy.cumsum") and len(v[3][2]) == 1:
                found = (k, v)
        if found is None:
            raise AnalysisError("unrecognised idiom: _generate_atomic_grid keeps no shell index table (neither updated at "
                                "[i + 1] in the loop nor built from the cumulative shell sizes after it)")
        k, v = found
        if v[1] == want_init:
            rep.ok("R6.shell-index-table", "AtomGrid._generate_atomic_grid:length", where, e5.show(v[1], 60))
        else:
            rep.violation("R6.shell-index-table", cons, "length",
                          f"the shell index table is initialised as {e5.show(v[1], 80)}: it must be integer zeros with "
                          f"one more entry than shells", where)
        sizes = v[3][2][0]
        # sizes is a list appended once per shell with len(<what is appended to the point list>)
        okk = isinstance(sizes, tuple) and sizes[0] == "appended" and sizes[1] in (("list", ()), ("glob", "list")) and \
            any(sizes[2] == ("call", ("glob", "len"), (a[3],), ()) for a in apps)
        if okk:
            rep.ok("R6.shell-index-table", "AtomGrid._generate_atomic_grid:cumulative", where,
                   f"indices[1:] = cumsum of {e5.show(sizes[2], 60)} collected per shell")
        else:
            rep.violation("R6.shell-index-table", cons, "cumulative",
                          f"the shell index table is the cumulative sum of {e5.show(sizes, 110)}; it must accumulate the "
                          f"number of points appended for each shell", where)
        return
    if len(tables) != 1:
        raise AnalysisError("unrecognised idiom: _generate_atomic_grid keeps several index tables updated at [i + 1]")
    t = tables[0]
    init = pre[t]
    if init == want_init:
        rep.ok("R6.shell-index-table", "AtomGrid._generate_atomic_grid:length", where, e5.show(init, 60))
    else:
        rep.violation("R6.shell-index-table", cons, "length",
                      f"the shell index table is initialised as {e5.show(init, 80)}: it must be integer zeros with one "
                      f"more entry than shells", where)
    # appended points of this shell
    apps = [e for e in vg.effects if e[0] == "append"]
    val = vg.env[t][3]
    prev = vg.env[t][1]
    okk = any(val == e5.mk_ac("+", [("sub", prev, I), ("call", ("glob", "len"), (a[3],), ())]) for a in apps)
    if okk:
        rep.ok("R6.shell-index-table", "AtomGrid._generate_atomic_grid:cumulative", where, e5.show(val, 90))
    else:
        rep.violation("R6.shell-index-table", cons, "cumulative",
                      f"entry i+1 of the shell index table is {e5.show(val, 110)}; it must be entry i plus the number of "
                      f"points appended for shell i", where)


SORTED_MAKERS = {"sorted", "np.sort", "np.unique", "np.arange", "np.linspace", "np.cumsum", "np.geomspace", "np.logspace"}
SEARCHES = {"np.searchsorted": 0, "numpy.searchsorted": 0, "bisect_left": 0, "bisect_right": 0, "bisect": 0,
            "bisect.bisect_left": 0, "bisect.bisect_right": 0, "bisect.bisect": 0, "np.digitize": 1, "np.interp": 1}


def rule_r7(rep, repo):
    """Binary searches need an ordered haystack.  The sector -> degree assignment must hold for every
    radial grid, also one whose nodes decrease (MultiExp, reversed grids): a `searchsorted` / `bisect` /
    `digitize` / `interp` over data whose order is not established in the same function silently
    returns wrong positions.  Sites in atomgrid.py and angular.py; a haystack is ordered when it is
    produced by sorted/np.sort/np.unique/arange/linspace/cumsum or is the key list of a dispatched
    degree/size table (ascending by C12.O1)."""
    m = AngularModel(repo)
    table_vars = {v for d in m.var.values() for v in d.values()}
    n = 0
    for q, f in repo.funcs.items():
        if f.module not in ("atomgrid", "angular") or f.is_lambda or repo.by_node.get(id(f.node)) is not f:
            continue
        defs = {}
        for st in ast.walk(f.node):
            if isinstance(st, ast.Assign) and len(st.targets) == 1 and isinstance(st.targets[0], ast.Name):
                defs.setdefault(st.targets[0].id, []).append(st.value)

        def ordered(e, depth=0):
            """True / False (caller data, order unknown) / None (cannot tell)."""
            if isinstance(e, ast.Call):
                fn = norm(e.func)
                if fn in SORTED_MAKERS:
                    return True
                if fn in ("list", "tuple", "np.array", "np.asarray") and e.args:
                    a = e.args[0]
                    if isinstance(a, ast.Call) and isinstance(a.func, ast.Attribute) and a.func.attr == "keys" \
                            and norm(a.func.value) in table_vars:
                        return True
                    if norm(a) in table_vars:
                        return True
                    # the key list of a table that is a *parameter* of a private module-level helper: ordered when every call
                    # of the helper hands over a dispatched degree / size table
                    pname = norm(a.func.value) if (isinstance(a, ast.Call) and isinstance(a.func, ast.Attribute)
                                                   and a.func.attr == "keys") else norm(a)
                    if pname in f.allparams and f.cls is None and f.parent is None and f.name.startswith("_"):
                        pos_ = f.allparams.index(pname)
                        sites = [c_ for g_ in repo.funcs.values() if g_.module == f.module and not g_.is_lambda
                                 and repo.by_node.get(id(g_.node)) is g_
                                 for c_ in ast.walk(g_.node) if isinstance(c_, ast.Call) and isinstance(c_.func, ast.Name)
                                 and c_.func.id == f.name]
                        args_ = [next((k_.value for k_ in c_.keywords if k_.arg == pname),
                                      c_.args[pos_] if len(c_.args) > pos_ else None) for c_ in sites]
                        if sites and all(a_ is not None and norm(a_) in table_vars for a_ in args_):
                            return True
                    return ordered(a, depth + 1)
                return None
            if isinstance(e, ast.Subscript) and isinstance(e.slice, ast.Slice) and e.slice.step is None:
                return ordered(e.value, depth + 1)     # a contiguous slice of an ordered sequence is ordered
            if isinstance(e, ast.Name):
                if e.id in defs and depth < 5:
                    rs = [ordered(v, depth + 1) for v in defs[e.id]]
                    if all(r is True for r in rs):
                        return True
                    if any(r is False for r in rs):
                        return False
                    return None
                if e.id in f.allparams:
                    return False
                return None
            if isinstance(e, ast.Attribute):
                root = e
                while isinstance(root, (ast.Attribute, ast.Subscript)):
                    root = root.value
                if isinstance(root, ast.Name) and (root.id in f.allparams):
                    return False
                return None
            return None
        for c in ast.walk(f.node):
            if not (isinstance(c, ast.Call) and norm(c.func) in SEARCHES):
                continue
            pos = SEARCHES[norm(c.func)]
            hay = c.args[pos] if len(c.args) > pos else next((k.value for k in c.keywords if k.arg in ("a", "bins", "xp")), None)
            if hay is None or any(k.arg == "sorter" for k in c.keywords):
                continue
            n += 1
            r = ordered(hay)
            if r is True:
                rep.ok("R7.binary-search-needs-order", f"{q}:{norm(hay)[:30]}", repo.rel(f.module, c), norm(c)[:70])
            elif r is False:
                rep.violation("R7.binary-search-needs-order", q, norm(hay)[:40],
                              f"`{norm(c)[:90]}` bisects `{norm(hay)[:40]}`, which comes from the caller and is not put in "
                              f"order in this function: for a radial grid whose nodes are not ascending (MultiExp, a "
                              f"reversed grid) the positions -- and with them the degrees of the shells -- are wrong",
                              repo.rel(f.module, c))
            else:
                raise AnalysisError(f"cannot tell whether `{norm(hay)[:40]}` searched in {q} is ordered")
    rep.floor("binary-search sites (positive examples: the degree/size resolver)", n, 1)


def run(tier="quick", root="/repo", evidence_dir=None, quiet=False):
    rep = Report(PROP, tier, root, EXPLANATION, RULE, assumptions=[
        "npz member headers and the small integer/float preset tables are read as configuration tables "
        "(compared, counted and summed; no floating-point arithmetic on them)",
        "AngularGrid(degree, method) is an opaque, deterministic function of its arguments (C19 decides that "
        "history cannot change it)",
    ])
    repo = get_repo(root)
    # R8 / R9 first: the assembled grid and the extracted shell are radial x shell (symbolic evaluation, E10); they back the
    # structural sibling rule R2 and the index-table rule R6
    from gridlint import shell_product

    def decided(rule):
        nv, nf = len(rep.violations), len(rep.failed_floors)
        rep.attempt(rule, rep, repo)
        return len(rep.violations) == nv and len(rep.failed_floors) == nf
    r8 = decided(shell_product.rule_shell_product)
    r9 = decided(shell_product.rule_shell_grid)
    why = "the evaluation rules R8 / R9 decided that the stored shells and get_shell_grid are the same radial x angular product"
    rep.attempt(rule_r1, rep, repo)
    rep.backed(rule_r2, r8 and r9, why, rep, repo, only=("R2.",))
    rep.attempt(rule_r3, rep, repo)
    rep.attempt(rule_r4, rep, repo)
    rep.backed(rule_r6, r8, "the evaluation rule R8 decided the shell index table", rep, repo, only=("R6.",))
    rep.attempt(rule_r7, rep, repo)
    rep.extra["source_digest"] = repo.digest(["atomgrid", "angular"])
    return rep.finish(evidence_dir=evidence_dir, quiet=quiet)
