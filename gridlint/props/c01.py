"""C01 -- 1D quadratures: the variable-substitution clause only.

R1 for the rules defined by a node map x = g(t) sampled at t = k h (TanhSinh, ExpSinh, LogExpSinh,
   ExpExp, SingleTanh, SingleExp, SingleArcSinhExp): the weights are h g'(t_k), i.e. the derivative
   of the nodes with respect to the (unit-step) index -- proved on algebraic normal forms (E8).
R2 the Trefethen maps: _derg2 = _g2', _derg3 = _g3', the interior branch of _dergstrip = d _gstrip / ds
   (arcsin / exp / log generators), and every Trefethen class pairs the map it applies to the nodes
   with the derivative of the same map in the weights, at the same nodes.

NOT decided: exactness on polynomial classes, ordering, nodes inside the domain, the Gauss rules
(numerical; no structural clause), the end-point branch of _dergstrip (a limit).
"""
from __future__ import annotations

import ast

from gridlint.core import AnalysisError, Report, norm, strip_docstring
from gridlint.props.common import get_repo

PROP = "C01"
EXPLANATION = (
    "Formula analysis of onedgrid.py, nothing executed.  For the quadratures that are defined by a "
    "change of variable x = g(t) sampled at equidistant t = k h, the statement requires the weight of "
    "node k to be h g'(t_k).  The constructor of each such class is translated from its syntax tree "
    "into algebraic normal forms (E8: exp/log/hyperbolic generators, square roots) with the index "
    "array as the variable, and `weights == d(points)/dk` is proved as a polynomial identity for all "
    "step sizes and all k at once.  The Trefethen maps (two polynomials and the strip map) are differentiated the same way and "
    "every Trefethen class must pair a map with the derivative of the same map at the same nodes.  "
    "NOT decided: exactness on polynomial classes, ordering of nodes, the Gauss and Fejer rules.")
RULE = "7 substitution rules x (weights = d nodes / d index); 3 map/derivative pairs; Trefethen classes x branches"

SUBSTITUTION_RULES = ("TanhSinh", "ExpSinh", "LogExpSinh", "ExpExp", "SingleTanh", "SingleExp", "SingleArcSinhExp")
MAP_PAIRS = (("_g2", "_derg2"), ("_g3", "_derg3"))


def _ctor_formulas(repo, k, alg):
    """(points, weights, node) of the super().__init__ call of class k, the index array being alg.x."""
    import sympy as sp
    from gridlint import e8
    init = repo.resolve_method(k, "__init__")
    if init is None or init.cls != k:
        raise AnalysisError(f"anchor vanished: {k}.__init__")
    F = e8.Formula(repo, None, alg)
    F.module = init.module
    env = {p_: alg.param(p_) for p_ in init.params[1:]}
    for s in strip_docstring(init.node.body):
        if isinstance(s, ast.Expr) and isinstance(s.value, ast.Call) and isinstance(s.value.func, ast.Name):
            # a call of a module-level helper that only validates its arguments (returns no value)
            g = next((x for x in repo.funcs.values() if x.module == init.module and x.cls is None
                      and x.name == s.value.func.id and isinstance(x.node, ast.FunctionDef)), None)
            if g is not None and not any(isinstance(r_, ast.Return) and r_.value is not None for r_ in ast.walk(g.node)):
                continue
        if isinstance(s, ast.If) and s.body and isinstance(s.body[-1], ast.Raise) and not s.orelse:
            continue
        if isinstance(s, ast.Expr) and isinstance(s.value, ast.Call) and norm(s.value.func).startswith("warnings."):
            continue
        if isinstance(s, ast.Assign) and len(s.targets) == 1 and isinstance(s.targets[0], ast.Name):
            # the index array produced by a module-level helper (`k = _symmetric_indices(npoints)`): a helper whose every
            # return is np.arange(...) with unit step (possibly shifted by an integer offset)
            if isinstance(s.value, ast.Call) and isinstance(s.value.func, ast.Name):
                g = next((x for x in repo.funcs.values() if x.module == init.module and x.cls is None
                          and x.name == s.value.func.id and isinstance(x.node, ast.FunctionDef)), None)
                if g is not None:
                    rets = [r_.value for r_ in ast.walk(g.node) if isinstance(r_, ast.Return) and r_.value is not None]

                    def unit_arange(v):
                        if isinstance(v, ast.BinOp) and isinstance(v.op, (ast.Add, ast.Sub)):
                            return unit_arange(v.left) or unit_arange(v.right)
                        return isinstance(v, ast.Call) and norm(v.func) in ("np.arange", "numpy.arange") and not v.keywords and \
                            (len(v.args) < 3 or norm(v.args[2]) == "1")
                    if rets and all(unit_arange(v) for v in rets):
                        env[s.targets[0].id] = alg.x
                        continue
            ar = [n for n in ast.walk(s.value) if isinstance(n, ast.Call) and norm(n.func) in ("np.arange", "numpy.arange")]
            if ar:
                # the index array: consecutive integers (step 1), possibly shifted by an integer offset
                a = ar[0]
                step_ok = len(a.args) < 3 or norm(a.args[2]) == "1"
                rest_ok = isinstance(s.value, ast.Call) and s.value is a or (
                    isinstance(s.value, ast.BinOp) and isinstance(s.value.op, (ast.Add, ast.Sub)) and
                    (s.value.left is a or s.value.right is a))
                if not (step_ok and rest_ok and not a.keywords):
                    raise e8.Undecided(f"index array `{norm(s.value)[:60]}`")
                env[s.targets[0].id] = alg.x
                continue
            env[s.targets[0].id] = F.ev(s.value, env, 0)
            continue
        if isinstance(s, ast.AugAssign) and isinstance(s.target, ast.Name) and s.target.id in env:
            env[s.target.id] = e8.Formula.binop(s.op, env[s.target.id], F.ev(s.value, env, 0))
            continue
        if isinstance(s, ast.Expr) and isinstance(s.value, ast.Call) and norm(s.value.func) == "super().__init__":
            c = s.value
            kws = {k_.arg: k_.value for k_ in c.keywords}
            pn = kws.get("points", c.args[0] if c.args else None)
            wn = kws.get("weights", c.args[1] if len(c.args) > 1 else None)
            if pn is None or wn is None:
                raise e8.Undecided("super().__init__ without points/weights")
            return F.ev(pn, env, 0), F.ev(wn, env, 0), s
        raise e8.Undecided(f"statement `{norm(s)[:60]}`")
    raise e8.Undecided("no super().__init__(points, weights, ...) call")


def rule_r1(rep, repo):
    import sympy as sp
    from gridlint import e8
    n = 0
    for k in SUBSTITUTION_RULES:
        repo.cls(k)
        alg = e8.Algebra("k")
        pts = []
        for kv, hv in ((sp.Rational(1, 3), sp.Rational(3, 7)), (sp.Rational(-5, 4), sp.Rational(1, 5)), (sp.Rational(2), sp.Rational(3, 10))):
            pt = {alg.x: kv, alg.param("pi"): sp.pi}
            for nm in ("h", "delta"):
                pt[alg.param(nm)] = hv
            pt[alg.param("npoints")] = sp.Integer(7)
            pts.append(pt)
        alg.ref = pts[0]
        init = repo.resolve_method(k, "__init__")
        try:
            P, W, node = _ctor_formulas(repo, k, alg)
            Pn, Wn = alg.nf(P), alg.nf(W)
        except e8.Undecided as e:
            raise AnalysisError(f"constructor of {k} is outside the closed-form fragment: {e}") from e
        d = alg.D(Pn)
        n += 1
        if alg.zero(d - Wn):
            rep.ok("R1.weights-are-node-map-derivative", f"onedgrid.{k}", repo.rel("onedgrid", node),
                   "weights == d(points)/d(index) on the normal form: " + alg.show(Wn, 90))
            continue
        w = e8.witness(alg, d, Wn, pts)
        if w is None:
            raise AnalysisError(f"cannot decide whether the weights of {k} are the derivative of its node map")
        pt, va, vb = w
        rep.violation("R1.weights-are-node-map-derivative", f"onedgrid.{k}.__init__", "weights",
                      f"the weights are not step x derivative of the node map: at "
                      f"{e8.show_point({a_: b_ for a_, b_ in pt.items() if str(a_) in ('k', 'h', 'delta')})} the derivative "
                      f"of the nodes with respect to the index is {sp.N(va, 12)} but the weight formula gives "
                      f"{sp.N(vb, 12)}", init.loc(),
                      [f"d points / d index = {alg.show(d, 300)}", f"weights = {alg.show(Wn, 300)}"])
    rep.floor("substitution rules analysed", n, 7)


def rule_r2(rep, repo):
    import sympy as sp
    from gridlint import e8
    for g, dg in MAP_PAIRS:
        fg, fd = repo.module_func("onedgrid", g), repo.module_func("onedgrid", dg)
        alg = e8.Algebra("x")
        alg.ref = {alg.x: sp.Rational(1, 3)}
        F = e8.Formula(repo, None, alg)
        try:
            G = alg.nf(F.body(strip_docstring(fg.node.body), {fg.params[0]: alg.x}, 0, fg))
            Dg = alg.nf(F.body(strip_docstring(fd.node.body), {fd.params[0]: alg.x}, 0, fd))
        except e8.Undecided as e:
            raise AnalysisError(f"{g}/{dg} outside the closed-form fragment: {e}") from e
        if alg.zero(alg.D(G) - Dg):
            rep.ok("R2.map-derivative-pair", f"onedgrid.{dg} = d {g}", fd.loc(), alg.show(Dg, 100))
        else:
            rep.violation("R2.map-derivative-pair", f"onedgrid.{dg}", g,
                          f"{dg} is not the derivative of {g}: d {g}/dx = {alg.show(alg.D(G), 120)} but {dg} returns "
                          f"{alg.show(Dg, 120)}", fd.loc())
    # the strip map: _dergstrip (its interior branch) is the derivative of _gstrip with respect to s
    rep.attempt(_strip_pair, rep, repo)
    # every Trefethen class applies a map to the nodes and the derivative of the same map to the weights
    pair_of = dict(MAP_PAIRS)
    pair_of["_gstrip"] = "_dergstrip"
    n = 0
    scopes = []
    for k in sorted(repo.subclasses("OneDGrid")):
        init = repo.resolve_method(k, "__init__")
        if init is not None and init.cls == k and init.module == "onedgrid":
            scopes.append((k, init))
    for g_ in repo.funcs.values():   # a shared helper may apply the maps on behalf of several classes
        if g_.module == "onedgrid" and g_.cls is None and not g_.is_lambda and isinstance(g_.node, ast.FunctionDef):
            scopes.append((g_.name, g_))
    # module-level tables of rows `(order, map, derivative)`: a loop `for order, g, dg in TABLE` is read once per row
    import copy
    tables = {}
    for st in repo.modules["onedgrid"].tree.body:
        if isinstance(st, ast.Assign) and len(st.targets) == 1 and isinstance(st.targets[0], ast.Name) and \
                isinstance(st.value, (ast.Tuple, ast.List)) and st.value.elts and \
                all(isinstance(r_, (ast.Tuple, ast.List)) for r_ in st.value.elts):
            tables[st.targets[0].id] = [list(r_.elts) for r_ in st.value.elts]
    for k, init in scopes:
        branches = [init.node.body]
        roots = [init.node]
        for loop in [s for s in ast.walk(init.node) if isinstance(s, ast.For)]:
            if isinstance(loop.iter, ast.Name) and loop.iter.id in tables and isinstance(loop.target, ast.Tuple) and \
                    all(isinstance(t_, ast.Name) for t_ in loop.target.elts):
                for row in tables[loop.iter.id]:
                    if len(row) != len(loop.target.elts):
                        continue
                    bind = {t_.id: r_ for t_, r_ in zip(loop.target.elts, row)}

                    class Row(ast.NodeTransformer):
                        def visit_Name(self, n):
                            return copy.deepcopy(bind[n.id]) if n.id in bind and isinstance(n.ctx, ast.Load) else n
                    inst = ast.Module(body=[Row().visit(copy.deepcopy(b_)) for b_ in loop.body], type_ignores=[])
                    roots.append(inst)
                    branches.append(inst.body)
        for root in roots:
            for s in ast.walk(root):
                if isinstance(s, ast.If):
                    branches.append(s.body)
                    branches.append(s.orelse)
        for body in branches:
            asg = {norm(s.targets[0]): s.value for s in body if isinstance(s, ast.Assign) and len(s.targets) == 1}
            sites = [(asg.get("points"), asg.get("weights"))]
            # `return g(x), dg(x) * w`: the helper hands back the pair
            sites += [(s.value.elts[0], s.value.elts[1]) for s in body
                      if isinstance(s, ast.Return) and isinstance(s.value, ast.Tuple) and len(s.value.elts) == 2]
            for pv, wv in sites:
                if pv is None or wv is None or not isinstance(pv, ast.Call) or norm(pv.func) not in pair_of:
                    continue
                n += 1
                gname = norm(pv.func)
                want = pair_of[gname]
                args = [norm(a) for a in pv.args]
                dcalls = [c for c in ast.walk(wv) if isinstance(c, ast.Call) and norm(c.func).startswith("_der")]
                okk = len(dcalls) == 1 and norm(dcalls[0].func) == want and [norm(a) for a in dcalls[0].args] == args and \
                    isinstance(wv, ast.BinOp) and isinstance(wv.op, ast.Mult) and \
                    {norm(wv.left), norm(wv.right)} == {norm(dcalls[0]), args[-1].replace(".points", ".weights")}
                cons = f"onedgrid.{k}.__init__" if init.cls else f"onedgrid.{k}"
                if okk:
                    rep.ok("R2.map-applied-with-its-derivative", f"{k}[{gname}]", repo.rel("onedgrid", pv),
                           f"points = {gname}(x), weights = {want}(x) * w")
                else:
                    rep.violation("R2.map-applied-with-its-derivative", cons, gname,
                                  f"the nodes are mapped with {gname}({', '.join(args)}) but the weights are "
                                  f"`{norm(wv)[:80]}`: they must be {want}({', '.join(args)}) times the weights of the "
                                  f"underlying rule", repo.rel("onedgrid", wv))
    rep.floor("Trefethen map applications", n, 3)


def _strip_pair(rep, repo):
    import sympy as sp
    from gridlint import e8
    fg, fd = repo.module_func("onedgrid", "_gstrip"), repo.module_func("onedgrid", "_dergstrip")
    alg = e8.Algebra("s")
    rho = alg.param("rho")
    alg.ref = {alg.x: sp.Rational(1, 3), rho: sp.Rational(7, 5), alg.param("pi"): sp.pi}
    F = e8.Formula(repo, None, alg)
    try:
        G = alg.nf(F.body(strip_docstring(fg.node.body), {fg.params[0]: rho, fg.params[1]: alg.x}, 0, fg))
    except e8.Undecided as e:
        raise AnalysisError(f"_gstrip outside the closed-form fragment: {e}") from e
    # _dergstrip: end points (|s| = 1) are treated separately by a mask; the interior branch is the
    # store under the *negated* end-point mask
    env = {fd.params[0]: rho, fd.params[1]: alg.x}
    masks = {}
    interior = None
    import copy

    class Strip(ast.NodeTransformer):
        def visit_Subscript(self, n):
            if isinstance(n.slice, ast.Name) and n.slice.id in masks:
                return self.visit(n.value)
            return self.generic_visit(n)
    for st in strip_docstring(fd.node.body):
        if isinstance(st, ast.Assign) and isinstance(st.targets[0], ast.Name):
            v = st.value
            if isinstance(v, ast.Call) and norm(v.func) in ("np.isclose", "np.equal"):
                masks[st.targets[0].id] = "end"
                continue
            if isinstance(v, ast.Compare) and isinstance(v.left, ast.Name) and v.left.id in masks and \
                    isinstance(v.ops[0], ast.Eq) and norm(v.comparators[0]) in ("0", "False"):
                masks[st.targets[0].id] = "interior" if masks[v.left.id] == "end" else "end"
                continue
            if isinstance(v, ast.UnaryOp) and isinstance(v.op, (ast.Invert, ast.Not)) and isinstance(v.operand, ast.Name) \
                    and v.operand.id in masks:
                masks[st.targets[0].id] = "interior" if masks[v.operand.id] == "end" else "end"
                continue
            if isinstance(v, ast.Call) and norm(v.func) in ("np.zeros", "np.empty", "np.zeros_like", "np.empty_like"):
                continue
            try:
                env[st.targets[0].id] = F.ev(Strip().visit(copy.deepcopy(v)), env, 0)
            except e8.Undecided as e:
                raise AnalysisError(f"_dergstrip outside the closed-form fragment: {e}") from e
        elif isinstance(st, ast.Assign) and isinstance(st.targets[0], ast.Tuple) and \
                all(isinstance(t, ast.Name) for t in st.targets[0].elts):
            # `tau, termd, cn = _strip_constants(rho)`: constants shared with _gstrip through a helper
            try:
                vals = F.ev(Strip().visit(copy.deepcopy(st.value)), env, 0)
            except e8.Undecided as e:
                raise AnalysisError(f"_dergstrip outside the closed-form fragment: {e}") from e
            if not isinstance(vals, tuple) or len(vals) != len(st.targets[0].elts):
                raise AnalysisError(f"_dergstrip outside the closed-form fragment: cannot unpack `{norm(st.value)[:50]}`")
            for t, v_ in zip(st.targets[0].elts, vals):
                env[t.id] = v_
        elif isinstance(st, ast.Assign) and isinstance(st.targets[0], ast.Subscript) and \
                isinstance(st.targets[0].slice, ast.Name) and masks.get(st.targets[0].slice.id) == "interior":
            try:
                interior = F.ev(ast.fix_missing_locations(Strip().visit(copy.deepcopy(st.value))), env, 0)
            except e8.Undecided as e:
                raise AnalysisError(f"_dergstrip outside the closed-form fragment: {e}") from e
    if interior is None:
        raise AnalysisError("unrecognised idiom: _dergstrip has no interior branch stored under the negated end-point mask")
    Dg = alg.nf(interior)
    if alg.zero(alg.D(G) - Dg):
        rep.ok("R2.map-derivative-pair", "onedgrid._dergstrip = d _gstrip (interior)", fd.loc(), alg.show(Dg, 100))
    else:
        w = e8.witness(alg, alg.D(G), Dg, [alg.ref, {alg.x: sp.Rational(-3, 5), rho: sp.Rational(9, 4), alg.param("pi"): sp.pi}])
        if w is None:
            raise AnalysisError("cannot decide whether _dergstrip is the derivative of _gstrip")
        rep.violation("R2.map-derivative-pair", "onedgrid._dergstrip", "_gstrip",
                      f"the interior branch of _dergstrip is not the derivative of _gstrip: at "
                      f"{e8.show_point({k_: v_ for k_, v_ in w[0].items() if str(k_) != 'pi'})} d _gstrip/ds = "
                      f"{sp.N(w[1], 12)} but _dergstrip returns {sp.N(w[2], 12)}", fd.loc())


def run(tier="quick", root="/repo", evidence_dir=None, quiet=False):
    rep = Report(PROP, tier, root, EXPLANATION, RULE, assumptions=[
        "the index array np.arange(...) (+ integer offset) enumerates consecutive integers, so the derivative with "
        "respect to the index is the derivative with respect to t = k h times h",
        "power bases and arguments of logarithms are positive (checked at a reference point)",
    ])
    repo = get_repo(root)
    rep.attempt(rule_r1, rep, repo)
    rep.attempt(rule_r2, rep, repo)
    rep.extra["source_digest"] = repo.digest(["onedgrid"])
    return rep.finish(evidence_dir=evidence_dir, quiet=quiet)
