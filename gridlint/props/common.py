"""Helpers shared by the property checkers."""
from __future__ import annotations

from gridlint.core import Repo, Report
from gridlint.e2 import E2

_CACHE = {}


def get_repo(root):
    if ("repo", root) not in _CACHE:
        _CACHE[("repo", root)] = Repo(root)
    return _CACHE[("repo", root)]


def get_e2(root):
    if ("e2", root) not in _CACHE:
        _CACHE[("e2", root)] = E2(get_repo(root)).run()
    return _CACHE[("e2", root)]


def clear():
    _CACHE.clear()
