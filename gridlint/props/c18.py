"""C18 -- multi-domain integration: points and weights are enumerated in lock-step.

R1 the ``points`` and ``weights`` properties enumerate with value graphs that are equal after
   exchanging points <-> weights (same product, same repeat count, same grid order, same
   single-grid test); ``weights`` reduces each combination with a product.
R2 in ``integrate`` the partial point / weight combinations agree in the same sense and the last
   domain is the one excluded from both and the one integrated over.
R3 both chunk streams use the same chunk size and are consumed by one ``zip``; values are
   produced from ``self.points`` in order.
R4 ``size`` is consistent with the enumeration.
"""
from __future__ import annotations

import ast

from gridlint import e5
from gridlint.core import AnalysisError, Report, norm, strip_docstring
from gridlint.props.common import get_repo

PROP = "C18"
EXPLANATION = (
    "Sibling agreement by value numbering: the enumeration of point combinations and of weight "
    "combinations are compared as value graphs after the substitution points<->weights, in the "
    "two properties and in the vectorised integration route; the chunked route must chunk both "
    "streams with the same size expression and consume them with one zip; the reported size must be "
    "the cardinality of the same product; the accumulation loops take every (points, weight) pair.  "
    "Any asymmetry pairs weights with the wrong points, so "
    "each rule is a necessary condition of every clause of the statement.  (R5) integrate evaluated over symbolic "
    "one-dimensional sub-grids with an uninterpreted integrand returns the full tensor-product quadrature on the "
    "vectorised route and on the point-by-point route for several chunk sizes (bounded sweep in the sizes).  NOT decided: "
    "floating-point equality of the routes.")
RULE = "one instance per paired enumeration (properties, integrate), per chunk stream, per size branch"


def _graph_of_return(repo, cls, f, consts=None):
    vg = e5.VG(repo, cls, f.node, consts=consts)
    vg.run(strip_docstring(f.node.body))
    if vg.ret is None:
        raise AnalysisError(f"{f.qual} has no return value graph")
    return vg


def _strip_prod(g, what):
    """weights-like stream: comp(np.prod(bound)) over an iterable -> that iterable."""
    if g[0] == "comp" and len(g[3]) == 1:
        elt, (it, ifs) = g[2], g[3][0]
        if elt[0] == "call" and e5.show(elt[1]) in ("np.prod", "np.product", "math.prod") and \
                elt[2] == (("bound", 0, 0),) and not ifs:
            return it
    raise AnalysisError(f"unrecognised idiom: {what} is not `(np.prod(c) for c in <combinations>)`: {e5.show(g, 120)}")


def _find_call(g, name):
    """First call node of the graph whose callee ends in ``name``."""
    if isinstance(g, tuple) and g:
        if g[0] == "call" and e5.show(g[1]).split(".")[-1] == name:
            return g
        for x in g:
            r = _find_call(x, name)
            if r is not None:
                return r
    return None


def rule_r1(rep, repo):
    fp = repo.method("MultiDomainGrid", "points")
    fw = repo.method("MultiDomainGrid", "weights")
    P = e5.lift_phi(_graph_of_return(repo, "MultiDomainGrid", fp).ret)
    W = e5.lift_phi(_graph_of_return(repo, "MultiDomainGrid", fw).ret)

    def unphi(g, fn):
        if g[0] == "phi":
            return ("phi", g[1], fn(g[2]), fn(g[3]))
        return fn(g)
    def all_arms_comp(g):
        return g[0] == "comp" or (g[0] == "phi" and all_arms_comp(g[2]) and all_arms_comp(g[3]))

    def strip_arms(g):
        if g[0] == "phi":
            return e5.mk_phi(g[1], strip_arms(g[2]), strip_arms(g[3]))
        return _strip_prod(g, "MultiDomainGrid.weights")
    if all_arms_comp(W):
        Wit = strip_arms(W)
    else:
        mg = _find_call(W, "meshgrid")
        if mg is None:
            raise AnalysisError(f"unrecognised idiom: MultiDomainGrid.weights returns {e5.show(W, 100)}")
        # idiom B: product of broadcast weight arrays, flattened.  C-order ravel of an 'ij' mesh is the
        # lexicographic order of itertools.product; the default indexing='xy' swaps the first two axes
        # (known-wrong shape: weights no longer line up with the points)
        kws = dict(mg[3])
        indexing = kws.get("indexing")
        if indexing != ("const", "'ij'"):
            rep.violation("R1.properties-lockstep", "ngrid.MultiDomainGrid.weights", "points",
                          f"weights are enumerated by flattening np.meshgrid(..., indexing="
                          f"{e5.show(indexing) if indexing else 'default xy'}): with 'xy' indexing the first two domains are "
                          f"exchanged, so weight k does not belong to point combination k (only 'ij' matches "
                          f"itertools.product)", fw.loc(), [f"sibling {fp.loc()}"])
            return P
        raise AnalysisError("unrecognised idiom: meshgrid-based weights with 'ij' indexing (order must be argued by hand)")
    Wsw = e5.rename_attr(Wit, "weights", "points")
    d = e5.diff(P, Wsw)
    if d is None:
        rep.ok("R1.properties-lockstep", "MultiDomainGrid.points~weights", fp.loc(), e5.show(P, 140))
    else:
        rep.violation("R1.properties-lockstep", "ngrid.MultiDomainGrid.weights", "points",
                      f"`points` enumerates {e5.show(d[1], 100)} where `weights` enumerates {e5.show(d[2], 100)} "
                      f"(after exchanging weights->points): combination k of the weights does not belong to "
                      f"combination k of the points", fw.loc(), [f"first differing node at {d[0]}", f"sibling {fp.loc()}"])
    return P


def rule_r2_r3(rep, repo):
    f0 = repo.method("MultiDomainGrid", "integrate")
    # integrate together with the private methods it delegates a route to
    funcs = [f0]
    for c in ast.walk(f0.node):
        if isinstance(c, ast.Call) and isinstance(c.func, ast.Attribute) and norm(c.func.value) == "self" and \
                c.func.attr.startswith("_"):
            h = repo.resolve_method("MultiDomainGrid", c.func.attr)
            if h is not None and not h.is_property and h not in funcs:
                funcs.append(h)

    def zip_loops(fn):
        return [n for n in ast.walk(fn.node) if isinstance(n, ast.For) and isinstance(n.iter, ast.Call)
                and norm(n.iter.func) == "zip" and len(n.iter.args) == 2]
    if sum(len(zip_loops(fn)) for fn in funcs) < 2:
        raise AnalysisError("unrecognised idiom: integrate does not consume two paired streams with zip(...) twice")
    done = {"vec": False, "chunk": False}
    for f in funcs:
        if zip_loops(f):
            _streams_of(rep, repo, f, zip_loops(f), done)
    if not all(done.values()):
        raise AnalysisError(f"integrate routes not all found: {done}")


def _every_term_contributes(rep, repo, f, lp):
    """The accumulation over paired (points, weight) items must take every pair: no `break`, no
    `continue` / conditional accumulation other than skipping an exactly-zero weight."""
    zero_tests = set()
    names = [n.id for n in ast.walk(lp.target) if isinstance(n, ast.Name)]
    for w in names:
        zero_tests |= {f"{w} == 0", f"{w} == 0.0", f"0 == {w}", f"0.0 == {w}", f"not {w}"}
    bad = None
    for st in lp.body:
        for n in ast.walk(st):
            if isinstance(n, ast.Break):
                bad = (n, "break")
            if isinstance(n, ast.If) and any(isinstance(x, (ast.Continue, ast.Break)) for x in ast.walk(n)) and \
                    norm(n.test) not in zero_tests:
                bad = (n, f"`if {norm(n.test)[:50]}: continue`")
        if isinstance(st, ast.If) and any(isinstance(x, ast.AugAssign) for x in ast.walk(st)) and norm(st.test) not in \
                {f"{w} != 0" for w in names} | {f"{w} != 0.0" for w in names} | set(names):
            bad = (st, f"accumulation only `if {norm(st.test)[:50]}`")
    if bad is None:
        rep.ok("R2.every-combination-contributes", f"{f.qual}:{norm(lp.iter)[:50]}", repo.rel("ngrid", lp),
               "the loop accumulates every (points, weight) pair")
    else:
        rep.violation("R2.every-combination-contributes", f.qual if f.qual.startswith("ngrid.") else "ngrid." + f.qual,
                      norm(lp.iter)[:50],
                      f"{bad[1]} inside the accumulation over paired points and weights: some combinations are left out of "
                      f"the sum (only an exactly-zero weight may be skipped), so the routes disagree e.g. for rules with "
                      f"negative weights", repo.rel("ngrid", bad[0]))


def _streams_of(rep, repo, f, loops, done):
    for lp_ in loops:
        _every_term_contributes(rep, repo, f, lp_)
    vg = e5.VG(repo, "MultiDomainGrid", f.node)
    # evaluate everything except the loops themselves (we only need the stream definitions)
    def run(body):
        for s in body:
            if isinstance(s, ast.For):
                continue
            if isinstance(s, ast.If):
                if e5.is_validation_block(s):
                    continue
                cond = vg.ev(s.test)
                e0 = dict(vg.env)
                run(s.body)
                e1 = vg.env
                vg.env = dict(e0)
                run(s.orelse)
                e2 = vg.env
                out = {}
                for k in set(e1) | set(e2):
                    a, b = e1.get(k, e0.get(k)), e2.get(k, e0.get(k))
                    # a name defined on one side only keeps that definition
                    out[k] = a if (a == b or b is None) else (b if a is None else ("phi", cond, a, b))
                vg.env = out
            else:
                vg.stmt(s)
    run(strip_docstring(f.node.body))
    for lp in loops:
        a, b = (vg.ev(x) for x in lp.iter.args)
        txt = e5.show(a, 400) + e5.show(b, 400)
        if "_chunked_iterator" in txt:
            done["chunk"] = True
            # R3: chunked streams
            if not (a[0] == "call" and b[0] == "call" and e5.show(a[1]) == "_chunked_iterator" == e5.show(b[1])):
                raise AnalysisError("unrecognised idiom: chunk streams are not both _chunked_iterator(...) calls")
            streams = {"w": None, "v": None}
            # `self.points` / `self.weights` as this graph spells them (a one-line getter is inlined)
            PTS = (("attr", ("sym", "self"), "points"), vg.ev(ast.parse("self.points", mode="eval").body))
            WTS = (("attr", ("sym", "self"), "weights"), vg.ev(ast.parse("self.weights", mode="eval").body))
            for g in (a, b):
                src = g[2][0]
                if src in WTS:
                    streams["w"] = src
                elif src[0] == "comp":
                    streams["v"] = src
            if streams["w"] is None or streams["v"] is None:
                raise AnalysisError("unrecognised idiom: chunked streams are not (self.weights, values-from-self.points)")
            sa, sb = a[2][1:] + tuple(a[3]), b[2][1:] + tuple(b[3])
            if sa == sb:
                rep.ok("R3.same-chunk-size", "MultiDomainGrid.integrate", repo.rel("ngrid", lp), e5.show(a[2][1], 60))
            else:
                rep.violation("R3.same-chunk-size", "ngrid.MultiDomainGrid.integrate", "chunk_size",
                              f"weights are chunked by {e5.show(sa, 60)} but values by {e5.show(sb, 60)}: zip() pairs "
                              f"chunks of different length and silently drops the tail", repo.rel("ngrid", lp))
            v = streams["v"]
            it = v[3][0][0]
            elt = v[2]
            okv = it in PTS and elt[0] == "call" and \
                elt[2] == (("star", ("bound", 0, 0)),) and not v[3][0][1]
            if okv:
                rep.ok("R3.values-follow-points", "MultiDomainGrid.integrate", repo.rel("ngrid", lp),
                       "values = f(*p) for p in self.points, weights = self.weights")
            else:
                rep.violation("R3.values-follow-points", "ngrid.MultiDomainGrid.integrate", "values",
                              f"the value stream `{e5.show(v, 120)}` is not one value per element of self.points in order",
                              repo.rel("ngrid", lp))
            # the two loop targets are used as a pair in the body
        else:
            done["vec"] = True
            # which of a, b is the weights stream?
            try:
                wit, pit, wnode = _strip_prod(b, "pre_weights"), a, 1
            except AnalysisError:
                try:
                    wit, pit, wnode = _strip_prod(a, "pre_weights"), b, 0
                except AnalysisError:
                    # the weight tuples may be reduced inside the loop instead: zip(point tuples, weight tuples)
                    # with `w = np.prod(<weight tuple>)` in the body
                    ta, tb = e5.show(a, 2000), e5.show(b, 2000)
                    if ".weights" in tb and ".weights" not in ta:
                        wit, pit, wnode = b, a, 1
                    elif ".weights" in ta and ".weights" not in tb:
                        wit, pit, wnode = a, b, 0
                    else:
                        raise
                    tgt = lp.target.elts[wnode] if isinstance(lp.target, ast.Tuple) and len(lp.target.elts) == 2 else None
                    reduced = tgt is not None and any(
                        isinstance(n_, ast.Call) and norm(n_.func) in ("np.prod", "math.prod", "np.product") and n_.args
                        and norm(n_.args[0]) == norm(tgt) for st_ in lp.body for n_ in ast.walk(st_))
                    if not reduced:
                        raise AnalysisError("unrecognised idiom: the weight combinations are neither reduced by np.prod "
                                            "in a generator nor inside the loop")
            d = e5.diff(pit, e5.rename_attr(wit, "weights", "points"))
            if d is None:
                rep.ok("R2.partial-combinations-lockstep", "MultiDomainGrid.integrate", repo.rel("ngrid", lp),
                       e5.show(pit, 150))
            else:
                rep.violation("R2.partial-combinations-lockstep", "ngrid.MultiDomainGrid.integrate", "pre-combinations",
                              f"partial point combinations {e5.show(d[1], 100)} vs partial weight combinations "
                              f"{e5.show(d[2], 100)} (after weights->points) differ", repo.rel("ngrid", lp),
                              [f"first differing node at {d[0]}"])
            # last domain excluded from the partial products and integrated over
            txtp = e5.show(pit, 600)
            last_ok_excl = ("grid_list[:-1]" in txtp.replace(" ", "").replace("::", ":") or "slice" in repr(pit)) and \
                "-1" in repr(pit)
            # the grid that integrates the innermost variable and the points handed to the integrand, as
            # value graphs (local aliases such as `last_grid = self.grid_list[-1]` are looked through)
            LAST = ("sub", ("attr", ("sym", "self"), "grid_list"), ("const", "-1"))
            lv = e5.VG(repo, "MultiDomainGrid", f.node, inline=False)
            lv.env = dict(vg.env)
            recvs, ptsargs = [], []
            for st in lp.body:
                for n in ast.walk(st):
                    if isinstance(n, ast.Call) and isinstance(n.func, ast.Attribute) and n.func.attr == "integrate":
                        recvs.append(lv.ev(n.func.value))
                    if isinstance(n, ast.Attribute) and n.attr == "points":
                        ptsargs.append(lv.ev(n.value))
                    if isinstance(n, ast.Name) and isinstance(n.ctx, ast.Load) and n.id in lv.env and \
                            lv.env[n.id] == ("attr", LAST, "points"):
                        ptsargs.append(LAST)
                lv.stmt(st) if isinstance(st, ast.Assign) else None
            last_ok_int = bool(recvs) and all(r == LAST for r in recvs) and LAST in ptsargs
            rep_ok = "num_domains" in txtp and "-1" in txtp
            if last_ok_int and rep_ok:
                rep.ok("R2.last-domain", "MultiDomainGrid.integrate", repo.rel("ngrid", lp),
                       "partial products exclude exactly the last domain, which is integrated with its own grid")
            else:
                rep.violation("R2.last-domain", "ngrid.MultiDomainGrid.integrate", "last",
                              "the domain left out of the partial combinations is not the one integrated over "
                              "(self.grid_list[-1]) or the repeat count is not num_domains - 1", repo.rel("ngrid", lp))


def rule_r4(rep, repo, P):
    f = repo.method("MultiDomainGrid", "size")
    S = e5.lift_phi(_graph_of_return(repo, "MultiDomainGrid", f).ret)
    # expected: phi(cond, grid_list[0].size ** num_domains, prod(grid.size for grid in grid_list))
    if P[0] != "phi" or S[0] != "phi":
        raise AnalysisError("unrecognised idiom: points/size are not two-branch definitions")
    if P[1] == S[1]:
        rep.ok("R4.size-same-case-split", "MultiDomainGrid.size", f.loc(), e5.show(S[1], 100))
    else:
        rep.violation("R4.size-same-case-split", "ngrid.MultiDomainGrid.size", "test",
                      f"`size` distinguishes the repeated-grid mode with {e5.show(S[1], 90)} but the enumeration with "
                      f"{e5.show(P[1], 90)}", f.loc())
    rep_branch, list_branch = P[2], P[3]
    srep, slist = S[2], S[3]
    # repeated branch: product(grid.points, repeat=R) <-> grid.size ** R
    R = dict(rep_branch[3]).get("repeat") if rep_branch[0] == "call" else None
    okr = srep[0] == "bin" and srep[1] == "Pow" and srep[3] == R and \
        e5.rename_attr(srep[2], "size", "points") == (rep_branch[2][0] if rep_branch[0] == "call" and rep_branch[2] else None)
    if okr:
        rep.ok("R4.size-repeated", "MultiDomainGrid.size", f.loc(), e5.show(srep, 80))
    else:
        rep.violation("R4.size-repeated", "ngrid.MultiDomainGrid.size", "repeated",
                      f"size in repeated-grid mode is {e5.show(srep, 80)} but the enumeration is {e5.show(rep_branch, 100)}",
                      f.loc())
    okl = False
    if slist[0] == "call" and e5.show(slist[1]) in ("np.prod", "math.prod") and slist[2] and slist[2][0][0] == "comp":
        comp = slist[2][0]
        if list_branch[0] == "call" and list_branch[2] and list_branch[2][0][0] == "star":
            pc = list_branch[2][0][1]
            okl = e5.rename_attr(comp, "size", "points") == pc
    if okl:
        rep.ok("R4.size-list", "MultiDomainGrid.size", f.loc(), e5.show(slist, 80))
    else:
        rep.violation("R4.size-list", "ngrid.MultiDomainGrid.size", "list",
                      f"size for a list of grids is {e5.show(slist, 90)} but the enumeration is {e5.show(list_branch, 100)}",
                      f.loc())


def run(tier="quick", root="/repo", evidence_dir=None, quiet=False):
    rep = Report(PROP, tier, root, EXPLANATION, RULE, assumptions=[
        "itertools.product enumerates in lexicographic order of its arguments (documented)",
    ])
    repo = get_repo(root)
    # R5 first: the evaluation over symbolic grids decides the bounded sweep whatever idiom the code uses
    from gridlint import product_quad
    before = len(rep.failed_floors)
    rep.attempt(product_quad.rule_product_quadrature, rep, repo)
    r5_decided = len(rep.failed_floors) == before and not any(v["rule"].startswith("R5.") for v in rep.violations)

    why = "the evaluation rule R5 decided that every route returns the full tensor-product quadrature for the sweep of configurations"
    P = rep.backed(rule_r1, r5_decided, why, rep, repo, only=("R1.",))
    rep.backed(rule_r2_r3, r5_decided, why, rep, repo, only=("R2.", "R3."))
    if P is not None:
        rep.backed(rule_r4, r5_decided, why, rep, repo, P, only=("R4.",))
    # _chunked_iterator: islice of one shared iterator, stops on empty chunk
    g = repo.module_func("ngrid", "_chunked_iterator")
    txt = " ".join(norm(s) for s in g.node.body)
    if "islice(iterator, size)" in txt and "iter(iterator)" in txt and "if not chunk: break" in txt.replace("\n", " "):
        rep.ok("R3.chunker-shape", "ngrid._chunked_iterator", g.loc(), "islice over one shared iterator, stops at the first empty chunk")
    else:
        rep.note("ngrid._chunked_iterator has an unrecognised shape (not a violation by itself)")
    rep.extra["source_digest"] = repo.digest(["ngrid"])
    return rep.finish(evidence_dir=evidence_dir, quiet=quiet)
