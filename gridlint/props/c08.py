"""C08 -- spherical harmonics: three assembly clauses only.

The body of the statement (values, normalisation, agreement of the two implementations, the addition
theorem, the polar derivative, the poles) is numerical and NOT decided.  Three clauses are visible in
the shape of utils.py and are decided by evaluating the functions over symbolic arrays (E10; the
harmonics themselves are an uninterpreted stub):

S1 solid-harmonics: row i of solid_harmonics is sqrt(4 pi / (2l+1)) r^l times row i of the harmonics,
   l = degree of row i in the documented order (rows l^2 .. (l+1)^2 - 1)          [l_max = 0..3]
S2 cart-to-sph-inverts: for any centre c and any point p = c + d (generic d), feeding the returned
   (r, theta, phi) into the parametrisation c + r (sin(phi) cos(theta), sin(phi) sin(theta), cos(phi))
   gives p back
S3 azimuthal-derivative: row block [0] of generate_derivative_real_spherical_harmonics is
   -m Y_(l,-m) in the documented order m = 0, 1, -1, 2, -2, ...                  [l_max = 0..3]

S1 and S3 are decided per configuration l_max = 0..3 (the degree is a concrete integer in the
evaluation); they are identities in the points and the harmonics, not in l.
"""
from __future__ import annotations

import ast
import math

from gridlint.core import AnalysisError, Report
from gridlint.props.common import get_repo

PROP = "C08"
EXPLANATION = (
    "Formula analysis of utils.py, nothing executed.  Three assembly clauses of the statement are decided "
    "by evaluating the functions from their syntax trees over symbolic arrays (E10; the harmonics are an "
    "uninterpreted stub): solid harmonics = sqrt(4 pi/(2l+1)) r^l Y_lm row by row (l_max = 0..3); "
    "Cartesian-to-spherical conversion composed with the spherical parametrisation is the identity for "
    "any centre (generic points); the azimuthal derivative rows are -m Y_(l,-m) in the documented row "
    "order (l_max = 0..3).  NOT decided: the values and normalisation of the harmonics, agreement of the "
    "two implementations, the addition theorem, the polar derivative, poles and angles outside the "
    "principal range (numerical).")
RULE = "per l_max in 0..3 and per row; two points and a symbolic centre for the conversion"
LMAX = (0, 1, 2, 3)


def _sp():
    import sympy as sp
    return sp


def _row_lm(i):
    """(l, m) of row i in the documented order m = 0, 1, -1, 2, -2, ..."""
    l = math.isqrt(i)
    k = i - l * l
    if k == 0:
        return l, 0
    return l, (k + 1) // 2 if k % 2 == 1 else -(k // 2)


def _row_of(l, m):
    return l * l + (0 if m == 0 else 2 * m - 1 if m > 0 else 2 * (-m))


class Cx:
    def __init__(self, repo):
        from gridlint import e10
        self.e10 = e10
        self.repo = repo
        self.funcs = {g.name: g for g in repo.funcs.values()
                      if g.module == "utils" and g.cls is None and g.parent is None and isinstance(g.node, ast.FunctionDef)}
        for need in ("solid_harmonics", "convert_cart_to_sph", "generate_derivative_real_spherical_harmonics"):
            if need not in self.funcs:
                raise AnalysisError(f"anchor vanished: utils.{need}")
        self.nodes = {k: v.node for k, v in self.funcs.items()}

    def loc(self, name):
        return self.funcs[name].loc()

    def run(self, name, args, ext, generic):
        it = self.e10.Interp(self.nodes, ext, generic=generic)
        try:
            return it.call_def(self.nodes[name], list(args), {}, {})
        except self.e10.Undecided as e:
            raise AnalysisError(f"utils.{name} is outside the fragment the symbolic array evaluator knows: {e}") from e
        except (IndexError, ValueError, TypeError, KeyError, AttributeError) as e:
            raise AnalysisError(f"utils.{name}: the evaluation over symbolic arrays failed ({type(e).__name__}: {e})") from e


def _harm_stub(e10, calls):
    sp = _sp()

    def harmonics(l, theta, phi):
        l = int(l)
        calls.append(l)
        return e10._obj_array([[sp.Symbol(f"Y_{i}_{n}") for n in range(len(list(theta)))] for i in range((l + 1) ** 2)])
    return harmonics


def rule_solid(rep, cx):
    sp = _sp()
    e10 = cx.e10
    here = cx.loc("solid_harmonics")
    n = 0
    for L in LMAX:
        r = [sp.Symbol(f"r{k}", positive=True) for k in range(2)]
        pts = e10._obj_array([[r[k], sp.Symbol(f"th{k}", positive=True), sp.Symbol(f"ph{k}", positive=True)] for k in range(2)])
        calls = []
        out = cx.run("solid_harmonics", [L, pts], {"generate_real_spherical_harmonics": _harm_stub(e10, calls)}, set(r))
        rows = (L + 1) ** 2
        if calls != [L] or not hasattr(out, "shape") or out.shape != (rows, 2):
            rep.violation("S1.solid-harmonics", "utils.solid_harmonics", "shape",
                          f"l_max = {L}: harmonics requested for degrees {calls}, result shape {getattr(out, 'shape', None)}; expected "
                          f"one request of degree {L} and shape ({rows}, 2)", here)
            continue
        for i in range(rows):
            l, _ = _row_lm(i)
            for k in range(2):
                n += 1
                want = sp.sqrt(4 * sp.pi / (2 * l + 1)) * r[k] ** l * sp.Symbol(f"Y_{i}_{k}")
                if sp.simplify(out[i, k] - want) != 0:
                    rep.violation("S1.solid-harmonics", "utils.solid_harmonics", f"row[l={l}]",
                                  f"l_max = {L}, row {i} (degree {l}): `{str(sp.simplify(out[i, k]))[:120]}` is not "
                                  f"sqrt(4 pi / (2l+1)) r^l Y = `{want}`", here)
                    break
            else:
                continue
            break
        else:
            rep.ok("S1.solid-harmonics", f"solid_harmonics[l_max = {L}]", here, f"{rows} rows x 2 points")
    rep.floor("S1 entries", n, 2 * (1 + 4 + 9 + 16))


def rule_cart_to_sph(rep, cx):
    sp = _sp()
    e10 = cx.e10
    here = cx.loc("convert_cart_to_sph")
    n = 0
    for with_center in (True, False):
        c = [sp.Symbol(f"c{a}", positive=True) for a in range(3)] if with_center else [sp.Integer(0)] * 3
        d = [[sp.Symbol(f"d{k}{a}", positive=True) for a in range(3)] for k in range(2)]
        P = e10._obj_array([[c[a] + d[k][a] for a in range(3)] for k in range(2)])
        args = [P, e10.arr(c)] if with_center else [P, None]
        out = cx.run("convert_cart_to_sph", args, {}, set())
        if not hasattr(out, "shape") or out.shape != (2, 3):
            rep.violation("S2.cart-to-sph-inverts", "utils.convert_cart_to_sph", "shape",
                          f"the result for two points has shape {getattr(out, 'shape', None)}", here)
            continue
        for k in range(2):
            r, th, ph = out[k]
            back = [c[0] + r * sp.sin(ph) * sp.cos(th), c[1] + r * sp.sin(ph) * sp.sin(th), c[2] + r * sp.cos(ph)]
            for a in range(3):
                n += 1
                if sp.simplify(back[a] - P[k, a]) != 0:
                    rep.violation("S2.cart-to-sph-inverts", "utils.convert_cart_to_sph", "xyz"[a],
                                  f"{'with a centre' if with_center else 'without centre'}: feeding the returned (r, theta, phi) = "
                                  f"({str(r)[:60]}, {str(th)[:60]}, {str(ph)[:60]}) into the parametrisation gives "
                                  f"{'xyz'[a]} = `{str(sp.simplify(back[a]))[:100]}` instead of `{P[k, a]}`", here)
                    break
            else:
                continue
            break
        else:
            rep.ok("S2.cart-to-sph-inverts", f"convert_cart_to_sph[{'centre' if with_center else 'origin'}]", here,
                   "parametrisation(convert(p)) = p")
    rep.floor("S2 entries", n, 12)


def rule_azimuthal(rep, cx):
    sp = _sp()
    e10 = cx.e10
    name = "generate_derivative_real_spherical_harmonics"
    here = cx.loc(name)
    n = 0
    for L in LMAX:
        th = [sp.Symbol(f"th{k}", positive=True) for k in range(2)]
        ph = [sp.Symbol(f"ph{k}", positive=True) for k in range(2)]
        calls = []

        def scipy_harm(l, m, a, b):
            return e10._obj_array([sp.Symbol(f"Z_{int(l)}_{int(m)}_{k}") for k in range(2)])
        ext = {"generate_real_spherical_harmonics": _harm_stub(e10, calls), "sph_harm_y": scipy_harm}
        out = cx.run(name, [L, e10.arr(th), e10.arr(ph)], ext, set(th) | set(ph))
        rows = (L + 1) ** 2
        if not hasattr(out, "shape") or out.shape != (2, rows, 2):
            rep.violation("S3.azimuthal-derivative", f"utils.{name}", "shape",
                          f"l_max = {L}: result shape {getattr(out, 'shape', None)}, expected (2, {rows}, 2)", here)
            continue
        for i in range(rows):
            l, m = _row_lm(i)
            for k in range(2):
                n += 1
                want = -m * sp.Symbol(f"Y_{_row_of(l, -m)}_{k}")
                if sp.simplify(out[0, i, k] - want) != 0:
                    rep.violation("S3.azimuthal-derivative", f"utils.{name}", f"row[m={'+' if m > 0 else ''}{m}]" if m else "row[m=0]",
                                  f"l_max = {L}, row {i} (l = {l}, m = {m}): the theta-derivative is `{str(out[0, i, k])[:100]}`; "
                                  f"d/dtheta Y_(l,m) = -m Y_(l,-m), i.e. -({m}) times row {_row_of(l, -m)}", here)
                    break
            else:
                continue
            break
        else:
            rep.ok("S3.azimuthal-derivative", f"{name}[l_max = {L}]", here, f"{rows} rows: -m Y_(l,-m)")
    rep.floor("S3 entries", n, 2 * (1 + 4 + 9 + 16))


def run(tier="quick", root="/repo", evidence_dir=None, quiet=False):
    rep = Report(PROP, tier, root, EXPLANATION, RULE, assumptions=[
        "documented row order of the harmonics: rows l^2 .. (l+1)^2 - 1 hold degree l with m = 0, 1, -1, 2, -2, ...",
        "spherical convention theta = azimuth, phi = polar angle: x = r sin(phi) cos(theta), y = r sin(phi) sin(theta), z = r cos(phi)",
        "points are generic (off the poles, off the origin, first octant relative to the centre); identities are analytic in the points",
    ])
    repo = get_repo(root)
    cx = Cx(repo)
    rep.attempt(rule_solid, rep, cx)
    rep.attempt(rule_cart_to_sph, rep, cx)
    rep.attempt(rule_azimuthal, rep, cx)
    rep.extra["source_digest"] = repo.digest(["utils"])
    return rep.finish(evidence_dir=evidence_dir, quiet=quiet)
