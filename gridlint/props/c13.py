"""C13 -- rectilinear grids: "constructs in both dimensions" (guard dominance); the rest declined.

On the code reachable from the 2-D-capable constructors every *third-axis construct* -- a constant
subscript 2 on a dimension-indexed sequence, a call passing the constant 2 to a helper parameter
that subscripts ``shape``, an einsum operand with three subscript letters -- must be dominated by
a test implying three dimensions.
"""
from __future__ import annotations

import ast

from gridlint import e6
from gridlint.core import AnalysisError, Report, norm, strip_docstring
from gridlint.props.common import get_repo

PROP = "C13"
EXPLANATION = (
    "Guard-dominance analysis over cubic.py: every construct that only exists in three dimensions "
    "(constant index 2 into shape/axes/point columns, a helper call selecting axis 2, an einsum over "
    "three grid axes, use of the optional third 1-D grid) must be dominated by a condition implying "
    "ndim == 3 (enclosing if, else of a ==2 test, or an earlier raise/return on the complement).  "
    "This is a necessary condition of 'every documented weighting scheme constructs in both "
    "dimensions' and of the 2-D index maps.  Also checks that the weight-scheme dispatch handles "
    "exactly the documented names, and -- with a symbolic array-shape domain analysed once per "
    "dimensionality -- that every scheme returns the C-order flattening of an array whose axes are "
    "(shape[0], shape[1][, shape[2]]) (or a uniform vector), i.e. that tensor weights follow the point "
    "layout for non-cubic shapes; the forward index map uses the row-major strides and the inverse map "
    "divides by the same table (symbolic sequences per dimensionality); both exits of the cube-file "
    "reader construct the grid from the same value graph.  NOT decided: weights summing to "
    "the volume, nearest point, molecule margin, cube round trip, spline reproduction (numerical).")
RULE = "one instance per third-axis construct in the 2-D-capable functions; one per weight-scheme key"

POS = {"dim == 3", "self.ndim == 3", "len(shape) == 3", "len(self.shape) == 3", "len(self._shape) == 3",
       "oned_z is not None", "ndim == 3", "self._origin.size == 3", "origin.size == 3", "3 == dim",
       "points.shape[1] == 3", "index == 2"}
NEG = {"dim == 2", "self.ndim == 2", "len(shape) == 2", "len(self.shape) == 2", "oned_z is None", "ndim == 2",
       "self.ndim != 3", "dim != 3", "len(shape) != 3", "len(self.shape) != 3", "ndim != 3", "dim < 3",
       "self.ndim < 3"}

# 3-D by definition (one symbol each, with reason)
EXCLUDED = {
    "cubic.UniformGrid.from_molecule": "molecular geometries are three-dimensional by definition",
    "cubic.UniformGrid.from_cube": "the cube file format is three-dimensional by definition",
    "cubic.UniformGrid.generate_cube": "the cube file format is three-dimensional by definition",
}

DIM_SEQS = ("shape", "axes", "origin", "points", "coords", "strides", "_shape", "_axes", "_origin")


_DIMEXPR = r"(?:[\w\.]*ndim|[\w\.]*dim|len\([\w\.]*shape\)|len\([\w\.]*axes\)|[\w\.]*origin\.size|[\w\.]+\.shape\[1\])"


def _three_d(test, polarity):
    """Does the guard (with its polarity) imply three dimensions?  Accepts any spelling of a
    comparison between a dimension expression and the literals 2 / 3."""
    import re
    t = test.strip()
    m = re.fullmatch(_DIMEXPR + r" (==|!=|>|>=|<|<=) (\d)", t) or None
    if m is None:
        m2 = re.fullmatch(r"(\d) (==|!=|>|>=|<|<=) " + _DIMEXPR, t)
        if m2 is None:
            return False
        flip = {"==": "==", "!=": "!=", ">": "<", ">=": "<=", "<": ">", "<=": ">="}
        op, k = flip[m2.group(2)], int(m2.group(1))
    else:
        op, k = m.group(1), int(m.group(2))
    # dimensions are 2 or 3 in this module
    sat = {d for d in (2, 3) if eval(f"{d} {op} {k}")}  # noqa: S307 - literal integers only
    chosen = sat if polarity else {2, 3} - sat
    return chosen == {3}


def _is_const2(n):
    return isinstance(n, ast.Constant) and n.value == 2 and not isinstance(n.value, bool)


def third_axis_constructs(fn_node, helper_axis_params):
    """[(node, guards, description)]"""
    out = []
    for n, g in e6.guarded_nodes(fn_node):
        if isinstance(n, ast.Subscript):
            sl = n.slice
            base = norm(n.value)
            idx2 = _is_const2(sl) or (isinstance(sl, ast.Tuple) and sl.elts and _is_const2(sl.elts[-1]))
            if idx2 and any(t in base for t in DIM_SEQS):
                out.append((n, g, f"third entry of a per-dimension sequence: `{norm(n)[:50]}`"))
        elif isinstance(n, ast.Call):
            fn = norm(n.func)
            if fn in helper_axis_params:
                pos = helper_axis_params[fn]
                if pos < len(n.args) and _is_const2(n.args[pos]):
                    out.append((n, g, f"helper call selecting the third axis: `{norm(n)[:50]}`"))
            if fn in ("np.einsum", "numpy.einsum") and n.args and isinstance(n.args[0], ast.Constant) \
                    and isinstance(n.args[0].value, str):
                spec = n.args[0].value.replace(" ", "")
                outp = spec.split("->")[-1] if "->" in spec else ""
                ops = spec.split("->")[0].split(",")
                if any(len(o) == 3 for o in ops) and len(outp) == 3:
                    out.append((n, g, f"einsum over three grid axes: `{spec}`"))
        elif isinstance(n, ast.Attribute) and isinstance(n.value, ast.Name) and n.value.id == "oned_z":
            out.append((n, g, f"use of the optional third 1-D grid: `{norm(n)}`"))
    return out


def helper_axis_params(fn_node):
    """Nested helpers whose parameter is used as an index into ``shape``: name -> arg position."""
    out = {}
    for n in ast.walk(fn_node):
        if isinstance(n, ast.FunctionDef) and n is not fn_node:
            params = [a.arg for a in n.args.args]
            for s in ast.walk(n):
                if isinstance(s, ast.Subscript) and isinstance(s.slice, ast.Name) and s.slice.id in params and \
                        "shape" in norm(s.value):
                    out[n.name] = params.index(s.slice.id)
    return out


def rule_layout(rep, repo):
    """Tensor layout of the weights (symbolic shape domain, once per dimensionality): every weighting
    scheme must return, in 2-D and in 3-D, either a uniform vector of length prod(shape) or the C-order
    flattening of an array whose axes are exactly (shape[0], shape[1][, shape[2]]) -- the layout of the
    points (last index fastest).  A transposed or wrongly broadcast weight array pairs weights with the
    wrong points for every non-cubic shape."""
    from gridlint import e4, e7
    f = repo.method("UniformGrid", "_choose_weight_scheme")
    d = e4.string_dispatch(f.node.body, "weight")
    chain, else_body, node = d
    shape_param = f.params[2] if len(f.params) > 2 else "shape"
    for key, body in chain:
        for nd in (2, 3):
            si = e7.ShapeInterp(nd, f.node, shape_names=(shape_param,))
            si.run(body)
            cons = f"cubic.UniformGrid._choose_weight_scheme[{key}]"
            where = repo.rel("cubic", body[0])
            want = tuple(("n", k, 0) for k in range(nd))
            probs = [p for p in si.problems]
            if probs:
                kind, text, pnode = probs[0]
                rep.violation("tensor-weight-layout", cons, f"{nd}D:{kind}",
                              f"in {nd} dimensions: {text}" + (" -- axis beyond the grid's dimension" if kind == "axis" else ""),
                              repo.rel("cubic", pnode))
                continue
            if not si.returns:
                raise AnalysisError(f"shape analysis: weight scheme {key!r} returns nothing in {nd}D")
            r = si.returns[0]
            if r == ("arr", (("prod",),)):
                rep.ok("tensor-weight-layout", f"{cons}:{nd}D", where, "uniform vector of length prod(shape)")
            elif r[0] == "arr" and len(r[1]) == 1 and isinstance(r[1][0], tuple) and r[1][0][0] == "ravel":
                got = r[1][0][1]
                if got == want:
                    rep.ok("tensor-weight-layout", f"{cons}:{nd}D", where, "ravel of " + e7.show_shape(("arr", got)))
                else:
                    rep.violation("tensor-weight-layout", cons, f"{nd}D:axes",
                                  f"in {nd} dimensions the scheme flattens an array with axes {e7.show_shape(('arr', got))} "
                                  f"but the points are laid out over {e7.show_shape(('arr', want))} (last index fastest): "
                                  f"weights are paired with the wrong points unless all point counts are equal", where)
            elif r == e7.UNKNOWN:
                raise AnalysisError(f"shape analysis cannot determine the shape returned by weight scheme {key!r} in {nd}D")
            else:
                rep.violation("tensor-weight-layout", cons, f"{nd}D:shape",
                              f"in {nd} dimensions the scheme returns an array of shape {e7.show_shape(r)}; expected a "
                              f"vector of length prod(shape)", where)
    # Tensor1DGrids: kron nesting order must follow the meshgrid('ij') argument order
    t = repo.method("Tensor1DGrids", "__init__")
    n = 0
    cons = "cubic.Tensor1DGrids.__init__"
    a = t.node.args
    pos = a.args[len(a.args) - len(a.defaults):]
    opt = [x.arg for x, d in zip(pos, a.defaults) if isinstance(d, ast.Constant) and d.value is None]
    if not opt:
        raise AnalysisError("anchor vanished: Tensor1DGrids.__init__ has no optional (None-default) 1-D grid")
    for absent in (tuple(opt), ()):
        tc = _TensorCtor(t, set(absent))
        tc.run(strip_docstring(t.node.body))
        if tc.super_args is None or len(tc.super_args) < 2:
            raise AnalysisError("anchor vanished: Tensor1DGrids.__init__ does not call super().__init__(points, weights, ...)")
        mesh = _find(tc.super_args[0], "mesh")
        kron = tc.super_args[1]
        if mesh is None:
            raise AnalysisError(f"unrecognised idiom: points of Tensor1DGrids are not built from np.meshgrid ({tc.super_args[0]!r:.120})")
        order_w = _kron_order(kron)
        if order_w is None:
            raise AnalysisError(f"unrecognised idiom: weights of Tensor1DGrids are not a Kronecker product of 1-D weights ({kron!r:.120})")
        order_pts = []
        for a in mesh[1]:
            if not (isinstance(a, tuple) and a[0] == "attr" and a[2] == "points" and a[1][0] == "grid"):
                raise AnalysisError(f"unrecognised idiom: meshgrid argument {a!r:.80}")
            order_pts.append(a[1][1])
        n += 1
        indexing = mesh[2]
        where = repo.rel("cubic", tc.super_node)
        if indexing == "'ij'" and order_pts == order_w:
            rep.ok("tensor-weight-layout", f"{cons}:{len(order_w)}D", where,
                   f"meshgrid('ij') over {order_pts}, kron over {order_w}")
        else:
            rep.violation("tensor-weight-layout", cons, f"{len(order_pts)}D",
                          f"points enumerate meshgrid({', '.join(order_pts)}, indexing={indexing}) but weights are "
                          f"kron({', '.join(order_w)}): the product weight of node (i, j[, k]) is attached to another "
                          f"node", where)
    rep.floor("tensor-product configurations of Tensor1DGrids", n, 2)


def _find(v, tag):
    if isinstance(v, tuple):
        if v and v[0] == tag:
            return v
        for x in v:
            r = _find(x, tag)
            if r is not None:
                return r
    elif isinstance(v, list):
        for x in v:
            r = _find(x, tag)
            if r is not None:
                return r
    return None


def _kron_order(v):
    """In-order leaves of a nest of np.kron calls (the Kronecker product is associative), as grid names."""
    if isinstance(v, tuple) and v[0] == "kron":
        a, b = _kron_order(v[1]), _kron_order(v[2])
        return None if a is None or b is None else a + b
    if isinstance(v, tuple) and v[0] == "attr" and v[2] == "weights" and v[1][0] == "grid":
        return [v[1][1]]
    return None


class _TensorCtor:
    """Evaluates the constructor of Tensor1DGrids for one configuration of its optional grids
    (absent = passed as None).  Values: ("grid", name), ("none",), Python lists of values,
    ("attr", v, name), ("mesh", [args], indexing), ("kron", a, b), ("call", text, [args])."""

    def __init__(self, f, absent):
        self.env = {}
        for p in f.params[1:]:
            self.env[p] = ("none",) if p in absent else ("grid", p)
        self.super_args = None
        self.super_node = None

    def fold(self, t):
        if isinstance(t, ast.UnaryOp) and isinstance(t.op, ast.Not):
            k = self.fold(t.operand)
            return None if k is None else not k
        if isinstance(t, ast.Compare) and len(t.ops) == 1 and isinstance(t.ops[0], (ast.Is, ast.IsNot)) and \
                isinstance(t.comparators[0], ast.Constant) and t.comparators[0].value is None:
            v = self.ev(t.left)
            if v == ("none",) or (isinstance(v, tuple) and v[0] == "grid"):
                return (v == ("none",)) == isinstance(t.ops[0], ast.Is)
        if isinstance(t, ast.Compare) and len(t.ops) == 1 and isinstance(t.ops[0], (ast.Eq, ast.NotEq)):
            a, b = self.ev(t.left), self.ev(t.comparators[0])
            if isinstance(a, int) and isinstance(b, int):
                return (a == b) == isinstance(t.ops[0], ast.Eq)
        if isinstance(t, ast.BoolOp):
            ks = [self.fold(v) for v in t.values]
            if isinstance(t.op, ast.And):
                return False if False in ks else (None if None in ks else True)
            return True if True in ks else (None if None in ks else False)
        return None

    def ev(self, e):
        if isinstance(e, ast.Name):
            return self.env.get(e.id, ("unknown", e.id))
        if isinstance(e, ast.Constant):
            return e.value if isinstance(e.value, int) and not isinstance(e.value, bool) else ("const", repr(e.value))
        if isinstance(e, (ast.List, ast.Tuple)):
            out = []
            for x in e.elts:
                if isinstance(x, ast.Starred):
                    v = self.ev(x.value)
                    if not isinstance(v, list):
                        return ("unknown", norm(e))
                    out += v
                else:
                    out.append(self.ev(x))
            return out
        if isinstance(e, ast.IfExp):
            k = self.fold(e.test)
            if k is None:
                return ("unknown", norm(e))
            return self.ev(e.body if k else e.orelse)
        if isinstance(e, ast.Attribute):
            return ("attr", self.ev(e.value), e.attr)
        if isinstance(e, (ast.ListComp, ast.GeneratorExp)) and len(e.generators) == 1 and not e.generators[0].ifs and \
                isinstance(e.generators[0].target, ast.Name):
            it = self.ev(e.generators[0].iter)
            if not isinstance(it, list):
                return ("unknown", norm(e))
            saved = dict(self.env)
            out = []
            for x in it:
                self.env[e.generators[0].target.id] = x
                out.append(self.ev(e.elt))
            self.env = saved
            return out
        if isinstance(e, ast.Subscript):
            v = self.ev(e.value)
            if isinstance(v, list):
                if isinstance(e.slice, ast.Slice):
                    lo = self.ev(e.slice.lower) if e.slice.lower is not None else None
                    hi = self.ev(e.slice.upper) if e.slice.upper is not None else None
                    st = self.ev(e.slice.step) if e.slice.step is not None else None
                    if all(x is None or isinstance(x, int) for x in (lo, hi, st)) and st != 0:
                        return v[lo:hi:st]
                else:
                    k = self.ev(e.slice)
                    if isinstance(k, int) and -len(v) <= k < len(v):
                        return v[k]
            return ("unknown", norm(e))
        if isinstance(e, ast.UnaryOp) and isinstance(e.op, ast.USub) and isinstance(self.ev(e.operand), int):
            return -self.ev(e.operand)
        if isinstance(e, ast.Call):
            fn = norm(e.func)
            args = []
            for a in e.args:
                if isinstance(a, ast.Starred):
                    v = self.ev(a.value)
                    if not isinstance(v, list):
                        return ("unknown", norm(e))
                    args += v
                else:
                    args.append(self.ev(a))
            if fn == "np.meshgrid":
                return ("mesh", args, next((norm(k.value) for k in e.keywords if k.arg == "indexing"), "'xy'"))
            if fn == "np.kron" and len(args) == 2:
                return ("kron", args[0], args[1])
            if fn == "len" and len(args) == 1 and isinstance(args[0], list):
                return len(args[0])
            if fn in ("tuple", "list") and len(args) == 1 and isinstance(args[0], list):
                return args[0]
            if fn == "super().__init__":
                return ("super", args)
            recv = [self.ev(e.func.value)] if isinstance(e.func, ast.Attribute) else []
            return ("call", fn, recv + args)
        return ("unknown", norm(e))

    def run(self, body):
        for s in body:
            if isinstance(s, ast.Assign) and len(s.targets) == 1 and isinstance(s.targets[0], ast.Name):
                self.env[s.targets[0].id] = self.ev(s.value)
            elif isinstance(s, ast.Assign) and len(s.targets) == 1 and isinstance(s.targets[0], (ast.Tuple, ast.List)):
                v = self.ev(s.value)
                for i, t in enumerate(s.targets[0].elts):
                    if isinstance(t, ast.Name):
                        self.env[t.id] = v[i] if isinstance(v, list) and len(v) == len(s.targets[0].elts) else ("unknown", norm(s.value))
            elif isinstance(s, ast.If):
                k = self.fold(s.test)
                if k is None:
                    if s.body and isinstance(s.body[-1], ast.Raise) and not s.orelse:
                        continue  # argument validation
                    raise AnalysisError(f"unrecognised idiom: Tensor1DGrids.__init__ branches on `{norm(s.test)[:60]}`")
                self.run(s.body if k else s.orelse)
            elif isinstance(s, ast.For) and isinstance(s.target, ast.Name):
                it = self.ev(s.iter)
                if not isinstance(it, list):
                    raise AnalysisError(f"unrecognised idiom: Tensor1DGrids.__init__ loops over `{norm(s.iter)[:60]}`")
                for x in it:
                    self.env[s.target.id] = x
                    self.run(s.body)
            elif isinstance(s, ast.Expr) and isinstance(s.value, ast.Call):
                v = self.ev(s.value)
                if isinstance(v, tuple) and v[0] == "super":
                    self.super_args = v[1]
                    self.super_node = s
            elif isinstance(s, (ast.Raise, ast.Return)):
                return


def rule_index_maps(rep, repo):
    """The flat-index maps are a mixed-radix pair: the strides by which `coordinates_to_index`
    multiplies the coordinates must be exactly the divisors by which `index_to_coordinates` peels
    them off, (n1*n2, n2, 1) in 3-D and (n1, 1) in 2-D.  Both tables are evaluated symbolically
    (monomials in the per-axis point counts) for each dimensionality and compared."""
    from gridlint import e7
    fwd = repo.method("_HyperRectangleGrid", "coordinates_to_index")
    inv = repo.method("_HyperRectangleGrid", "index_to_coordinates")
    for nd in (2, 3):
        def helper(name):
            g = repo.resolve_method("_HyperRectangleGrid", name)
            return g.node if g is not None and isinstance(g.node, ast.FunctionDef) and not g.is_property else None
        si = e7.SeqInterp(nd)
        si.resolver = helper
        try:
            si.run(strip_docstring(fwd.node.body))
            if si.ret is None:
                raise e7.SeqInterp.Undecided("no return")
            r = si.ev(si.ret)
        except e7.SeqInterp.Undecided as e:
            raise AnalysisError(f"index maps ({nd}D): cannot evaluate the strides of coordinates_to_index: {e}") from e
        if not (isinstance(r, tuple) and r[0] == "dot" and isinstance(r[2], list)):
            raise AnalysisError("index maps: coordinates_to_index does not return np.dot(indices, strides)")
        strides = r[2]
        if any(x == "uninit" for x in strides) or len(strides) != nd:
            rep.violation("index-map-strides", "cubic._HyperRectangleGrid.coordinates_to_index", f"{nd}D:defined",
                          f"in {nd}D the stride table has {len(strides)} entries / uninitialised entries", fwd.loc())
            continue
        want = []
        acc = si.c(1)
        for k in range(nd - 1, -1, -1):
            want.insert(0, acc)
            acc = si.mul(acc, si.sym(k))
        got_txt = "(" + ", ".join(e7.show_mono_poly(x) for x in strides) + ")"
        want_txt = "(" + ", ".join(e7.show_mono_poly(x) for x in want) + ")"
        if strides == want:
            rep.ok("index-map-strides", f"_HyperRectangleGrid.coordinates_to_index[{nd}D]", fwd.loc(), f"row-major strides {got_txt}")
        else:
            rep.violation("index-map-strides", "cubic._HyperRectangleGrid.coordinates_to_index", f"{nd}D:row-major",
                          f"in {nd}D the flat index is formed with strides {got_txt}; the row-major layout of the points "
                          f"(last index fastest) needs {want_txt}: wrong points are addressed whenever the trailing point "
                          f"counts differ", fwd.loc())
        # inverse: divisors of the floor divisions in the branch taken for this dimensionality
        sj = e7.SeqInterp(nd)
        sj.resolver = helper
        try:
            sj.run(strip_docstring(inv.node.body))
        except e7.SeqInterp.Undecided as e:
            raise AnalysisError(f"index maps ({nd}D): cannot follow index_to_coordinates: {e}") from e
        # the divisors of the floor divisions executed for this dimensionality (branches on the
        # dimension folded, loops over known sequences unrolled)
        divs = list(sj.divisors)
        if not divs:
            raise AnalysisError(f"index maps ({nd}D): index_to_coordinates executes no floor division the analysis can follow")
        divs_sorted = sorted(divs, key=lambda p: -max((sum(e for _, e in m) for m in p), default=0))
        if divs_sorted == strides[:-1] == want[:-1]:
            rep.ok("index-map-strides", f"_HyperRectangleGrid.index_to_coordinates[{nd}D]", inv.loc(),
                   "divisors " + ", ".join(e7.show_mono_poly(x) for x in divs_sorted) + " = forward strides")
        elif strides == want:
            rep.violation("index-map-strides", "cubic._HyperRectangleGrid.index_to_coordinates", f"{nd}D:inverse",
                          f"in {nd}D index_to_coordinates divides by ({', '.join(e7.show_mono_poly(x) for x in divs_sorted)}) but "
                          f"coordinates_to_index multiplies by {got_txt}: the two maps are not inverse to each other",
                          inv.loc())


def rule_cube_exits(rep, repo):
    """`UniformGrid.from_cube` has two exits (grid only / grid and data); both must construct the grid
    from the same values -- in particular the angstrom -> bohr conversion of origin and axes must have
    happened on both.  Value graphs at each return (in-place `*=` is a rebinding in the graph)."""
    from gridlint import e5
    f = repo.method("UniformGrid", "from_cube")
    import copy

    class Unroll(ast.NodeTransformer):
        """`for v in (a, b, c): v *= K` updates the arrays a, b, c in place through the loop variable: unrolled into
        `a *= K; b *= K; c *= K` so that the value graph sees the rebinding; any other in-place update of a loop variable
        is outside what the graph can follow."""
        def visit_For(self, n):
            self.generic_visit(n)
            aug = [x for x in ast.walk(n) if isinstance(x, ast.AugAssign) and isinstance(n.target, ast.Name)
                   and norm(x.target) == n.target.id]
            if not aug:
                return n
            if isinstance(n.iter, (ast.Tuple, ast.List)) and all(isinstance(e_, ast.Name) for e_ in n.iter.elts) and \
                    not n.orelse and all(isinstance(b_, ast.AugAssign) and norm(b_.target) == n.target.id for b_ in n.body):
                out = []
                for e_ in n.iter.elts:
                    for b_ in n.body:
                        c_ = copy.deepcopy(b_)
                        c_.target = ast.copy_location(ast.Name(id=e_.id, ctx=ast.Store()), b_.target)
                        out.append(c_)
                return out
            raise AnalysisError(f"unrecognised idiom in from_cube: the loop variable `{n.target.id}` is updated in place "
                                f"(`{norm(aug[0])[:50]}`); cannot tell which arrays are converted at each exit")
    node = ast.fix_missing_locations(Unroll().visit(copy.deepcopy(f.node)))
    vg = e5.VG(repo, "UniformGrid", node, inline=False)
    vg.run(strip_docstring(node.body))
    if vg.ret is None:
        raise AnalysisError("unrecognised idiom: from_cube has no return value graph")
    ctor = []

    def walk(t):
        if isinstance(t, tuple):
            if len(t) == 4 and t[0] == "call" and e5.show(t[1]) in ("cls", "UniformGrid"):
                if t not in ctor:
                    ctor.append(t)
                return
            for x in t:
                walk(x)
    walk(vg.ret)
    cons = "cubic.UniformGrid.from_cube"
    if not ctor:
        raise AnalysisError("unrecognised idiom: from_cube does not return cls(...)")
    if len(ctor) == 1:
        rep.ok("cube-reader-exits-agree", "UniformGrid.from_cube", f.loc(),
               "every exit returns the same constructed grid: " + e5.show(ctor[0], 100))
        return
    d = e5.diff(ctor[0], ctor[1])
    rep.violation("cube-reader-exits-agree", cons, "grid",
                  f"the grid returned with return_data=False is built from {e5.show(d[1], 110)} where the one returned "
                  f"with return_data=True uses {e5.show(d[2], 110)}: the same cube file gives two different grids (e.g. a "
                  f"unit conversion applied on one exit only)", f.loc(), [f"first differing node at {d[0]}"])


def rule_molecule_box(rep, repo):
    """`UniformGrid.from_molecule`: the box must contain every nucleus with the requested margin (less
    one spacing).  Its size is the atomic extent plus twice the extension, so its lower corner is
    determined, up to one spacing, by the lower (or upper) bound of the projected atomic coordinates.
    Necessary condition checked on the value graph: the origin handed to the constructor depends on
    `min`/`max` of the coordinates by a path that does not go through the point counts (the counts only
    see the difference max - min, which carries no position)."""
    from gridlint import e5
    f = repo.method("UniformGrid", "from_molecule")
    vg = e5.VG(repo, "UniformGrid", f.node, inline=False)
    vg.run(strip_docstring(f.node.body))
    r = vg.ret
    if r is None or r[0] != "call" or e5.show(r[1]) not in ("cls", "UniformGrid"):
        raise AnalysisError("unrecognised idiom: from_molecule does not return cls(origin, axes, shape, ...)")
    init = repo.method("UniformGrid", "__init__")
    names = init.params[1:]
    bound = dict(zip(names, r[2]))
    bound.update(dict(r[3]))
    if "origin" not in bound or "shape" not in bound:
        raise AnalysisError("unrecognised idiom: from_molecule does not pass origin and shape")
    origin, shape = bound["origin"], bound["shape"]
    cut = e5._subst(origin, shape, ("sym", "POINT_COUNTS"))
    # also cut the un-converted count expression (shape before np.array(..., int) / np.ceil)
    inner = shape
    while isinstance(inner, tuple) and inner and inner[0] == "call" and len(inner[2]) >= 1 and \
            e5.show(inner[1]) in ("np.array", "np.ceil", "np.asarray", "np.rint", "np.floor"):
        inner = inner[2][0]
        cut = e5._subst(cut, inner, ("sym", "POINT_COUNTS"))
    anchors = []

    def walk(t):
        if isinstance(t, tuple):
            if t and t[0] == "call" and e5.show(t[1]).split(".")[-1] in ("amin", "amax", "min", "max") and t[2]:
                anchors.append(e5.show(t[1]))
            for x in t:
                walk(x)
    walk(cut)
    cons = "cubic.UniformGrid.from_molecule"
    if anchors:
        rep.ok("molecule-box-anchored-to-extent", "UniformGrid.from_molecule", f.loc(),
               f"origin depends on {sorted(set(anchors))} of the atomic coordinates")
    else:
        rep.violation("molecule-box-anchored-to-extent", cons, "origin",
                      f"the origin is {e5.show(cut, 150)}: apart from the point counts (which only see max - min) it does "
                      f"not depend on the lower or upper bound of the atomic coordinates, so the box is centred on the "
                      f"centre of nuclear charge instead of on the atomic extent -- for an asymmetric molecule nuclei end "
                      f"up outside the box (e.g. charges 100 and 1 at x = 0 and 10, extension 5: the second nucleus is "
                      f"0.4 outside)", f.loc())


def _branch_for_dim(fn, nd):
    body = strip_docstring(fn.body)
    for i, s in enumerate(body):
        if isinstance(s, ast.If) and norm(s.test) in ("self.ndim == 3", "len(self.shape) == 3"):
            return s.body if nd == 3 else (s.orelse or body[i + 1:])
        if isinstance(s, ast.If) and norm(s.test) in ("self.ndim == 2", "len(self.shape) == 2"):
            return s.body if nd == 2 else (s.orelse or body[i + 1:])
    return body


def run(tier="quick", root="/repo", evidence_dir=None, quiet=False):
    rep = Report(PROP, tier, root, EXPLANATION, RULE, assumptions=[
        "the guards listed in the checker (dim == 3, self.ndim == 3, len(shape) == 3, oned_z is not None and the "
        "complements of the == 2 / != 3 forms) are the idioms by which cubic.py distinguishes 2-D from 3-D",
    ])
    repo = get_repo(root)
    mi = repo.modules.get("cubic")
    if mi is None:
        raise AnalysisError("anchor vanished: module cubic")
    for c in ("_HyperRectangleGrid", "Tensor1DGrids", "UniformGrid"):
        repo.cls(c)
    n_constructs = 0
    scope = [f for q, f in repo.funcs.items() if f.module == "cubic" and f.parent is None and f.cls is not None]
    for f in scope:
        if f.qual in EXCLUDED:
            rep.note(f"{f.qual} excluded: {EXCLUDED[f.qual]}")
            continue
        helpers = helper_axis_params(f.node)
        for node, guards, desc in third_axis_constructs(f.node, helpers):
            n_constructs += 1
            where = repo.rel("cubic", node)
            enclosing = _enclosing_branch_key(f.node, node)
            cons = f"{f.qual}{enclosing}"
            if e6.implies(guards, POS, NEG) or any(_three_d(t, p) for t, p in guards):
                g = [t for t, p in guards if (p and t in POS) or (not p and t in NEG) or _three_d(t, p)]
                rep.ok("third-axis-guarded", f"{cons}::{norm(node)[:40]}", where, f"dominated by {g[0]!r}")
            else:
                rep.violation("third-axis-guarded", cons, norm(node)[:60],
                              f"{desc} is evaluated without a dominating three-dimensional test: in a two-dimensional "
                              f"grid this raises IndexError/ValueError", where,
                              [f"guards in force: {[(t, p) for t, p in guards][:6]}"])
    rep.floor("third-axis constructs in scope", n_constructs, 10)
    # weight-scheme dispatch: keys handled == keys documented
    f = repo.method("UniformGrid", "_choose_weight_scheme")
    from gridlint import e4
    d = e4.string_dispatch(f.node.body, "weight")
    if d is None:
        raise AnalysisError("unrecognised idiom: _choose_weight_scheme has no `weight == \"...\"` chain")
    chain, else_body, node = d
    keys = [k for k, _ in chain]
    doc = ast.get_docstring(repo.method("UniformGrid", "__init__").node) or ""
    for k in keys:
        body = dict(chain)[k]
        returns = any(isinstance(x, ast.Return) and x.value is not None for s in body for x in ast.walk(s))
        if returns:
            rep.ok("weight-scheme-returns", f"UniformGrid._choose_weight_scheme[{k}]", repo.rel("cubic", body[0]), "")
        else:
            rep.violation("weight-scheme-returns", "cubic.UniformGrid._choose_weight_scheme", k,
                          f"branch for weight scheme {k!r} does not return weights", repo.rel("cubic", body[0]))
        if k not in doc:
            rep.note(f"weight scheme {k!r} is handled but not documented in UniformGrid.__init__")
    if not (else_body and isinstance(else_body[-1], ast.Raise)):
        rep.violation("weight-scheme-returns", "cubic.UniformGrid._choose_weight_scheme", "else",
                      "unknown weight names are not rejected", repo.rel("cubic", node))
    rep.floor("weight schemes", len(keys), 5)
    rep.attempt(rule_layout, rep, repo)
    rep.attempt(rule_index_maps, rep, repo)
    rep.attempt(rule_cube_exits, rep, repo)
    rep.attempt(rule_molecule_box, rep, repo)
    from gridlint import logderiv
    rep.attempt(logderiv.rule_log_derivative, rep, repo)
    rep.extra.update({"functions_in_scope": len(scope), "weight_schemes": keys, "source_digest": repo.digest(["cubic"])})
    return rep.finish(evidence_dir=evidence_dir, quiet=quiet)


def _enclosing_branch_key(fn_node, node):
    """Stable (position independent) label of the string-dispatch branch containing the node."""
    for s in ast.walk(fn_node):
        if isinstance(s, ast.If) and isinstance(s.test, ast.Compare) and isinstance(s.test.comparators[0], ast.Constant) \
                and isinstance(s.test.comparators[0].value, str) and isinstance(s.test.ops[0], ast.Eq):
            if any(x is node for b in s.body for x in ast.walk(b)):
                return f"[{s.test.comparators[0].value}]"
    return ""
