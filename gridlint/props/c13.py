"""C13 -- rectilinear grids: "constructs in both dimensions" (guard dominance); the rest declined.

On the code reachable from the 2-D-capable constructors every *third-axis construct* -- a constant
subscript 2 on a dimension-indexed sequence, a call passing the constant 2 to a helper parameter
that subscripts ``shape``, an einsum operand with three subscript letters -- must be dominated by
a test implying three dimensions.
"""
from __future__ import annotations

import ast

from gridlint import e6
from gridlint.core import AnalysisError, Report, norm, strip_docstring
from gridlint.props.common import get_repo

PROP = "C13"
EXPLANATION = (
    "Guard-dominance analysis over cubic.py: every construct that only exists in three dimensions "
    "(constant index 2 into shape/axes/point columns, a helper call selecting axis 2, an einsum over "
    "three grid axes, use of the optional third 1-D grid) must be dominated by a condition implying "
    "ndim == 3 (enclosing if, else of a ==2 test, or an earlier raise/return on the complement).  "
    "This is a necessary condition of 'every documented weighting scheme constructs in both "
    "dimensions' and of the 2-D index maps.  Also checks that the weight-scheme dispatch handles "
    "exactly the documented names, and -- with a symbolic array-shape domain analysed once per "
    "dimensionality -- that every scheme returns the C-order flattening of an array whose axes are "
    "(shape[0], shape[1][, shape[2]]) (or a uniform vector), i.e. that tensor weights follow the point "
    "layout for non-cubic shapes.  NOT decided: index-map inversion arithmetic, weights summing to "
    "the volume, nearest point, molecule margin, cube round trip, spline reproduction (numerical).")
RULE = "one instance per third-axis construct in the 2-D-capable functions; one per weight-scheme key"

POS = {"dim == 3", "self.ndim == 3", "len(shape) == 3", "len(self.shape) == 3", "len(self._shape) == 3",
       "oned_z is not None", "ndim == 3", "self._origin.size == 3", "origin.size == 3", "3 == dim",
       "points.shape[1] == 3", "index == 2"}
NEG = {"dim == 2", "self.ndim == 2", "len(shape) == 2", "len(self.shape) == 2", "oned_z is None", "ndim == 2",
       "self.ndim != 3", "dim != 3", "len(shape) != 3", "len(self.shape) != 3", "ndim != 3", "dim < 3",
       "self.ndim < 3"}

# 3-D by definition (one symbol each, with reason)
EXCLUDED = {
    "cubic.UniformGrid.from_molecule": "molecular geometries are three-dimensional by definition",
    "cubic.UniformGrid.from_cube": "the cube file format is three-dimensional by definition",
    "cubic.UniformGrid.generate_cube": "the cube file format is three-dimensional by definition",
}

DIM_SEQS = ("shape", "axes", "origin", "points", "coords", "strides", "_shape", "_axes", "_origin")


_DIMEXPR = r"(?:[\w\.]*ndim|[\w\.]*dim|len\([\w\.]*shape\)|len\([\w\.]*axes\)|[\w\.]*origin\.size|[\w\.]+\.shape\[1\])"


def _three_d(test, polarity):
    """Does the guard (with its polarity) imply three dimensions?  Accepts any spelling of a
    comparison between a dimension expression and the literals 2 / 3."""
    import re
    t = test.strip()
    m = re.fullmatch(_DIMEXPR + r" (==|!=|>|>=|<|<=) (\d)", t) or None
    if m is None:
        m2 = re.fullmatch(r"(\d) (==|!=|>|>=|<|<=) " + _DIMEXPR, t)
        if m2 is None:
            return False
        flip = {"==": "==", "!=": "!=", ">": "<", ">=": "<=", "<": ">", "<=": ">="}
        op, k = flip[m2.group(2)], int(m2.group(1))
    else:
        op, k = m.group(1), int(m.group(2))
    # dimensions are 2 or 3 in this module
    sat = {d for d in (2, 3) if eval(f"{d} {op} {k}")}  # noqa: S307 - literal integers only
    chosen = sat if polarity else {2, 3} - sat
    return chosen == {3}


def _is_const2(n):
    return isinstance(n, ast.Constant) and n.value == 2 and not isinstance(n.value, bool)


def third_axis_constructs(fn_node, helper_axis_params):
    """[(node, guards, description)]"""
    out = []
    for n, g in e6.guarded_nodes(fn_node):
        if isinstance(n, ast.Subscript):
            sl = n.slice
            base = norm(n.value)
            idx2 = _is_const2(sl) or (isinstance(sl, ast.Tuple) and sl.elts and _is_const2(sl.elts[-1]))
            if idx2 and any(t in base for t in DIM_SEQS):
                out.append((n, g, f"third entry of a per-dimension sequence: `{norm(n)[:50]}`"))
        elif isinstance(n, ast.Call):
            fn = norm(n.func)
            if fn in helper_axis_params:
                pos = helper_axis_params[fn]
                if pos < len(n.args) and _is_const2(n.args[pos]):
                    out.append((n, g, f"helper call selecting the third axis: `{norm(n)[:50]}`"))
            if fn in ("np.einsum", "numpy.einsum") and n.args and isinstance(n.args[0], ast.Constant) \
                    and isinstance(n.args[0].value, str):
                spec = n.args[0].value.replace(" ", "")
                outp = spec.split("->")[-1] if "->" in spec else ""
                ops = spec.split("->")[0].split(",")
                if any(len(o) == 3 for o in ops) and len(outp) == 3:
                    out.append((n, g, f"einsum over three grid axes: `{spec}`"))
        elif isinstance(n, ast.Attribute) and isinstance(n.value, ast.Name) and n.value.id == "oned_z":
            out.append((n, g, f"use of the optional third 1-D grid: `{norm(n)}`"))
    return out


def helper_axis_params(fn_node):
    """Nested helpers whose parameter is used as an index into ``shape``: name -> arg position."""
    out = {}
    for n in ast.walk(fn_node):
        if isinstance(n, ast.FunctionDef) and n is not fn_node:
            params = [a.arg for a in n.args.args]
            for s in ast.walk(n):
                if isinstance(s, ast.Subscript) and isinstance(s.slice, ast.Name) and s.slice.id in params and \
                        "shape" in norm(s.value):
                    out[n.name] = params.index(s.slice.id)
    return out


def rule_layout(rep, repo):
    """Tensor layout of the weights (symbolic shape domain, once per dimensionality): every weighting
    scheme must return, in 2-D and in 3-D, either a uniform vector of length prod(shape) or the C-order
    flattening of an array whose axes are exactly (shape[0], shape[1][, shape[2]]) -- the layout of the
    points (last index fastest).  A transposed or wrongly broadcast weight array pairs weights with the
    wrong points for every non-cubic shape."""
    from gridlint import e4, e7
    f = repo.method("UniformGrid", "_choose_weight_scheme")
    d = e4.string_dispatch(f.node.body, "weight")
    chain, else_body, node = d
    shape_param = f.params[2] if len(f.params) > 2 else "shape"
    for key, body in chain:
        for nd in (2, 3):
            si = e7.ShapeInterp(nd, f.node, shape_names=(shape_param,))
            si.run(body)
            cons = f"cubic.UniformGrid._choose_weight_scheme[{key}]"
            where = repo.rel("cubic", body[0])
            want = tuple(("n", k, 0) for k in range(nd))
            probs = [p for p in si.problems]
            if probs:
                kind, text, pnode = probs[0]
                rep.violation("tensor-weight-layout", cons, f"{nd}D:{kind}",
                              f"in {nd} dimensions: {text}" + (" -- axis beyond the grid's dimension" if kind == "axis" else ""),
                              repo.rel("cubic", pnode))
                continue
            if not si.returns:
                raise AnalysisError(f"shape analysis: weight scheme {key!r} returns nothing in {nd}D")
            r = si.returns[0]
            if r == ("arr", (("prod",),)):
                rep.ok("tensor-weight-layout", f"{cons}:{nd}D", where, "uniform vector of length prod(shape)")
            elif r[0] == "arr" and len(r[1]) == 1 and isinstance(r[1][0], tuple) and r[1][0][0] == "ravel":
                got = r[1][0][1]
                if got == want:
                    rep.ok("tensor-weight-layout", f"{cons}:{nd}D", where, "ravel of " + e7.show_shape(("arr", got)))
                else:
                    rep.violation("tensor-weight-layout", cons, f"{nd}D:axes",
                                  f"in {nd} dimensions the scheme flattens an array with axes {e7.show_shape(('arr', got))} "
                                  f"but the points are laid out over {e7.show_shape(('arr', want))} (last index fastest): "
                                  f"weights are paired with the wrong points unless all point counts are equal", where)
            elif r == e7.UNKNOWN:
                raise AnalysisError(f"shape analysis cannot determine the shape returned by weight scheme {key!r} in {nd}D")
            else:
                rep.violation("tensor-weight-layout", cons, f"{nd}D:shape",
                              f"in {nd} dimensions the scheme returns an array of shape {e7.show_shape(r)}; expected a "
                              f"vector of length prod(shape)", where)
    # Tensor1DGrids: kron nesting order must follow the meshgrid('ij') argument order
    t = repo.method("Tensor1DGrids", "__init__")
    n = 0
    for st in ast.walk(t.node):
        if isinstance(st, ast.If):
            meshes = [c for b in st.body for c in ast.walk(b) if isinstance(c, ast.Call) and norm(c.func) == "np.meshgrid"]
            for branch in (st.body, st.orelse):
                mesh = [c for b in branch for c in ast.walk(b) if isinstance(c, ast.Call) and norm(c.func) == "np.meshgrid"]
                kron = [b.value for b in branch if isinstance(b, ast.Assign) and isinstance(b.value, ast.Call)
                        and norm(b.value.func) == "np.kron"]
                if not mesh or not kron:
                    continue
                n += 1
                order_pts = [norm(a).replace(".points", "") for a in mesh[0].args]
                indexing = next((norm(k.value) for k in mesh[0].keywords if k.arg == "indexing"), "'xy'")

                def flat(k):
                    out = []
                    for a in k.args:
                        if isinstance(a, ast.Call) and norm(a.func) == "np.kron":
                            out += flat(a)
                        else:
                            out.append(norm(a).replace(".weights", ""))
                    return out
                order_w = flat(kron[0])
                cons = "cubic.Tensor1DGrids.__init__"
                if indexing == "'ij'" and order_pts == order_w:
                    rep.ok("tensor-weight-layout", f"{cons}:{len(order_w)}D", repo.rel("cubic", kron[0]),
                           f"meshgrid('ij') over {order_pts}, kron over {order_w}")
                else:
                    rep.violation("tensor-weight-layout", cons, f"{len(order_w)}D",
                                  f"points enumerate meshgrid({', '.join(order_pts)}, indexing={indexing}) but weights are "
                                  f"kron({', '.join(order_w)}): the product weight of node (i, j[, k]) is attached to another "
                                  f"node", repo.rel("cubic", kron[0]))
    rep.floor("tensor-product branches of Tensor1DGrids", n, 2)


def rule_index_maps(rep, repo):
    """The flat-index maps are a mixed-radix pair: the strides by which `coordinates_to_index`
    multiplies the coordinates must be exactly the divisors by which `index_to_coordinates` peels
    them off, (n1*n2, n2, 1) in 3-D and (n1, 1) in 2-D.  Both tables are evaluated symbolically
    (monomials in the per-axis point counts) for each dimensionality and compared."""
    from gridlint import e7
    fwd = repo.method("_HyperRectangleGrid", "coordinates_to_index")
    inv = repo.method("_HyperRectangleGrid", "index_to_coordinates")
    for nd in (2, 3):
        si = e7.SeqInterp(nd)
        try:
            si.run(strip_docstring(fwd.node.body))
            if si.ret is None:
                raise e7.SeqInterp.Undecided("no return")
            r = si.ev(si.ret)
        except e7.SeqInterp.Undecided as e:
            raise AnalysisError(f"index maps ({nd}D): cannot evaluate the strides of coordinates_to_index: {e}") from e
        if not (isinstance(r, tuple) and r[0] == "dot" and isinstance(r[2], list)):
            raise AnalysisError("index maps: coordinates_to_index does not return np.dot(indices, strides)")
        strides = r[2]
        if any(x == "uninit" for x in strides) or len(strides) != nd:
            rep.violation("index-map-strides", "cubic._HyperRectangleGrid.coordinates_to_index", f"{nd}D:defined",
                          f"in {nd}D the stride table has {len(strides)} entries / uninitialised entries", fwd.loc())
            continue
        want = []
        acc = si.c(1)
        for k in range(nd - 1, -1, -1):
            want.insert(0, acc)
            acc = si.mul(acc, si.sym(k))
        got_txt = "(" + ", ".join(e7.show_mono_poly(x) for x in strides) + ")"
        want_txt = "(" + ", ".join(e7.show_mono_poly(x) for x in want) + ")"
        if strides == want:
            rep.ok("index-map-strides", f"_HyperRectangleGrid.coordinates_to_index[{nd}D]", fwd.loc(), f"row-major strides {got_txt}")
        else:
            rep.violation("index-map-strides", "cubic._HyperRectangleGrid.coordinates_to_index", f"{nd}D:row-major",
                          f"in {nd}D the flat index is formed with strides {got_txt}; the row-major layout of the points "
                          f"(last index fastest) needs {want_txt}: wrong points are addressed whenever the trailing point "
                          f"counts differ", fwd.loc())
        # inverse: divisors of the floor divisions in the branch taken for this dimensionality
        sj = e7.SeqInterp(nd)
        try:
            sj.run(strip_docstring(inv.node.body))
        except e7.SeqInterp.Undecided as e:
            raise AnalysisError(f"index maps ({nd}D): cannot follow index_to_coordinates: {e}") from e
        divs = []
        branch = _branch_for_dim(inv.node, nd)
        for n in ast.walk(ast.Module(body=branch, type_ignores=[])):
            if isinstance(n, ast.BinOp) and isinstance(n.op, ast.FloorDiv):
                try:
                    divs.append(sj.ev(n.right))
                except e7.SeqInterp.Undecided as e:
                    raise AnalysisError(f"index maps ({nd}D): divisor `{norm(n.right)}`: {e}") from e
        divs_sorted = sorted(divs, key=lambda p: -max((sum(e for _, e in m) for m in p), default=0))
        if divs_sorted == strides[:-1] == want[:-1]:
            rep.ok("index-map-strides", f"_HyperRectangleGrid.index_to_coordinates[{nd}D]", inv.loc(),
                   "divisors " + ", ".join(e7.show_mono_poly(x) for x in divs_sorted) + " = forward strides")
        elif strides == want:
            rep.violation("index-map-strides", "cubic._HyperRectangleGrid.index_to_coordinates", f"{nd}D:inverse",
                          f"in {nd}D index_to_coordinates divides by ({', '.join(e7.show_mono_poly(x) for x in divs_sorted)}) but "
                          f"coordinates_to_index multiplies by {got_txt}: the two maps are not inverse to each other",
                          inv.loc())


def _branch_for_dim(fn, nd):
    body = strip_docstring(fn.body)
    for i, s in enumerate(body):
        if isinstance(s, ast.If) and norm(s.test) in ("self.ndim == 3", "len(self.shape) == 3"):
            return s.body if nd == 3 else (s.orelse or body[i + 1:])
        if isinstance(s, ast.If) and norm(s.test) in ("self.ndim == 2", "len(self.shape) == 2"):
            return s.body if nd == 2 else (s.orelse or body[i + 1:])
    return body


def run(tier="quick", root="/repo", evidence_dir=None, quiet=False):
    rep = Report(PROP, tier, root, EXPLANATION, RULE, assumptions=[
        "the guards listed in the checker (dim == 3, self.ndim == 3, len(shape) == 3, oned_z is not None and the "
        "complements of the == 2 / != 3 forms) are the idioms by which cubic.py distinguishes 2-D from 3-D",
    ])
    repo = get_repo(root)
    mi = repo.modules.get("cubic")
    if mi is None:
        raise AnalysisError("anchor vanished: module cubic")
    for c in ("_HyperRectangleGrid", "Tensor1DGrids", "UniformGrid"):
        repo.cls(c)
    n_constructs = 0
    scope = [f for q, f in repo.funcs.items() if f.module == "cubic" and f.parent is None and f.cls is not None]
    for f in scope:
        if f.qual in EXCLUDED:
            rep.note(f"{f.qual} excluded: {EXCLUDED[f.qual]}")
            continue
        helpers = helper_axis_params(f.node)
        for node, guards, desc in third_axis_constructs(f.node, helpers):
            n_constructs += 1
            where = repo.rel("cubic", node)
            enclosing = _enclosing_branch_key(f.node, node)
            cons = f"{f.qual}{enclosing}"
            if e6.implies(guards, POS, NEG) or any(_three_d(t, p) for t, p in guards):
                g = [t for t, p in guards if (p and t in POS) or (not p and t in NEG) or _three_d(t, p)]
                rep.ok("third-axis-guarded", f"{cons}::{norm(node)[:40]}", where, f"dominated by {g[0]!r}")
            else:
                rep.violation("third-axis-guarded", cons, norm(node)[:60],
                              f"{desc} is evaluated without a dominating three-dimensional test: in a two-dimensional "
                              f"grid this raises IndexError/ValueError", where,
                              [f"guards in force: {[(t, p) for t, p in guards][:6]}"])
    rep.floor("third-axis constructs in scope", n_constructs, 10)
    # weight-scheme dispatch: keys handled == keys documented
    f = repo.method("UniformGrid", "_choose_weight_scheme")
    from gridlint import e4
    d = e4.string_dispatch(f.node.body, "weight")
    if d is None:
        raise AnalysisError("unrecognised idiom: _choose_weight_scheme has no `weight == \"...\"` chain")
    chain, else_body, node = d
    keys = [k for k, _ in chain]
    doc = ast.get_docstring(repo.method("UniformGrid", "__init__").node) or ""
    for k in keys:
        body = dict(chain)[k]
        returns = any(isinstance(x, ast.Return) and x.value is not None for s in body for x in ast.walk(s))
        if returns:
            rep.ok("weight-scheme-returns", f"UniformGrid._choose_weight_scheme[{k}]", repo.rel("cubic", body[0]), "")
        else:
            rep.violation("weight-scheme-returns", "cubic.UniformGrid._choose_weight_scheme", k,
                          f"branch for weight scheme {k!r} does not return weights", repo.rel("cubic", body[0]))
        if k not in doc:
            rep.note(f"weight scheme {k!r} is handled but not documented in UniformGrid.__init__")
    if not (else_body and isinstance(else_body[-1], ast.Raise)):
        rep.violation("weight-scheme-returns", "cubic.UniformGrid._choose_weight_scheme", "else",
                      "unknown weight names are not rejected", repo.rel("cubic", node))
    rep.floor("weight schemes", len(keys), 5)
    rep.attempt(rule_layout, rep, repo)
    rep.attempt(rule_index_maps, rep, repo)
    rep.extra.update({"functions_in_scope": len(scope), "weight_schemes": keys, "source_digest": repo.digest(["cubic"])})
    return rep.finish(evidence_dir=evidence_dir, quiet=quiet)


def _enclosing_branch_key(fn_node, node):
    """Stable (position independent) label of the string-dispatch branch containing the node."""
    for s in ast.walk(fn_node):
        if isinstance(s, ast.If) and isinstance(s.test, ast.Compare) and isinstance(s.test.comparators[0], ast.Constant) \
                and isinstance(s.test.comparators[0].value, str) and isinstance(s.test.ops[0], ast.Eq):
            if any(x is node for b in s.body for x in ast.walk(b)):
                return f"[{s.test.comparators[0].value}]"
    return ""
