"""C10 -- local grids and selection.

R1 definite fields: for every concrete Grid subclass and every method visible on it through the
   MRO, each ``self.<field>`` read is definitely assigned on the class's construction path
   (reads during construction included).
R2 property vs raw field: when a subclass overrides property P with a getter that is not a plain
   ``return self._P``, no method inherited by that subclass may read ``self._P`` directly.
R3 memo invalidation: a field initialised to None and filled under ``if self.F is None`` from other
   fields G is a memo; every non-constructor writer of G must reset F.
R4 index arrays from lists: ``np.array(<query_ball_point(...)>)`` used as a subscript must carry an
   integer dtype or be guarded for emptiness.
R5 integer kinds: the integer test of each ``__getitem__`` admits NumPy integers.
R6 selection re-wrapping: each own ``__getitem__`` rebuilds its own class from the selected points
   and weights and forwards every stored constructor parameter.
R7 both radius branches of ``get_localgrid`` build the LocalGrid from the same sources.
"""
from __future__ import annotations

import ast
import re

from gridlint import e3, e6
from gridlint.core import AnalysisError, Report, norm, strip_docstring
from gridlint.props.common import get_repo

PROP = "C10"
EXPLANATION = (
    "Class-state analysis over the resolved hierarchy (MRO, property overrides): definite field "
    "assignment on every constructor path versus field reads of every method visible on every "
    "concrete Grid subclass (35 classes x inherited methods), raw-field use under overridden "
    "properties, memo-field invalidation by every writer (covers all histories of queries and "
    "reassignments), dtype/emptiness of index arrays built from Python lists, integer kinds "
    "accepted by __getitem__, and re-wrapping in selection.  Necessary conditions of the "
    "statement; the geometric content (which points lie in the sphere) is delegated to cKDTree and "
    "not decided.")
RULE = ("instances = (concrete class x visible method) pairs for R1/R2, memo fields x writers for R3, "
        "index-array sites for R4, __getitem__ definitions for R5/R6, localgrid methods for R7")


def concrete_grid_classes(repo):
    repo.cls("Grid")
    return [c for c in repo.subclasses("Grid") if not repo.is_abstract_class(c)]


def rule_r1(rep, repo):
    classes = concrete_grid_classes(repo)
    n = 0
    for c in classes:
        fields, probs = e3.init_fields(repo, c)
        seen = set()
        for fld, fq, node, chain in probs:
            key = (fld, fq)
            if key in seen:
                continue
            seen.add(key)
            rep.violation("R1.definite-fields", fq, f"{c}:{fld}:construction",
                          f"while constructing {c}, `self.{fld}` is read in {fq} before it is assigned "
                          f"(AttributeError)", repo.rel(repo.funcs[fq].module, node),
                          [" -> ".join(chain)])
        for name, f in sorted(e3.reachable_methods(repo, c).items()):
            if name == "__init__" or e3.unconditional_raise(f) or f.is_static or f.is_classmethod:
                continue
            base = name.split(".")[0]
            if base.startswith("_") and not (base.startswith("__") and base.endswith("__")):
                continue  # private helpers are checked through the public methods that call them
            n += 1
            pr = e3.method_reads(repo, c, f, fields)
            seen = set()
            bad = False
            for fld, fq, node, chain in pr:
                if (fld, fq) in seen:
                    continue
                seen.add((fld, fq))
                bad = True
                rep.violation(
                    "R1.definite-fields", fq, f"{c}:{fld}",
                    f"`self.{fld}` is read by {fq} (reached as {c}.{name}) but no constructor path of {c} "
                    f"assigns it: the call raises AttributeError on every {c} instance",
                    repo.rel(repo.funcs[fq].module, node),
                    [f"{c}.__init__ assigns {sorted(fields)}", " -> ".join(chain)])
            if not bad:
                rep.ok("R1.definite-fields", f"{c}.{name}", f.loc(), f"defined in {f.cls or f.qual}",
                       nontrivial=True)
    rep.floor("concrete Grid classes", len(classes), 30)
    rep.floor("(class, method) pairs", n, 300)
    return classes


def _trivial_getter(f, fieldname):
    body = strip_docstring(f.node.body)
    return len(body) == 1 and isinstance(body[0], ast.Return) and norm(body[0].value) == f"self.{fieldname}"


def rule_r2(rep, repo, classes):
    n = 0
    for c in classes:
        meths = e3.reachable_methods(repo, c)
        for pname, g in meths.items():
            if not g.is_property:
                continue
            raw = "_" + pname
            # is there an ancestor whose getter is the plain `return self._P`?
            plain_anc = [k for k in repo.mro(c)[1:] if pname in repo.classes[k].methods
                         and repo.classes[k].methods[pname].is_property
                         and _trivial_getter(repo.classes[k].methods[pname], raw)]
            if not plain_anc or _trivial_getter(g, raw):
                continue
            # c (or an ancestor before plain_anc) redefines P non-trivially: inherited code from
            # classes at or above the plain definition must not read self._P directly
            owner = g.cls
            live = e3.called_from_public(repo, c)
            for mname, f in meths.items():
                if f.cls is None or f.cls == owner or mname in ("__init__",) or f.qual not in live:
                    continue
                if owner in repo.mro(f.cls):  # defined in a subclass of the overriding class: knows
                    continue
                if e3.unconditional_raise(f):
                    continue
                selfname = e3.FieldFlow._selfname(f)
                reads = [x for x in ast.walk(f.node) if e3.self_attr(x, selfname) and x.attr == raw
                         and isinstance(x.ctx, ast.Load)]
                n += 1
                if reads:
                    rep.violation(
                        "R2.raw-field-under-overridden-property", f.qual, f"{c}:{raw}",
                        f"{f.qual} reads `self.{raw}` directly, but {owner} overrides the property "
                        f"`{pname}` as `{norm(strip_docstring(g.node.body)[-1])[:60]}`; on a {c} the method answers "
                        f"for the wrong {pname}", repo.rel(f.module, reads[0]),
                        [f"{len(reads)} raw reads in {f.qual}", f"override at {g.loc()}"])
                else:
                    rep.ok("R2.raw-field-under-overridden-property", f"{c}.{mname}:{raw}", f.loc(), "")
    rep.floor("R2 (overriding class, inherited method) pairs", n, 5)


def find_memo_fields(repo, cname):
    """[(F, method, assign stmt, value expr)] for `if self.F is None: self.F = <expr>`."""
    out = []
    for mname, f in repo.classes[cname].methods.items():
        if mname == "__init__":
            continue
        for s in ast.walk(f.node):
            if isinstance(s, ast.If) and isinstance(s.test, ast.Compare) and len(s.test.ops) == 1 and \
                    isinstance(s.test.ops[0], ast.Is) and isinstance(s.test.comparators[0], ast.Constant) and \
                    s.test.comparators[0].value is None and e3.self_attr(s.test.left):
                fld = s.test.left.attr
                for b in s.body:
                    if isinstance(b, ast.Assign) and any(e3.self_attr(t) and t.attr == fld for t in b.targets):
                        out.append((fld, f, b))
    return out


def rule_r3(rep, repo, classes):
    n = 0
    done = set()
    for k in list(repo.subclasses("Grid")):
        for fld, f, assign in find_memo_fields(repo, k):
            if (k, fld, f.qual) in done:
                continue
            done.add((k, fld, f.qual))
            # initialised to None in a constructor of k's hierarchy?
            inits = [g for c in repo.mro(k) for n_, g in repo.classes[c].methods.items() if n_ == "__init__"]
            init_none = any(isinstance(s, ast.Assign) and any(e3.self_attr(t) and t.attr == fld for t in s.targets)
                            and isinstance(s.value, ast.Constant) and s.value.value is None
                            for g in inits for s in ast.walk(g.node))
            # dependencies: fields read by the value expression (through receiver methods)
            # (reads that only look at the *shape* of a field are no value dependency: the setters
            # enforce equal shapes, which R3b checks)
            exprs = [assign.value]
            names_done = set()
            grew = True
            while grew:  # follow local variables back to their definitions (flow-insensitive)
                grew = False
                for ex in list(exprs):
                    for x in ast.walk(ex):
                        if isinstance(x, ast.Name) and x.id not in names_done:
                            names_done.add(x.id)
                            for st in ast.walk(f.node):
                                if not isinstance(st, ast.Assign):
                                    continue
                                for t in st.targets:
                                    if isinstance(t, ast.Name) and t.id == x.id:
                                        exprs.append(st.value)
                                        grew = True
                                    elif isinstance(t, (ast.Tuple, ast.List)):
                                        for i, el in enumerate(t.elts):
                                            if isinstance(el, ast.Name) and el.id == x.id:
                                                if isinstance(st.value, (ast.Tuple, ast.List)) and \
                                                        len(st.value.elts) == len(t.elts):
                                                    exprs.append(st.value.elts[i])
                                                else:
                                                    exprs.append(st.value)
                                                grew = True
            tmp_mod = ast.Module(body=[ast.Expr(value=ex) for ex in exprs], type_ignores=[])
            deps = e3.field_reads_transitive(repo, k, f, set(), value_only=True, root=tmp_mod)
            deps.discard(fld)
            # every non-constructor writer of a dependency, anywhere in the hierarchy below/above k
            for c in repo.subclasses(k):
                for mname, g in e3.reachable_methods(repo, c).items():
                    if mname == "__init__" or g.qual == f.qual:
                        continue
                    ws = [(w, st) for w, st in e3.field_writes(repo, g) if w in deps]
                    if not ws:
                        continue
                    key = (g.qual, fld)
                    if key in done:
                        continue
                    done.add(key)
                    n += 1
                    resets = [st for w, st in e3.field_writes(repo, g) if w == fld
                              and isinstance(st, ast.Assign) and isinstance(st.value, ast.Constant)
                              and st.value.value is None]
                    # the reset must happen on every path: guards other than a test of the memo itself
                    # (`if self.F is not None`) make it conditional
                    guards_of = {id(n_): gs for n_, gs in e6.guarded_nodes(g.node, mark_exits=True)}
                    own = (f"self.{fld} is not None", f"self.{fld} is None")
                    cond = []
                    for st in resets:
                        gs = [t for t, pol in guards_of.get(id(st), ()) if t not in own and pol is not None]
                        # a conjunction that contains more than the memo test is conditional as well
                        cond.append(gs)
                    unconditional = [st for st, gs in zip(resets, cond) if not gs]
                    if resets and not unconditional:
                        rep.violation(
                            "R3.memo-invalidated", g.qual, f"{fld}<-{','.join(sorted({w for w, _ in ws}))}:conditional",
                            f"{g.qual} resets the memo self.{fld} only under the condition `{cond[0][0][:80]}`: a "
                            f"re-assignment of self.{ws[0][0]} that does not satisfy it keeps the stale memo (built lazily "
                            f"in {f.qual}), so later queries answer for the old value",
                            repo.rel(g.module, resets[0]),
                            [f"memo filled at {repo.rel(f.module, assign)}: {norm(assign)[:80]}"])
                    elif resets:
                        rep.ok("R3.memo-invalidated", f"{g.qual}:{fld}", g.loc(),
                               f"writes {sorted({w for w, _ in ws})} and resets self.{fld}")
                    else:
                        rep.violation(
                            "R3.memo-invalidated", g.qual, f"{fld}<-{','.join(sorted({w for w, _ in ws}))}",
                            f"{g.qual} re-assigns self.{ws[0][0]} but leaves the memo self.{fld} (built lazily from "
                            f"it in {f.qual}) in place: later queries answer for the old value",
                            repo.rel(g.module, ws[0][1]),
                            [f"memo filled at {repo.rel(f.module, assign)}: {norm(assign)[:80]}",
                             f"memo depends on fields {sorted(deps)}"])
            if not init_none:
                rep.note(f"memo field {k}.{fld} is not initialised to None in a constructor of {k} (see R1)")
            rep.ok("R3.memo-field", f"{k}.{fld}", repo.rel(f.module, assign),
                   f"memo of {sorted(deps)} filled in {f.qual}")
    rep.floor("memo fields found", len([d for d in done if len(d) == 3]), 2)
    # R3b: setters of the fields whose shape (not value) other code relies on keep the shape
    nb = 0
    for k in repo.subclasses("Grid"):
        for pname, sf in repo.classes[k].setters.items():
            val = sf.params[1] if len(sf.params) > 1 else "value"
            for w, st in e3.field_writes(repo, sf):
                if not (isinstance(st, ast.Assign) and isinstance(st.value, ast.Name) and st.value.id == val):
                    continue  # only the store of the new value itself
                nb += 1
                new_s, old_s = f"{val}.shape", f"self.{w}.shape"
                guard = any(isinstance(x, ast.If) and x.lineno < st.lineno
                            and _rejects_unequal(x, new_s, old_s) for x in ast.walk(sf.node))
                if not guard:
                    # the comparison may live in a helper: self._check(..., value.shape, self._w.shape)
                    for x in strip_docstring(sf.node.body):
                        if isinstance(x, ast.Expr) and isinstance(x.value, ast.Call) and x.lineno < st.lineno and \
                                isinstance(x.value.func, ast.Attribute) and norm(x.value.func.value) in ("self", k, "type(self)"):
                            h = repo.resolve_method(k, x.value.func.attr)
                            if h is None:
                                continue
                            hp = [p_ for p_ in h.params if not (p_ in ("self", "cls") and h.params.index(p_) == 0)]
                            amap = {norm(a_): p_ for a_, p_ in zip(x.value.args, hp)}
                            if new_s in amap and old_s in amap:
                                hb = strip_docstring(h.node.body)
                                for i_, y in enumerate(hb):
                                    if isinstance(y, ast.If) and _rejects_unequal(y, amap[new_s], amap[old_s], rest=hb[i_ + 1:]):
                                        guard = True
                            else:
                                # the arrays themselves are handed over (`self._check_same_shape("points", value, self._points)`):
                                # the helper's test is read with its parameters replaced by the arguments
                                import copy
                                bind = {p_: a_ for a_, p_ in zip(x.value.args, hp)}
                                bind.update({k_.arg: k_.value for k_ in x.value.keywords if k_.arg})

                                class Subst(ast.NodeTransformer):
                                    def visit_Name(self, n):
                                        return copy.deepcopy(bind[n.id]) if n.id in bind else n
                                hb = strip_docstring(h.node.body)
                                for i_, y in enumerate(hb):
                                    if isinstance(y, ast.If):
                                        y2 = copy.deepcopy(y)
                                        y2.test = ast.fix_missing_locations(Subst().visit(y2.test))
                                        if _rejects_unequal(y2, new_s, old_s, rest=hb[i_ + 1:]):
                                            guard = True
                if guard:
                    rep.ok("R3b.setter-keeps-shape", f"{sf.qual}:{w}", repo.rel(sf.module, st),
                           "re-assignment rejected unless the shape is unchanged")
                else:
                    rep.violation("R3b.setter-keeps-shape", sf.qual, w,
                                  f"the setter stores a new self.{w} without checking that its shape equals the old "
                                  f"one: size-dependent state (index tables, neighbour tree shape) goes stale",
                                  repo.rel(sf.module, st))
    rep.floor("property setters writing fields", nb, 2)


def _rejects_unequal(if_node, a, b, rest=()):
    """`if a != b: raise` (either order, or `not a == b`), or `if a == b: return` followed by an
    unconditional raise."""
    t = if_node.test
    if isinstance(t, ast.UnaryOp) and isinstance(t.op, ast.Not) and isinstance(t.operand, ast.Compare):
        inner, neg = t.operand, True
    else:
        inner, neg = t, False
    if not (isinstance(inner, ast.Compare) and len(inner.ops) == 1 and
            {norm(inner.left), norm(inner.comparators[0])} == {a, b}):
        return False
    is_ne = isinstance(inner.ops[0], ast.NotEq) != neg if isinstance(inner.ops[0], (ast.Eq, ast.NotEq)) else None
    if is_ne is None:
        return False
    if is_ne:
        return bool(if_node.body) and isinstance(if_node.body[-1], ast.Raise)
    # equal -> return; anything else raises
    if if_node.orelse and isinstance(if_node.orelse[-1], ast.Raise):
        return True
    return bool(if_node.body) and isinstance(if_node.body[-1], ast.Return) and not if_node.orelse and \
        bool(rest) and isinstance(rest[0], ast.Raise)


def _guarded_nonempty(fn_node, name, use_node):
    """Is there, before ``use_node`` in the same block chain, an `if len(name) == 0: continue/return/raise`
    or is the use inside `if len(name) > 0` / `if name.size` ?"""
    for n in ast.walk(fn_node):
        if isinstance(n, ast.If) and n.lineno < use_node.lineno:
            t = norm(n.test)
            if t in (f"len({name}) == 0", f"{name}.size == 0", f"not len({name})", f"not {name}.size",
                     f"len({name}) < 1") and n.body and \
                    isinstance(n.body[-1], (ast.Continue, ast.Return, ast.Raise)):
                return True
            if t in (f"len({name}) > 0", f"len({name}) != 0", f"{name}.size > 0", f"len({name})", f"{name}.size") \
                    and any(use_node is x for b in n.body for x in ast.walk(b)):
                return True
    return False


def rule_r4(rep, repo):
    n = 0
    for q, f in repo.funcs.items():
        if f.is_lambda:
            continue
        for s in ast.walk(f.node):
            if not (isinstance(s, ast.Assign) and isinstance(s.value, ast.Call) and len(s.targets) == 1
                    and isinstance(s.targets[0], ast.Name)):
                continue
            c = s.value
            if norm(c.func) not in ("np.array", "np.asarray", "numpy.array", "numpy.asarray") or not c.args:
                continue
            inner = c.args[0]
            if not (isinstance(inner, ast.Call) and isinstance(inner.func, ast.Attribute)
                    and inner.func.attr in ("query_ball_point", "query_ball_tree", "query_pairs")):
                continue
            name = s.targets[0].id
            # subscripts inside a comprehension / lambda that binds the same name anew do not use this array
            rebound = set()
            for cmp_ in ast.walk(f.node):
                if isinstance(cmp_, (ast.ListComp, ast.SetComp, ast.GeneratorExp, ast.DictComp)):
                    if any(isinstance(y, ast.Name) and y.id == name for g_ in cmp_.generators for y in ast.walk(g_.target)):
                        rebound |= {id(x) for x in ast.walk(cmp_)}
                elif isinstance(cmp_, ast.Lambda) and name in [a_.arg for a_ in cmp_.args.args]:
                    rebound |= {id(x) for x in ast.walk(cmp_)}
            uses = [x for x in ast.walk(f.node) if isinstance(x, ast.Subscript) and id(x) not in rebound
                    and any(isinstance(y, ast.Name) and y.id == name for y in ast.walk(x.slice))
                    and x.lineno >= s.lineno]
            if not uses:
                continue
            n += 1
            dtype = next((norm(k.value) for k in c.keywords if k.arg == "dtype"), None)
            if dtype is None and len(c.args) > 1:
                dtype = norm(c.args[1])
            int_dtype = dtype in ("int", "np.int64", "np.intp", "np.int32", "np.int_", "'int'", "'i8'", "np.integer")
            guarded = all(_guarded_nonempty(f.node, name, u) for u in uses)
            if int_dtype or guarded:
                rep.ok("R4.index-array-from-list", f"{q}:{name}", repo.rel(f.module, s),
                       "integer dtype" if int_dtype else "emptiness guard before use as index")
            else:
                rep.violation(
                    "R4.index-array-from-list", q, name,
                    f"`{norm(s)[:90]}`: an empty result list becomes a float64 array, which cannot be used as an "
                    f"index at `{norm(uses[0])[:50]}` (IndexError for a sphere containing no point)",
                    repo.rel(f.module, s))
    rep.floor("index arrays built from ball queries", n, 1)


def rule_r5_r6(rep, repo, classes):
    n = 0
    for k in repo.subclasses("Grid"):
        g = repo.classes[k].methods.get("__getitem__")
        if g is None:
            continue
        n += 1
        idx = g.params[1] if len(g.params) > 1 else "index"
        tests = [x for x in ast.walk(g.node) if isinstance(x, ast.Call) and norm(x.func) == "isinstance"
                 and len(x.args) == 2 and norm(x.args[0]) == idx]
        for t in tests:
            kinds = norm(t.args[1])
            has_int = "int" in [z.strip() for z in kinds.strip("()").replace("|", ",").split(",")]
            if not has_int:
                continue
            if any(z in kinds for z in ("np.integer", "numbers.Integral", "Integral", "numpy.integer")):
                rep.ok("R5.numpy-integers-accepted", g.qual, repo.rel(g.module, t), kinds)
            else:
                rep.violation("R5.numpy-integers-accepted", g.qual, idx,
                              f"`{norm(t)}` rejects NumPy integers: grid[np.int64(i)] takes the array branch and "
                              f"builds a 0-d selection (TypeError/ValueError) instead of a one-point grid",
                              repo.rel(g.module, t))
        # R6: re-wrapping
        init = repo.resolve_method(k, "__init__")
        stored = []
        if init is not None:
            for p in init.params[1:]:
                # parameter stored in a field by this class's own __init__
                for w, st in e3.field_writes(repo, init):
                    if isinstance(st, ast.Assign) and isinstance(st.value, ast.Name) and st.value.id == p:
                        stored.append((p, w))
        ctor_calls = [x for x in ast.walk(g.node) if isinstance(x, ast.Call)
                      and norm(x.func) in ("self.__class__", k, "type(self)")]
        if not ctor_calls:
            if any(isinstance(x, ast.Return) and x.value is not None for x in ast.walk(g.node)):
                rep.note(f"{g.qual} does not construct {k}: selection returns another type (informational)")
            continue
        from gridlint.props.c07 import local_defs
        defs = local_defs(g.node)

        def derives(expr, base_names, seen=None):
            """Does the expression (through local definitions) come from <base>[... index ...]?"""
            seen = seen if seen is not None else set()
            for n in ast.walk(expr):
                if isinstance(n, ast.Subscript) and norm(n.value) in base_names and \
                        any(isinstance(x, ast.Name) and x.id == idx for x in ast.walk(n.slice)):
                    return True
                if isinstance(n, ast.Name) and n.id in defs and n.id not in seen and n.id != idx:
                    seen.add(n.id)
                    if any(derives(v, base_names, seen) for v in defs[n.id]):
                        return True
            return False
        # the same question on value graphs (private helpers such as `self._take(index)` inlined)
        from gridlint import e5
        gv = e5.VG(repo, k, g.node, inline=True)
        try:
            gv.run(strip_docstring(g.node.body))
        except Exception:  # noqa: BLE001 - the syntactic answer below still stands
            gv = None

        def vg_derives(t, fields):
            if isinstance(t, tuple):
                if len(t) == 3 and t[0] == "sub" and t[1] in [("attr", ("sym", "self"), f_) for f_ in fields] and \
                        e5._contains(("x", t[2]), lambda z: z == ("sym", idx)):
                    return True
                return any(vg_derives(x, fields) for x in t)
            return False
        for c in ctor_calls:
            pos = list(c.args)
            kws = {kw.arg: kw.value for kw in c.keywords}
            if gv is not None and any(isinstance(a, ast.Starred) for a in pos):
                # Cls(*helper(index)): positional arguments are the elements of the returned tuple
                flat = []
                for a in pos:
                    v = gv.ev(a)
                    if v[0] == "star" and v[1][0] in ("tuple", "list"):
                        flat += list(v[1][1])
                    elif v[0] == "star":
                        raise AnalysisError(f"unrecognised idiom: {g.qual} passes `*{norm(a.value)[:40]}` to the constructor")
                    else:
                        flat.append(v)
                okp = len(flat) > 0 and vg_derives(flat[0], ("points", "_points"))
                okw = len(flat) > 1 and vg_derives(flat[1], ("weights", "_weights"))
                rest = [e5.show(v, 60) for v in flat[2:]] + [norm(v) for k_, v in kws.items() if k_ not in ("points", "weights")]
                a_pts = a_wts = None
            else:
                a_pts = kws.get("points", pos[0] if pos else None)
                a_wts = kws.get("weights", pos[1] if len(pos) > 1 else None)
                okp = a_pts is not None and (derives(a_pts, ("self.points", "self._points")) or
                                             (gv is not None and vg_derives(gv.ev(a_pts), ("points", "_points"))))
                okw = a_wts is not None and (derives(a_wts, ("self.weights", "self._weights")) or
                                             (gv is not None and vg_derives(gv.ev(a_wts), ("weights", "_weights"))))
                rest = [norm(a) for a in pos[2:]] + [norm(v) for k_, v in kws.items() if k_ not in ("points", "weights")]
            miss = [p for p, w in stored if p not in ("points", "weights")
                    and not any(a in (f"self.{w}", f"self.{w.lstrip('_')}") for a in rest)]
            if okp and okw and not miss:
                rep.ok("R6.selection-rewraps", f"{g.qual}@{c.lineno - g.node.lineno}", repo.rel(g.module, c),
                       f"{norm(c.func)}(points[i], weights[i]" + "".join(", " + p for p, _ in stored
                                                                      if p not in ("points", "weights")) + ")")
            else:
                rep.violation("R6.selection-rewraps", g.qual, f"call{ctor_calls.index(c)}",
                              f"`{norm(c)[:100]}` does not rebuild the grid from the selected points and weights"
                              + (f" and drops stored parameter(s) {miss}" if miss else ""),
                              repo.rel(g.module, c))
    # classes that inherit a signature-incompatible __getitem__
    for c in classes:
        g = repo.resolve_method(c, "__getitem__")
        init = repo.resolve_method(c, "__init__")
        if g is None or init is None or g.cls == c:
            continue
        calls_cls = any(isinstance(x, ast.Call) and norm(x.func) in ("self.__class__", "type(self)")
                        for x in ast.walk(g.node))
        if calls_cls:
            ginit = repo.resolve_method(g.cls, "__init__")
            if ginit is not None and init is not ginit:
                req = [p for p in init.params[1:] if p not in init.defaults()]
                greq = [p for p in ginit.params[1:]]
                if req[:2] != greq[:2]:
                    rep.note(f"selection unsupported on {c}: inherits {g.qual} but {c}.__init__ takes {init.params[1:]}")
    rep.floor("__getitem__ definitions", n, 4)


def rule_r8(rep, repo):
    """Integer index turned into a slice: `slice(i, i + 1)` / `[i:i + 1]` selects nothing for i = -1
    (slice(-1, 0)); the integer must be normalised first (known-wrong shape otherwise)."""
    n = 0
    for k in repo.subclasses("Grid"):
        g = repo.classes[k].methods.get("__getitem__")
        if g is None:
            continue
        idx = g.params[1] if len(g.params) > 1 else "index"
        for node, guards in e6.guarded_nodes(g.node):
            lo = hi = None
            if isinstance(node, ast.Call) and norm(node.func) == "slice" and len(node.args) == 2:
                lo, hi = node.args
            elif isinstance(node, ast.Slice) and node.lower is not None and node.upper is not None and node.step is None:
                lo, hi = node.lower, node.upper
            if lo is None or norm(lo) != idx or norm(hi) not in (f"{idx} + 1", f"1 + {idx}"):
                continue
            n += 1
            # normalisation of negative integers before the conversion?
            normalised = any(isinstance(s, ast.If) and s.lineno < node.lineno and norm(s.test) in (f"{idx} < 0", f"0 > {idx}")
                             for s in ast.walk(g.node)) or \
                any(isinstance(s, ast.Assign) and norm(s.targets[0]) == idx and "%" in norm(s.value) and s.lineno < node.lineno
                    for s in ast.walk(g.node))
            if normalised:
                rep.ok("R8.integer-to-slice", g.qual, repo.rel(g.module, node), "negative integers normalised first")
            else:
                rep.violation("R8.integer-to-slice", g.qual, idx,
                              f"`{norm(node)[:60]}` turns the integer index into a slice without normalising negative "
                              f"values: grid[-1] becomes slice(-1, 0) and selects no point instead of the last one",
                              repo.rel(g.module, node))
    return n


def rule_r9(rep, repo):
    """A selection index must reach the subscript with its dtype intact: forcing an integer dtype on
    `index` (np.asarray(index, dtype=int), index.astype(int), list(map(int, index))) turns a boolean
    mask into 0/1 positions unless masks were dispatched earlier (known-wrong shape)."""
    n = 0
    for k in repo.subclasses("Grid"):
        g = repo.classes[k].methods.get("__getitem__")
        if g is None:
            continue
        n += 1
        idx = g.params[1] if len(g.params) > 1 else "index"
        bad = None
        for node, guards in e6.guarded_nodes(g.node):
            if not isinstance(node, ast.Call):
                continue
            fn = norm(node.func)
            forced = None
            if fn in ("np.asarray", "np.array", "np.asanyarray") and node.args and norm(node.args[0]) == idx:
                dt = next((norm(kw.value) for kw in node.keywords if kw.arg == "dtype"), None) or \
                    (norm(node.args[1]) if len(node.args) > 1 else None)
                if dt in ("int", "np.int64", "np.intp", "np.int32", "'int'", "np.int_"):
                    forced = f"{fn}({idx}, dtype={dt})"
            if isinstance(node.func, ast.Attribute) and node.func.attr == "astype" and norm(node.func.value) == idx \
                    and node.args and norm(node.args[0]) in ("int", "np.int64", "np.intp"):
                forced = f"{idx}.astype({norm(node.args[0])})"
            if forced is None:
                continue
            mask_excluded = any(("bool" in t and not pol) or ("bool" in t and pol and "!=" in t) for t, pol in guards)
            if not mask_excluded:
                bad = (node, forced)
        if bad:
            rep.violation("R9.index-dtype-preserved", g.qual, idx,
                          f"`{bad[1]}` forces an integer dtype on the selection index: a boolean mask becomes an array of "
                          f"0/1 positions, so grid[mask] returns copies of points 0 and 1 instead of the masked points",
                          repo.rel(g.module, bad[0]))
        else:
            rep.ok("R9.index-dtype-preserved", g.qual, g.loc(), "the index reaches the subscript with its dtype intact")
    return n


def rule_r7(rep, repo):
    n = 0
    for k in repo.subclasses("Grid"):
        g = repo.classes[k].methods.get("get_localgrid")
        if g is None or e3.unconditional_raise(g):
            continue
        calls = [x for x in ast.walk(g.node) if isinstance(x, ast.Call) and norm(x.func) == "LocalGrid"]
        if not calls:
            raise AnalysisError(f"unrecognised idiom: {g.qual} does not construct a LocalGrid")
        n += 1
        srcs = []
        for c in calls:
            a = [norm(x) for x in c.args]
            if len(a) < 4:
                rep.violation("R7.localgrid-sources", g.qual, f"call{calls.index(c)}",
                              f"`{norm(c)[:90]}` does not pass points, weights, center and indices", repo.rel(g.module, c))
                continue
            base = lambda s: s.split("[")[0]  # noqa: E731
            srcs.append((base(a[0]), base(a[1]), a[2]))
        if len(set(srcs)) > 1 and k == "Grid":
            rep.violation("R7.localgrid-sources", g.qual, "branches",
                          f"the infinite- and finite-radius branches build the local grid from different sources "
                          f"{sorted(set(srcs))}", repo.rel(g.module, calls[0]))
        elif srcs:
            rep.ok("R7.localgrid-sources", g.qual, g.loc(), f"{srcs[0]}")
        # inf branch passes all indices
        for c in calls:
            if len(c.args) >= 4 and "arange" in norm(c.args[3]):
                a3 = c.args[3]
                inner = norm(a3.args[0]) if isinstance(a3, ast.Call) and len(a3.args) == 1 and not a3.keywords else ""
                if norm(a3.func) == "np.arange" and (inner in ("self.size", "self._size") or re.fullmatch(
                        r"len\((self\.)?_?(points|weights)\)|(self\.)?_?(points|weights)\.shape\[0\]|(self\.)?_?weights\.size", inner)):
                    rep.ok("R7.whole-grid-indices", g.qual, repo.rel(g.module, c), norm(c.args[3]))
                else:
                    rep.violation("R7.whole-grid-indices", g.qual, "indices",
                                  f"the whole-grid branch passes `{norm(c.args[3])}` as index array", repo.rel(g.module, c))
    rep.floor("get_localgrid implementations", n, 2)


def run(tier="quick", root="/repo", evidence_dir=None, quiet=False):
    rep = Report(PROP, tier, root, EXPLANATION, RULE, assumptions=[
        "closed world of Grid subclasses (the 35 concrete classes of the package)",
        "fields are only created by `self.<name> = ...` (no __dict__/setattr; verified by the loader)",
    ])
    repo = get_repo(root)
    classes = rule_r1(rep, repo)
    rep.attempt(rule_r2, rep, repo, classes)
    rep.attempt(rule_r3, rep, repo, classes)
    rep.attempt(rule_r4, rep, repo)
    rep.attempt(rule_r5_r6, rep, repo, classes)
    rep.attempt(rule_r7, rep, repo)
    rep.attempt(rule_r8, rep, repo)
    rep.attempt(rule_r9, rep, repo)
    rep.extra.update({"concrete_grid_classes": classes,
                      "source_digest": repo.digest(["basegrid", "atomgrid", "molgrid", "cubic", "periodicgrid",
                                                    "ngrid", "onedgrid", "angular"])})
    return rep.finish(evidence_dir=evidence_dir, quiet=quiet)
