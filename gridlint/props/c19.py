"""C19 -- caches and remembered parameters never change what a later call returns.

R1  cache isolation (E2): nothing stored in a module-level cache escapes (field of an instance,
    return value) unless copied or frozen, and nothing in the package writes it in place.
R2  cache keys: method -> cache mapping injective, the key stored is the resolved degree.
R3  set-once scale (typestate): every write of the inferred scale is dominated by an ``is None``
    test; every method using the scale sets it first; no other transform field is written after
    construction.
R4  Coulomb table: rebound only under an ``is None`` test, handed out only through a fresh
    conversion, never written.
R5  cache transparency: the entry stored on a miss is exactly the value that flows on, and a hit
    binds the same names to exactly that entry (value-graph equality).
"""
from __future__ import annotations

import ast

from gridlint.core import AnalysisError, Report, norm, strip_docstring
from gridlint.e2 import trace_escape, trace_to_primitive
from gridlint.props.common import get_e2, get_repo

PROP = "C19"
EXPLANATION = (
    "Ownership/escape analysis of module-level state (E2) plus typestate rules.  Decides, for "
    "every history of calls: objects stored in the four angular caches and in the Coulomb "
    "parameter cache never reach an instance field or a return value without a copy/freeze "
    "barrier and are never written in place by the package; the cache dispatch is injective and "
    "keyed by the resolved degree; the inferred scale b of the three b-scaled transforms is "
    "written only under an `is None` test and set before every use; no other transform field is "
    "written after construction.  Does not decide numerical equality of values.")
RULE = ("instances = (state global x escape/sink site) pairs, cache dispatch keys, (transform class "
        "x method using b), writers of transform fields; all enumerated from the source")

EXPECTED_STATE = {("angular", "LEBEDEV_CACHE"), ("angular", "SPHERICAL_CACHE"),
                  ("angular", "MAX_DET_CACHE"), ("angular", "AHRENS_BEYLKIN_CACHE"),
                  ("coulomb", "_ATOMIC_GAUSS_PARAMS_CACHE")}


def _prim_desc(path):
    p = path[-1]
    return f"{p[0]}:{p[2][:60]}"


def rule_r1_r4(rep, repo, eng):
    state = set(eng.STORE_SITES)
    # the caches named by the constructor's dispatch chain (plus the Coulomb table) must be state
    from gridlint.props.c02 import AngularModel
    m = AngularModel(repo)
    expected = {("angular", norm(br["cache_dict"])) for br in m.chains["__init__"][0].values()}
    expected.add(("coulomb", "_ATOMIC_GAUSS_PARAMS_CACHE"))
    missing = expected - state
    if missing:
        raise AnalysisError(f"anchor vanished: module-level caches not found as written state: {sorted(missing)}")
    for key in sorted(state):
        for site in sorted(eng.STORE_SITES[key]):
            rep.ok("R1.cache-fill-site", f"{key[0]}.{key[1]}", site[1], f"designated fill in {site[0]}: {site[2]}")
    # (a) in-place sinks reached by cached content
    n_sink = 0
    for q, st in eng.st.items():
        for o, chains in st.mut.items():
            if o[0] in ("GE", "GT") or (o[0] == "G" and (o[1], o[2]) not in state):
                for ch in chains:
                    if len(ch) > 4 and ch[4] is not None:
                        continue  # derived record; the primitive is reported where it happens
                    for path in trace_to_primitive(eng, q, o, ch):
                        n_sink += 1
                        rep.violation("R1.no-write-to-shared-state", path[-1][0], f"{o[1]}.{o[2]}",
                                      f"in-place write `{path[-1][3][:80]}` reaches an object held in module-level "
                                      f"state {o[1]}.{o[2]}: every later call that reads it is affected",
                                      path[-1][1], [" <- ".join(f"{p[0]}@{p[1]}" for p in reversed(path))])
    # derived sink records: a GE object passed to a function that writes its parameter
    for q, st in eng.st.items():
        for o, chains in st.mut.items():
            if o[0] == "GE":
                for ch in chains:
                    if len(ch) > 4 and ch[4] is not None:
                        for path in trace_to_primitive(eng, q, o, ch):
                            rep.violation("R1.no-write-to-shared-state", path[-1][0], f"{o[1]}.{o[2]}",
                                          f"in-place write `{path[-1][3][:80]}` reaches (through a call) an object "
                                          f"held in module-level state {o[1]}.{o[2]}",
                                          path[-1][1], [" <- ".join(f"{p[0]}@{p[1]}" for p in reversed(path))])
    # (b) escapes of unfrozen cached content
    n_esc_checked = 0
    for q, st in eng.st.items():
        for o, chains in st.esc.items():
            if o[0] == "GE":
                key = (o[1], o[2])
            elif o[0] in ("F", "L") and o in eng.SHARED_OWNER:
                key = eng.SHARED_OWNER[o][0]
            else:
                continue
            if key not in state:
                continue
            n_esc_checked += 1
            if key not in eng.UNFROZEN_STORE:
                rep.ok("R1.escape-frozen", f"{q}:{key[1]}", chains[0][1], "cached arrays are frozen before sharing")
                continue
            for ch in chains:
                for path in trace_escape(eng, q, o, ch):
                    prim = path[-1]
                    rep.violation(
                        "R1.cache-content-escapes", q, f"{key[1]}->{prim[0]}:{prim[2][:40]}",
                        f"object stored in module-level cache {key[0]}.{key[1]} is handed out uncopied "
                        f"({prim[2]} in {prim[0]}); an in-place edit by its holder changes every later "
                        f"construction served from the cache",
                        path[0][1], [" -> ".join(f"{p[0]}@{p[1]}" for p in path),
                                     f"cache filled at {eng.UNFROZEN_STORE[key][1]}: {eng.UNFROZEN_STORE[key][2]}"])
    # consumers of cached content that do not leak it
    for key in sorted(state):
        leaks = [v for v in rep.violations if v["rule"].startswith("R1") and key[1] in v["role"]]
        if not leaks:
            rep.ok("R1.cache-isolated", f"{key[0]}.{key[1]}", "",
                   "no stored object escapes unfrozen and none is written in place")
    rep.extra["state_globals"] = [f"{m}.{g}" for m, g in sorted(state)]
    rep.extra["escape_records_checked"] = n_esc_checked


def rule_r4(rep, repo):
    """Coulomb cache: every rebinding under `is None`."""
    mi = repo.modules.get("coulomb")
    if mi is None:
        raise AnalysisError("anchor vanished: module coulomb")
    name = "_ATOMIC_GAUSS_PARAMS_CACHE"
    if name not in mi.globals:
        raise AnalysisError(f"anchor vanished: coulomb.{name}")
    n = 0
    for q, f in repo.funcs.items():
        if f.module != "coulomb":
            continue
        decl = any(isinstance(x, ast.Global) and name in x.names for x in ast.walk(f.node))
        if not decl:
            continue
        for test_stack, stmt in _walk_with_guards(f.node.body):
            if isinstance(stmt, ast.Assign) and any(isinstance(t, ast.Name) and t.id == name for t in stmt.targets):
                n += 1
                guarded = any(_is_none_test(t, name) for t, pos in test_stack if pos)
                if guarded:
                    rep.ok("R4.rebind-under-is-None", q, repo.rel(f.module, stmt), norm(stmt)[:80])
                else:
                    rep.violation("R4.rebind-under-is-None", q, name,
                                  "the parameter table is re-bound outside an `is None` test: later calls "
                                  "may see a different table", repo.rel(f.module, stmt))
    rep.floor("Coulomb cache rebinding sites", n, 1)


def _is_none_test(test, name):
    """`<name> is None` (possibly inside an `and`)."""
    if isinstance(test, ast.BoolOp) and isinstance(test.op, ast.And):
        return any(_is_none_test(v, name) for v in test.values)
    return (isinstance(test, ast.Compare) and len(test.ops) == 1 and isinstance(test.ops[0], ast.Is)
            and isinstance(test.comparators[0], ast.Constant) and test.comparators[0].value is None
            and norm(test.left) in (name, f"self.{name}", f"self._{name}"))


def _walk_with_guards(body, stack=()):
    """Yield (guards, stmt); guards = tuple of (test, polarity) of the enclosing ifs."""
    for s in body:
        yield stack, s
        if isinstance(s, ast.If):
            yield from _walk_with_guards(s.body, stack + ((s.test, True),))
            yield from _walk_with_guards(s.orelse, stack + ((s.test, False),))
        elif isinstance(s, (ast.For, ast.While)):
            yield from _walk_with_guards(s.body, stack)
            yield from _walk_with_guards(s.orelse, stack)
        elif isinstance(s, ast.With):
            yield from _walk_with_guards(s.body, stack)
        elif isinstance(s, ast.Try):
            yield from _walk_with_guards(s.body, stack)
            for h in s.handlers:
                yield from _walk_with_guards(h.body, stack)
            yield from _walk_with_guards(s.orelse, stack)
            yield from _walk_with_guards(s.finalbody, stack)


def rule_r3(rep, repo):
    """Set-once scale and statelessness of the transform classes."""
    base = "BaseTransform"
    repo.cls(base)
    classes = [k for k in repo.subclasses(base) if k != base]
    rep.floor("transform classes", len(classes), 12)
    scaled = []
    n_use = 0
    seen_writers = set()
    # a guarded store moved into a module-level helper that receives the transform (`_fix_b(self, x)`) is read inlined
    from gridlint import inline
    _inl = {}

    def inlined(f):
        if f.qual not in _inl:
            helpers = {g.name: g.node for g in repo.funcs.values() if g.module == f.module and g.cls is None
                       and g.parent is None and not g.is_lambda and isinstance(g.node, ast.FunctionDef)}
            _inl[f.qual] = inline.inline_calls(f.node, helpers) if helpers else f.node
        return _inl[f.qual]
    for k in classes:
        ci = repo.classes[k]
        # --- writers of fields outside __init__ (own and inherited methods: the base class's
        # transform_1d_grid & co. run on every transform instance)
        from gridlint import e3 as _e3
        for mname, f in sorted(_e3.reachable_methods(repo, k).items()):
            if mname == "__init__":
                continue
            # an inherited method is judged (and reported) once, but its set-once field counts for
            # every class that inherits it
            already = (f.qual, "seen") in seen_writers
            if f.cls != k:
                seen_writers.add((f.qual, "seen"))
            for guards, stmt in _walk_with_guards(strip_docstring(inlined(f).body)):
                tgts = []
                if isinstance(stmt, ast.Assign):
                    tgts = stmt.targets
                elif isinstance(stmt, (ast.AugAssign, ast.AnnAssign)):
                    tgts = [stmt.target]
                for t in tgts:
                    for leaf in _leaves(t):
                        if isinstance(leaf, ast.Attribute) and isinstance(leaf.value, ast.Name) and leaf.value.id == "self":
                            fld = leaf.attr
                            none_guard = any(pos and _is_none_test(tt, fld.lstrip("_")) or
                                             pos and _is_none_test(tt, fld) for tt, pos in guards)
                            if isinstance(stmt, ast.Assign) and none_guard:
                                if (k, fld) not in scaled:
                                    scaled.append((k, fld))
                                if already:
                                    continue
                                rep.ok("R3.set-once-write", f"{f.cls}.{mname}:{fld}", repo.rel(f.module, stmt),
                                       "write dominated by `is None` test of the same field")
                            elif already:
                                continue
                            else:
                                rep.violation(
                                    "R3.transform-stateless", f.qual, fld,
                                    f"field self.{fld} of a radial transform is written after construction "
                                    f"outside an `is None` guard: results depend on the order of earlier calls",
                                    repo.rel(f.module, stmt))
    rep.floor("set-once scale fields", len(scaled), 3)
    # --- every method using the scale arithmetically sets it first on all paths
    for k, fld in scaled:
        ci = repo.classes[k]
        prop = fld.lstrip("_")
        setter_methods = [m for m, f in _e3.reachable_methods(repo, k).items()
                          if any(isinstance(s, ast.Assign) and any(
                              isinstance(t, ast.Attribute) and t.attr == fld for t in s.targets)
                                 for s in ast.walk(inlined(f))) and m != "__init__"]
        for mname, f in ci.methods.items():
            if mname in setter_methods or mname == "__init__" or f.is_property:
                continue
            body = strip_docstring(f.node.body)
            uses = [n for n in ast.walk(ast.Module(body=body, type_ignores=[]))
                    if isinstance(n, ast.Attribute) and isinstance(n.value, ast.Name) and n.value.id == "self"
                    and n.attr in (fld, prop)]
            if not uses:
                continue
            n_use += 1
            first_use = min(u.lineno for u in uses)
            ok = False
            for s in body:
                if s.lineno >= first_use:
                    break
                if isinstance(s, ast.Expr) and isinstance(s.value, ast.Call) and \
                        isinstance(s.value.func, ast.Attribute) and s.value.func.attr in setter_methods and \
                        norm(s.value.func.value) == "self" and s.value.args:
                    arg = s.value.args[0]
                    if isinstance(arg, ast.Name) and arg.id in f.params:
                        ok = True
            # delegating methods (deriv -> self.transform(x) * alpha) still read self.b themselves
            if ok:
                rep.ok("R3.scale-set-before-use", f"{k}.{mname}", f.loc(),
                       f"unconditional top-level call of {setter_methods} precedes the first use of self.{prop}")
            else:
                rep.violation("R3.scale-set-before-use", f"{k}.{mname}", prop,
                              f"method uses self.{prop} but does not first fix the inferred scale from its "
                              f"argument on every path: the result depends on which method was called first",
                              f.loc())
    rep.floor("methods using an inferred scale", n_use, 3)


def rule_r5(rep, repo):
    """Cache transparency: what is stored on a miss is exactly what flows on, and a hit hands on
    exactly the stored entry -- so the value given to the grid is the same function of the shipped
    data whether the entry was just loaded, loaded earlier, or caching is off.

    Recognised look-up idioms (C = the cache selected by the dispatch, k = the key):
      A   if k not in C: <load>; [if cache:] C[k] = S   else: names = C[k]
      B   e = C.get(k);  if e is None: e = <load>; [if cache:] C[k] = S
    Both are evaluated as value graphs: miss environment vs hit environment of the one top-level
    `if` that contains the store."""
    from gridlint import e5
    from gridlint.props.c02 import AngularModel
    cvar = AngularModel(repo).var["__init__"]["cache"]
    f = repo.method("AngularGrid", "__init__")
    body = strip_docstring(f.node.body)
    cons = "angular.AngularGrid.__init__"

    def stores_in(stmts):
        return [x for st in stmts for x in ast.walk(st)
                if isinstance(x, ast.Assign) and isinstance(x.targets[0], ast.Subscript) and norm(x.targets[0].value) == cvar]
    br = next((s_ for s_ in body if isinstance(s_, ast.If) and stores_in([s_])), None)
    if br is None and not stores_in(body):
        # idiom C: the look-up lives in a private method that receives the cache,
        #     def _get(self, C, k, ...):  if k in C: return C[k];  <load>;  [if cache:] C[k] = S;  return V
        # transparent iff the hit returns the entry itself and V == S on the miss
        for c_ in ast.walk(f.node):
            if isinstance(c_, ast.Call) and isinstance(c_.func, ast.Attribute) and norm(c_.func.value) == "self" and \
                    any(norm(a_) == cvar for a_ in c_.args):
                h = repo.resolve_method("AngularGrid", c_.func.attr)
                if h is None:
                    continue
                hp = [p_ for p_ in h.params if p_ != "self"]
                pc = dict(zip([norm(a_) for a_ in c_.args], hp)).get(cvar)
                hb = strip_docstring(h.node.body)
                if pc is None or not hb or not isinstance(hb[0], ast.If):
                    continue
                t0 = hb[0].test
                if not (isinstance(t0, ast.Compare) and len(t0.ops) == 1 and isinstance(t0.ops[0], ast.In) and
                        norm(t0.comparators[0]) == pc and len(hb[0].body) == 1 and isinstance(hb[0].body[0], ast.Return)
                        and not hb[0].orelse):
                    continue
                kexpr = norm(t0.left)
                cons_h = f"angular.AngularGrid.{h.name}"
                if norm(hb[0].body[0].value) != f"{pc}[{kexpr}]":
                    rep.violation("R5.cache-transparent", cons_h, "hit",
                                  f"on a cache hit `{norm(hb[0].body[0].value)[:60]}` is returned, not the stored entry itself",
                                  repo.rel("angular", hb[0]))
                    return
                vg = e5.VG(repo, "AngularGrid", h.node)
                stored, final = [], None

                def walk_h(stmts):
                    nonlocal final
                    for st in stmts:
                        if isinstance(st, ast.If) and any(isinstance(x, ast.Assign) and isinstance(x.targets[0], ast.Subscript)
                                                          and norm(x.targets[0].value) == pc for x in ast.walk(st)):
                            walk_h(st.body)
                            walk_h(st.orelse)
                            continue
                        if isinstance(st, ast.Assign) and isinstance(st.targets[0], ast.Subscript) and norm(st.targets[0].value) == pc:
                            if norm(st.targets[0].slice) != kexpr:
                                rep.violation("R5.cache-transparent", cons_h, "store-key",
                                              f"the entry is stored under `{norm(st.targets[0].slice)}` but looked up under `{kexpr}`",
                                              repo.rel("angular", st))
                            stored.append((vg.ev(st.value), st))
                            continue
                        if isinstance(st, ast.Return) and st.value is not None:
                            final = vg.ev(st.value)
                            continue
                        vg.stmt(st)
                walk_h(hb[1:])
                if not stored or final is None:
                    raise AnalysisError(f"unrecognised idiom: {cons_h} does not store into its cache parameter and return")
                if stored[-1][0] == final:
                    rep.ok("R5.cache-transparent", f"AngularGrid.{h.name}", repo.rel("angular", stored[-1][1]),
                           "hit returns the entry, miss returns exactly what it stores")
                else:
                    rep.violation("R5.cache-transparent", cons_h, "miss",
                                  f"on a miss `{e5.show(final, 80)}` is returned but `{e5.show(stored[-1][0], 80)}` is stored: a grid "
                                  f"served from the cache differs from a freshly loaded one", repo.rel("angular", stored[-1][1]))
                return
    if br is None:
        if stores_in(body):
            raise AnalysisError(f"unrecognised idiom: the store into {cvar} is not under a cache-miss test")
        raise AnalysisError(f"unrecognised idiom: AngularGrid.__init__ never stores into {cvar}")
    pre = e5.VG(repo, "AngularGrid", f.node)
    for s_ in body[:body.index(br)]:
        pre.stmt(s_)
    C = ("glob", cvar) if cvar not in pre.env else pre.env[cvar]
    t = br.test
    tg = pre.ev(t)
    key = None
    miss_is_body = None
    if isinstance(t, ast.Compare) and len(t.ops) == 1 and isinstance(t.ops[0], (ast.NotIn, ast.In)) and \
            norm(t.comparators[0]) == cvar:
        key = pre.ev(t.left)
        miss_is_body = isinstance(t.ops[0], ast.NotIn)
    elif isinstance(t, ast.Compare) and len(t.ops) == 1 and isinstance(t.ops[0], (ast.Is, ast.IsNot)) and \
            isinstance(t.comparators[0], ast.Constant) and t.comparators[0].value is None:
        v = pre.ev(t.left)
        if v[0] == "call" and v[1] == ("attr", C, "get") and len(v[2]) in (1, 2) and \
                (len(v[2]) == 1 or v[2][1] == ("const", "None")):
            key = v[2][0]
            miss_is_body = isinstance(t.ops[0], ast.Is)
    if key is None:
        raise AnalysisError(f"unrecognised idiom: cache-miss test `{norm(t)[:60]}` (known: `k not in {cvar}`, "
                            f"`{cvar}.get(k) is None`)")
    miss, hit = (br.body, br.orelse) if miss_is_body else (br.orelse, br.body)
    entries = (("sub", C, key), ("call", ("attr", C, "get"), (key,), ()),
               ("call", ("attr", C, "get"), (key, ("const", "None")), ()))
    if stores_in(hit):
        rep.violation("R5.cache-transparent", cons, "store-on-hit", "the cache is written on the hit path", repo.rel("angular", br))
    # miss environment; the store may sit under `if cache:` -- the flowing values must not depend on it
    vg = e5.VG(repo, "AngularGrid", f.node)
    vg.env = dict(pre.env)
    stored = []

    def walk(stmts):
        for st in stmts:
            if isinstance(st, ast.If):
                if stores_in([st]):
                    walk(st.body)
                    walk(st.orelse)
                    continue
            if isinstance(st, ast.Assign) and isinstance(st.targets[0], ast.Subscript) and norm(st.targets[0].value) == cvar:
                if vg.ev(st.targets[0].slice) != key:
                    rep.violation("R5.cache-transparent", cons, "store-key",
                                  f"the entry is stored under `{norm(st.targets[0].slice)}` but looked up under "
                                  f"`{e5.show(key, 40)}`", repo.rel("angular", st))
                stored.append((vg.ev(st.value), st))
                continue
            vg.stmt(st)
    walk(miss)
    if not stored:
        raise AnalysisError(f"unrecognised idiom: the miss branch does not store into {cvar}")
    S, store_stmt = stored[-1]
    hv = e5.VG(repo, "AngularGrid", f.node)
    hv.env = dict(pre.env)
    for st in hit:
        hv.stmt(st)
    # names whose value after the branch differs between miss and hit, or was (re)bound in it
    flow = sorted(n for n in set(vg.env) | set(hv.env)
                  if not n.startswith("self.") and (vg.env.get(n) != pre.env.get(n) or hv.env.get(n) != pre.env.get(n)))
    used_after = {x.id for st in body[body.index(br) + 1:] for x in ast.walk(st) if isinstance(x, ast.Name)}
    flow = [n for n in flow if n in used_after]
    if not flow:
        raise AnalysisError("unrecognised idiom: no names flow out of the cache branches")

    def norm_hit(h):
        # `a, b = (x.copy() for x in C[k])` -- element-wise identity over the entry
        if h[0] == "sub" and isinstance(h[1], tuple) and h[1] and h[1][0] == "comp" and h[1][2] == ("bound", 0, 0) \
                and len(h[1][3]) == 1 and h[1][3][0][0] in entries and not h[1][3][0][1]:
            return ("sub", entries[0], h[2])
        if h[0] == "sub" and h[1] in entries:
            return ("sub", entries[0], h[2])
        return entries[0] if h in entries else h
    ok = True
    for n in flow:
        if n not in hv.env or n not in vg.env:
            raise AnalysisError(f"unrecognised idiom: `{n}` is bound on one cache path only")
        h = norm_hit(hv.env[n])
        if h[0] == "sub" and h[1] == entries[0] and h[2][0] == "const" and h[2][1].isdigit():
            i = int(h[2][1])
            sv = S[1][i] if S[0] == "tuple" and i < len(S[1]) else ("sub", S, h[2])
        elif h == entries[0]:
            sv = S
        else:
            ok = False
            rep.violation("R5.cache-transparent", cons, f"hit:{n}",
                          f"on a cache hit `{n}` is {e5.show(h, 80)}, not the stored entry itself: a grid served from "
                          f"the cache differs from a freshly loaded one", repo.rel("angular", br))
            continue
        mv = vg.env.get(n)
        if sv == mv or (S[0] != "tuple" and mv[0] == "sub" and sv == mv):
            rep.ok("R5.cache-transparent", f"AngularGrid.__init__:{n}", repo.rel("angular", store_stmt),
                   f"stored {e5.show(sv, 60)} == value flowing on after a miss")
        else:
            ok = False
            rep.violation("R5.cache-transparent", cons, f"miss:{n}",
                          f"after a cache miss `{n}` is {e5.show(mv, 80)} but the cache keeps "
                          f"{e5.show(sv, 80)}: the first grid of a degree and the later ones served from the cache "
                          f"are built from different values", repo.rel("angular", store_stmt))
    return ok


def rule_r6(rep, repo, eng):
    """Memo-key completeness: when a value is stored into module-level state under a key, the key
    (together with whatever selects the container) must depend on every input the value depends on;
    otherwise a later call with another value of the missing input is served the remembered result."""
    from gridlint.props.c07 import local_defs
    n = 0
    for q, f in repo.funcs.items():
        if f.is_lambda:
            continue
        stores = []
        for s_ in ast.walk(f.node):
            if isinstance(s_, ast.Assign) and isinstance(s_.targets[0], ast.Subscript):
                stores.append(s_)
        if not stores or repo.by_node.get(id(f.node)) is not f:
            continue
        st = eng.st[q]
        defs = local_defs(f.node)
        params = set(f.allparams)
        for s_ in stores:
            rec = [r for (ln, col, kind), r in st.sink_sites.items() if ln == s_.lineno and col == s_.col_offset]
            if not rec or not any(o[0] == "G" for r in rec for o in r["origins"]):
                continue
            n += 1
            tgt = s_.targets[0]
            vdeps = _deps(s_.value, params, defs)
            kdeps = _deps(tgt.slice, params, defs) | _deps(tgt.value, params, defs)
            # variables produced by one call form a group: knowing one fixes the others
            groups = _call_groups(f.node)
            covered = set(kdeps)
            for g in groups:
                if g & _names(tgt.slice):
                    for nm in g:
                        covered |= _deps(ast.Name(id=nm, ctx=ast.Load()), params, defs)
            missing = {p_ for p_ in vdeps - covered if p_ not in ("self", "cls", "cache")}
            cons = f"{q}"
            if missing:
                rep.violation("R6.memo-key-complete", cons, norm(tgt.value),
                              f"`{norm(s_)[:90]}` remembers a value that depends on {sorted(vdeps)} under a key that only "
                              f"depends on {sorted(kdeps) or 'nothing'}: a later call with another `{sorted(missing)[0]}` is "
                              f"served the result remembered for the first one", repo.rel(f.module, s_))
            else:
                rep.ok("R6.memo-key-complete", f"{q}:{norm(tgt)[:40]}", repo.rel(f.module, s_),
                       f"value deps {sorted(vdeps)} covered by key/container deps {sorted(kdeps)}")
    # a store into a container that is a *parameter* which callers bind to module state (`_get_cached_or_load(cache_dict, ...)`):
    # key and value dependencies are computed in the helper and translated, per call site, into the caller's terms
    for q, f in repo.funcs.items():
        if f.is_lambda or repo.by_node.get(id(f.node)) is not f or not eng.st[q].param_stores:
            continue
        hparams = [p_ for p_ in f.allparams if not (f.is_method and p_ == f.allparams[0])]
        hdefs = local_defs(f.node)
        hset = set(f.allparams)
        for s_ in ast.walk(f.node):
            if not (isinstance(s_, ast.Assign) and isinstance(s_.targets[0], ast.Subscript) and
                    isinstance(s_.targets[0].value, ast.Name) and s_.targets[0].value.id in hparams):
                continue
            cpar = s_.targets[0].value.id
            tgt = s_.targets[0]
            vdeps_h = _deps(s_.value, hset, hdefs)
            cov_h = _deps(tgt.slice, hset, hdefs) | {cpar}
            for g_ in _call_groups(f.node):
                if g_ & _names(tgt.slice):
                    for nm in g_:
                        cov_h |= _deps(ast.Name(id=nm, ctx=ast.Load()), hset, hdefs)
            for cq, cf in repo.funcs.items():
                if cf.is_lambda or repo.by_node.get(id(cf.node)) is not cf:
                    continue
                for c_ in ast.walk(cf.node):
                    if not (isinstance(c_, ast.Call) and ((isinstance(c_.func, ast.Attribute) and c_.func.attr == f.name) or
                                                           (isinstance(c_.func, ast.Name) and c_.func.id == f.name))):
                        continue
                    bind = dict(zip(hparams, c_.args))
                    bind.update({k_.arg: k_.value for k_ in c_.keywords if k_.arg})
                    if cpar not in bind:
                        continue
                    # only call sites that hand over module state
                    cst = eng.st[cq]
                    cdefs = local_defs(cf.node)
                    cset = set(cf.allparams)

                    def D(p_):
                        return _deps(bind[p_], cset, cdefs) if p_ in bind else set()
                    cav_names = {x.id for x in ast.walk(bind[cpar]) if isinstance(x, ast.Name)}
                    vd = set().union(*[D(p_) for p_ in vdeps_h if p_ in bind]) if vdeps_h else set()
                    cov = set().union(*[D(p_) for p_ in cov_h if p_ in bind]) if cov_h else set()
                    for g_ in _call_groups(cf.node):
                        key_names = set().union(*[{x.id for x in ast.walk(bind[p_]) if isinstance(x, ast.Name)}
                                                  for p_ in (_deps(tgt.slice, hset, hdefs) & set(bind))]) if bind else set()
                        if g_ & key_names:
                            for nm in g_:
                                cov |= _deps(ast.Name(id=nm, ctx=ast.Load()), cset, cdefs)
                    n += 1
                    missing = {p_ for p_ in vd - cov if p_ not in ("self", "cls", "cache")}
                    if missing:
                        rep.violation("R6.memo-key-complete", q, cpar,
                                      f"`{norm(s_)[:90]}` (called from {cq}) remembers a value that depends on {sorted(vd)} under a key "
                                      f"/ container that only depends on {sorted(cov) or 'nothing'}: a later call with another "
                                      f"`{sorted(missing)[0]}` is served the result remembered for the first one", repo.rel(f.module, s_))
                    else:
                        rep.ok("R6.memo-key-complete", f"{q}:{norm(tgt)[:40]}<-{cq}", repo.rel(f.module, s_),
                               f"value deps {sorted(vd)} covered by key/container deps {sorted(cov)} at the call site")
    rep.floor("stores into module-level containers", n, 1)


def _names(e):
    return {x.id for x in ast.walk(e) if isinstance(x, ast.Name)}


def _deps(expr, params, defs, seen=None):
    seen = seen if seen is not None else set()
    out = set()
    for n in ast.walk(expr):
        if isinstance(n, ast.Name):
            if n.id in params:
                out.add(n.id)
            if n.id in defs and n.id not in seen:
                seen.add(n.id)
                for v in defs[n.id]:
                    out |= _deps(v, params, defs, seen)
    return out


def _call_groups(fn):
    """Sets of names assigned together from one call (`a, b = f(...)`)."""
    out = []
    for s_ in ast.walk(fn):
        if isinstance(s_, ast.Assign) and isinstance(s_.targets[0], ast.Tuple) and isinstance(s_.value, ast.Call):
            out.append({x.id for x in s_.targets[0].elts if isinstance(x, ast.Name)})
    return out


def _leaves(t):
    if isinstance(t, (ast.Tuple, ast.List)):
        for e in t.elts:
            yield from _leaves(e)
    elif isinstance(t, ast.Starred):
        yield from _leaves(t.value)
    elif isinstance(t, ast.Subscript):
        yield from _leaves(t.value)
    else:
        yield t


def run(tier="quick", root="/repo", evidence_dir=None, quiet=False):
    rep = Report(PROP, tier, root, EXPLANATION, RULE, assumptions=[
        "closed world; library model as for C20",
        "freeze idiom recognised: ndarray.setflags(write=False) before the object is stored",
        "a module-level object is 'state' when the package stores into it or rebinds it after import",
    ])
    repo = get_repo(root)
    eng = get_e2(root)
    rep.attempt(rule_r1_r4, rep, repo, eng)
    rep.attempt(rule_r4, rep, repo)
    rep.attempt(rule_r3, rep, repo)
    rep.attempt(rule_r5, rep, repo)
    rep.attempt(rule_r6, rep, repo, eng)
    from gridlint.props import c02
    c02.rule_dispatch(rep, repo, prefix="R2.")
    rep.extra.update({"functions_analysed": len(repo.funcs), "fixpoint_rounds": eng.rounds,
                      "source_digest": repo.digest(["angular", "atomgrid", "basegrid", "rtransform", "coulomb"])})
    return rep.finish(evidence_dir=evidence_dir, quiet=quiet)
