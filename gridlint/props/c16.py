"""C16 -- Poisson solvers: the radial equations, their data and the assembly only.

The statement (the returned potential matches the analytic Coulomb potential, is linear in the
density, robust = core + residual) is numerical as a whole.  Four parts of it are visible in the shape
of poisson.py for every density, grid and option at once, and are decided here by evaluating the
functions over symbolic arrays (E10: splines, harmonics, the ODE solvers and the grids are
uninterpreted stubs that record what they are handed):

P1 radial-equation: for both atomic solvers and every (l, m) component, the function that
   `interpolate` multiplies with the harmonic Y_i satisfies the radial Poisson equation
   W'' + 2 W'/r - l(l+1) W/r^2 = -4 pi rho_i(r), *given* the ODE posed to the ODE solver for that
   component (coefficients, right-hand side) -- l being the degree of row i of the harmonics
   (rows l^2 .. (l+1)^2-1), rho_i the i-th radial component of the density.
P2 monopole-data: the conditions of component 0 encode V -> Q / r (BVP: u(0) = 0, u(inf) = Q / Y_00
   or the caller's boundary; IVP: V(r_max) = B / r_max and V'(r_max) = d/dr_max of that), the
   conditions of all other components are homogeneous.
P3 one ODE per harmonic row: the number of ODEs solved equals the number of rows of the harmonics
   used for the reconstruction (same l_max // 2 in both places).
P4 molecular assembly: every atom contributes, its solver receives the atom's own grid and the
   atom's own segment of w_A f, and the result is the sum of all atomic interpolants.
P5 interpolate_laplacian: the coefficient of Y_i is rho_i'' + 2 rho_i'/r - l(l+1) rho_i/r^2.
P6 the public wrappers forward every option to the atomic solver.

NOT decided: accuracy against analytic potentials, resolution envelope, linearity in floating
point, the robust solver's fit (numerical).
"""
from __future__ import annotations

import ast
import math

from gridlint.core import AnalysisError, Report
from gridlint.props.common import get_repo

PROP = "C16"
EXPLANATION = (
    "Formula analysis of poisson.py, nothing executed.  The two atomic solvers, the molecular helper, the "
    "Laplacian interpolant and the public wrappers are evaluated from their syntax trees over arrays "
    "with symbolic entries (E10): radial splines, harmonics, grids and the ODE solvers are stubs that "
    "record what they are handed and return uninterpreted functions.  Decided for every density, grid and "
    "option: the function multiplied with each harmonic satisfies the radial Poisson equation given the "
    "ODE posed for it; the monopole component carries the total charge and all others are homogeneous; "
    "one ODE per harmonic row; every atom contributes its own segment of w_A f on its own grid and the "
    "atomic results are summed; the Laplacian interpolant is the radial Laplacian per component; the "
    "wrappers forward every option.  NOT decided: accuracy, resolution, floating-point linearity, the "
    "robust solver's fit.")
RULE = "per solver x (l_max = 3, 4) x every (l, m) component; per atom of a two-atom molecule; per forwarded option"


def _sp():
    import sympy as sp
    return sp


class Cx:
    def __init__(self, repo):
        from gridlint import e10
        self.e10 = e10
        self.repo = repo
        self.funcs = {f.name: f for f in repo.funcs.values()
                      if f.module == "poisson" and f.cls is None and f.parent is None and isinstance(f.node, ast.FunctionDef)}
        for need in ("_solve_poisson_bvp_atomgrid", "_solve_poisson_ivp_atomgrid", "_interpolate_molgrid_helper",
                     "solve_poisson_bvp", "solve_poisson_ivp", "interpolate_laplacian"):
            if need not in self.funcs:
                raise AnalysisError(f"anchor vanished: poisson.{need}")
        self.nodes = {k: v.node for k, v in self.funcs.items()}
        self.globs = e10.module_globals_of(repo.modules["poisson"].tree)
        for k in list(self.globs):
            # classes of the package are handled by stubs, not as records
            if isinstance(self.globs[k], ast.ClassDef) and k in ("AtomGrid", "MolGrid"):
                del self.globs[k]

    def loc(self, name):
        return self.funcs[name].loc()

    def run(self, name, kw, ext, generic):
        it = self.e10.Interp(self.nodes, ext, generic=generic, module_globals=self.globs)
        try:
            return it.call_def(self.nodes[name], [], kw, {})
        except self.e10.Undecided as e:
            raise AnalysisError(f"poisson.{name} is outside the fragment the symbolic array evaluator knows: {e}") from e
        except (IndexError, ValueError, TypeError, KeyError, AttributeError) as e:
            raise AnalysisError(f"poisson.{name}: the evaluation over symbolic arrays failed ({type(e).__name__}: {e})") from e

    def apply(self, f, *args, **kw):
        try:
            return f(*args, **kw)
        except self.e10.Undecided as e:
            raise AnalysisError(f"a nested function of poisson.py is outside the fragment the symbolic array evaluator knows: {e}") from e
        except (IndexError, ValueError, TypeError, KeyError, AttributeError) as e:
            raise AnalysisError(f"the evaluation of a nested function of poisson.py failed ({type(e).__name__}: {e})") from e


class World:
    """Stubs for one atomic grid with a given l_max and N evaluation points."""

    def __init__(self, cx, l_max, npts=2, tag="", neutral=False):
        sp = _sp()
        e10 = cx.e10
        self.cx, self.l_max, self.tag = cx, l_max, tag
        self.L = l_max // 2
        self.ncomp = (self.L + 1) ** 2
        self.r = [sp.Symbol(f"r{tag}{n}", positive=True) for n in range(npts)]
        self.rcap = sp.Symbol("rho_", positive=True)
        self.generic = set(self.r) | {self.rcap}
        self.mesh = [sp.Symbol(f"s{tag}{n}", positive=True) for n in range(3)]
        self.generic |= set(self.mesh)
        # total charge: a generic non-zero value, or exactly zero (a signed, net-neutral density)
        self.Q = sp.Integer(0) if neutral else sp.Symbol(f"Q{tag}", positive=True)
        self.Y00 = sp.Symbol("Y00c", positive=True)
        self.generic |= {self.Y00} | ({self.Q} if not neutral else set())
        self.harm_calls = []
        self.spline_inputs = []
        self.odes = []
        world = self

        def spline(i):
            def ev(r, nu=0):
                name = f"RHO{tag}_{i}" if not nu else f"RHO{tag}_{i}_d{int(nu)}"
                return e10.Fn(name)(r)
            return ev

        def radial_component_splines(vals):
            world.spline_inputs.append(vals)
            return [spline(i) for i in range(world.ncomp)]

        def to_spherical(points):
            out = e10._obj_array([[world.r[n], sp.Symbol(f"th{tag}{n}"), sp.Symbol(f"ph{tag}{n}")] for n in range(npts)])
            return out

        self.atomgrid = e10.Obj(f"atomgrid{tag}", cls="AtomGrid", l_max=l_max, size=7,
                                radial_component_splines=radial_component_splines,
                                integrate=lambda vals: world.Q,
                                rgrid=e10.Obj("rgrid", points=e10.arr(list(self.mesh))),
                                convert_cartesian_to_spherical=to_spherical)

        def harmonics(l, theta, phi):
            l = int(l)
            th = theta if hasattr(theta, "shape") else e10._obj_array(theta)
            symbolic = any(isinstance(t, sp.Basic) and t.free_symbols for t in th.flatten())
            world.harm_calls.append((l, symbolic))
            rows = (l + 1) ** 2
            out = e10._obj_array([[(sp.Symbol(f"Y{tag}_{i}_{n}") if symbolic else (world.Y00 if i == 0 else sp.Symbol(f"Yc{i}")))
                                   for n in range(len(th))] for i in range(rows)])
            return out

        def ode_stub(kind):
            def solve(*args, **kw):
                if kind == "bvp":
                    names = ("x", "fx", "coeffs", "bd_cond", "transform")
                else:
                    names = ("x_span", "fx", "coeffs", "y0", "transform")
                rec = dict(zip(names, args))
                rec.update(kw)
                r_ = e10.arr([world.rcap])

                def call(c):
                    # a closure, a stub, or a module-level function passed by name
                    if isinstance(c, tuple) and len(c) == 2 and c[0] == "modfunc":
                        it2 = e10.Interp(world.cx.nodes, world.ext, generic=world.generic, module_globals=world.cx.globs)
                        return world.cx.apply(lambda *a: it2.call_def(world.cx.nodes[c[1]], list(a), {}, {}), r_)
                    return world.cx.apply(c, r_)
                f = call(rec["fx"])
                f = f[0] if hasattr(f, "shape") else f
                cs = []
                for c in rec["coeffs"]:
                    if isinstance(c, (e10.Closure, e10.Fn)) or callable(c) or (isinstance(c, tuple) and len(c) == 2 and c[0] == "modfunc"):
                        v = call(c)
                        cs.append(v[0] if hasattr(v, "shape") else v)
                    else:
                        cs.append(sp.nsimplify(c) if isinstance(c, (int, float)) else c)
                idx = len(world.odes)
                world.odes.append({"kind": kind, "f": f, "coeffs": cs, "rec": rec})
                return e10.Fn(f"U{tag}_{idx}")
            return solve

        self.ext = {"generate_real_spherical_harmonics": harmonics, "solve_ode_bvp": ode_stub("bvp"),
                    "solve_ode_ivp": ode_stub("ivp"), "AtomGrid": e10.Cls("AtomGrid"), "MolGrid": e10.Cls("MolGrid")}
        self.transform = e10.Obj("transform", domain=(sp.Symbol("DOM0"), sp.Symbol("DOM1")))


def _degree(i):
    return math.isqrt(i)


def _radial_rule(rep, cx, solver, kind, w, interp, here, note=""):
    """P1 + P3 for one solver run."""
    sp = _sp()
    e10 = cx.e10
    pts = e10._obj_array([[sp.Symbol(f"x{w.tag}{n}{a}") for a in range(3)] for n in range(len(w.r))])
    out = cx.apply(interp, pts)
    if not hasattr(out, "shape") or out.shape != (len(w.r),):
        rep.violation("P1.radial-equation", f"poisson.{solver}.interpolate", "shape",
                      f"the interpolant returns shape {getattr(out, 'shape', None)} for {len(w.r)} points", here)
        return 0
    recon = [h for h in w.harm_calls if h[1]]
    if not recon:
        rep.violation("P1.radial-equation", f"poisson.{solver}.interpolate", "reconstruction",
                      f"l_max = {w.l_max}{note}: the returned potential `{[str(v)[:40] for v in list(out)]}` is not assembled from the "
                      f"radial solutions and the harmonics at the evaluation points ({len(w.odes)} radial ODEs were posed); the radial "
                      f"components rho_i of the density are arbitrary, so W'' + 2W'/r - l(l+1)W/r^2 = -4 pi rho_i cannot hold", here)
        return 0
    if len(recon) != 1:
        raise AnalysisError(f"poisson.{solver}: expected one evaluation of the harmonics at the evaluation points, found {len(recon)}")
    rows = (recon[0][0] + 1) ** 2
    cfg = f"l_max = {w.l_max}{note}"
    if len(w.odes) != rows:
        rep.violation("P3.one-ode-per-harmonic", f"poisson.{solver}", "count",
                      f"{cfg}: {len(w.odes)} radial ODEs are solved but the reconstruction uses {rows} harmonic rows "
                      f"(degree {recon[0][0]})", here)
        return 0
    rep.ok("P3.one-ode-per-harmonic", f"{solver}[{cfg}]", here, f"{rows} ODEs / {rows} harmonic rows")
    n = 0
    for i in range(rows):
        l = _degree(i)
        ode = w.odes[i]
        if len(ode["coeffs"]) != 3:
            rep.violation("P1.radial-equation", f"poisson.{solver}", f"order[{i}]",
                          f"{cfg}: component {i} is posed as an ODE with {len(ode['coeffs'])} coefficients; the radial Poisson "
                          f"equation is of second order", here)
            continue
        for p_ in range(len(w.r)):
            r = w.r[p_]
            y = sp.Symbol(f"Y{w.tag}_{i}_{p_}")
            expr = sp.expand(out[p_])
            W = expr.coeff(y)
            U = sp.Function(f"U{w.tag}_{i}")
            other = [a for a in W.atoms(sp.core.function.AppliedUndef) if a.func != U]
            if other or not W.has(U(r)):
                rep.violation("P1.radial-equation", f"poisson.{solver}.interpolate", f"pairing[{i}]",
                              f"{cfg}: harmonic row {i} is multiplied by `{str(W)[:80]}`, which is not (only) the solution of "
                              f"the {i}-th radial ODE", here)
                break
            c0, c1, c2 = [sp.sympify(c).subs(w.rcap, r) for c in ode["coeffs"]]
            f = sp.sympify(ode["f"]).subs(w.rcap, r)
            if sp.simplify(c2) == 0:
                rep.violation("P1.radial-equation", f"poisson.{solver}", f"leading[{i}]",
                              f"{cfg}: the leading coefficient of the ODE of component {i} vanishes", here)
                break
            lap = sp.diff(W, r, 2) + 2 * sp.diff(W, r) / r - l * (l + 1) * W / r ** 2
            u2 = (f - c0 * U(r) - c1 * sp.Derivative(U(r), r)) / c2
            lap = lap.subs(sp.Derivative(U(r), (r, 2)), u2)
            rho = sp.Function(f"RHO{w.tag}_{i}")(r)
            res = sp.simplify(lap + 4 * sp.pi * rho)
            n += 1
            if res != 0:
                rep.violation("P1.radial-equation", f"poisson.{solver}", f"component[l={l}]",
                              f"{cfg}, harmonic row {i} (degree {l}): with the ODE posed for it "
                              f"(`{c0}`*U + `{c1}`*U' + `{c2}`*U'' = `{f}`) the radial function `{W}` multiplied with Y_{i} "
                              f"does not satisfy W'' + 2W'/r - l(l+1)W/r^2 = -4 pi rho_{i}: the residual is `{str(res)[:160]}`", here)
                break
    if n:
        rep.ok("P1.radial-equation", f"{solver}[{cfg}]", here, f"{n} (component, point) identities")
    return n


def rule_bvp(rep, cx):
    sp = _sp()
    name = "_solve_poisson_bvp_atomgrid"
    here = cx.loc(name)
    n = nb = 0
    for l_max in (3, 4):
        for given, neutral in ((False, False), (True, False), (False, True)):
            w = World(cx, l_max, neutral=neutral)
            B = sp.Symbol("B", positive=True)
            w.generic.add(B)
            kw = {"atomgrid": w.atomgrid, "func_vals": cx.e10.Unknown("density values"), "transform": w.transform,
                  "boundary": B if given else None, "remove_large_pts": None}
            interp = cx.run(name, kw, w.ext, w.generic)
            if not callable(interp):
                raise AnalysisError(f"poisson.{name} does not return a function")
            if not given:
                n += _radial_rule(rep, cx, name, "bvp", w, interp, here, " (net-neutral density: total charge exactly 0)" if neutral else "")
            # P2
            want_b = B if given else w.Q / w.Y00
            for i, ode in enumerate(w.odes):
                bc = ode["rec"].get("bd_cond")
                try:
                    got = sorted((int(a), int(b), sp.simplify(c)) for a, b, c in bc)
                except (TypeError, ValueError) as e:
                    raise AnalysisError(f"poisson.{name}: boundary conditions of component {i} are not (side, order, value) triples") from e
                want = sorted([(0, 0, sp.Integer(0)), (1, 0, sp.simplify(want_b) if i == 0 else sp.Integer(0))], key=str)
                nb += 1
                if sorted(got, key=str) != want:
                    rep.violation("P2.monopole-data", f"poisson.{name}", "monopole" if i == 0 else "higher-components",
                                  f"l_max = {l_max}, component {i}{' (caller-supplied boundary B)' if given else ''}: the boundary "
                                  f"conditions are {got}; u = r V must vanish at the origin and tend to "
                                  f"{'the total charge / Y_00 (or the given boundary)' if i == 0 else 'zero'} at the far end: {want}", here)
                    break
            else:
                rep.ok("P2.monopole-data", f"{name}[l_max = {l_max}, boundary {'given' if given else 'zero charge' if neutral else 'computed'}]", here,
                       "u(0) = 0, u(inf) = Q/Y00 for the monopole, 0 otherwise")
    rep.floor("P1 identities (bvp)", n, 2 * 2 * (4 + 9))
    rep.floor("P2 components (bvp)", nb, 3 * (4 + 9))


def rule_ivp(rep, cx):
    sp = _sp()
    name = "_solve_poisson_ivp_atomgrid"
    here = cx.loc(name)
    n = nb = 0
    for l_max, neutral in ((3, False), (4, False), (3, True)):
        w = World(cx, l_max, neutral=neutral)
        rmax, rmin = sp.Symbol("RMAX", positive=True), sp.Symbol("RMIN", positive=True)
        kw = {"atomgrid": w.atomgrid, "func_vals": cx.e10.Unknown("density values"), "transform": w.transform,
              "r_interval": (rmax, rmin)}
        interp = cx.run(name, kw, w.ext, w.generic)
        if not callable(interp):
            raise AnalysisError(f"poisson.{name} does not return a function")
        n += _radial_rule(rep, cx, name, "ivp", w, interp, here, " (net-neutral density: total charge exactly 0)" if neutral else "")
        for i, ode in enumerate(w.odes):
            y0 = list(ode["rec"].get("y0"))
            span = ode["rec"].get("x_span")
            nb += 1
            if i == 0:
                # which radial function does the reconstruction use?  V itself (the interpolant multiplies U) --
                # the initial data must be those of B / r at r_max with B Y_00 = Q
                good = len(y0) == 2 and sp.simplify(y0[0] * rmax * w.Y00 - w.Q) == 0 and \
                    sp.simplify(y0[1] - sp.diff(y0[0], rmax)) == 0
            else:
                good = len(y0) == 2 and all(sp.simplify(sp.nsimplify(v)) == 0 for v in y0)
            if list(span) != [rmax, rmin]:
                rep.violation("P2.monopole-data", f"poisson.{name}", "interval",
                              f"the integration interval handed to the ODE solver is {span}, not the caller's r_interval", here)
                break
            if not good:
                rep.violation("P2.monopole-data", f"poisson.{name}", "monopole" if i == 0 else "higher-components",
                              f"l_max = {l_max}, component {i}: the initial data at r_max are {y0}; "
                              f"{'the monopole must start on Q/(Y_00 r) and its r-derivative' if i == 0 else 'higher components start at zero'}", here)
                break
        else:
            rep.ok("P2.monopole-data", f"{name}[l_max = {l_max}]", here, "V(r_max) = Q/(Y00 r_max), V' = d/dr of it; others 0")
    rep.floor("P1 identities (ivp)", n, 2 * (4 + 9 + 4))
    rep.floor("P2 components (ivp)", nb, 4 + 9 + 4)


def rule_assembly(rep, cx):
    sp = _sp()
    e10 = cx.e10
    name = "_interpolate_molgrid_helper"
    here = cx.loc(name)
    N, idx = 5, [0, 2, 5]
    fv = e10.arr([sp.Symbol(f"f{n}") for n in range(N)])
    aw = e10.arr([sp.Symbol(f"w{n}") for n in range(N)])
    grids = [e10.Obj(f"atom{a}", cls="AtomGrid") for a in range(2)]
    mol = e10.Obj("molgrid", cls="MolGrid", atgrids=grids, aim_weights=aw, indices=e10.arr(idx),
                  atcoords=e10._obj_array([[sp.Symbol(f"c{a}{k}") for k in range(3)] for a in range(2)]),
                  __getitem__=lambda i: grids[int(i)], size=N)
    calls = []

    def per_atom(atom_grid, vals):
        k = len(calls)
        calls.append((atom_grid, vals))
        return lambda points, *a, **kw_: e10.arr([sp.Symbol(f"I{k}_{n}") for n in range(2)])

    ps = [a.arg for a in cx.nodes[name].args.args]
    if len(ps) != 3:
        raise AnalysisError(f"unrecognised signature of poisson.{name}")
    tot = cx.run(name, {ps[0]: mol, ps[1]: fv, ps[2]: per_atom}, {"AtomGrid": e10.Cls("AtomGrid"), "MolGrid": e10.Cls("MolGrid")}, set())
    _check_assembly(rep, cx, name, here, calls, grids, fv, aw, idx, tot, extra_args=())
    # the Laplacian interpolant repeats the assembly; its per-atom part is P5
    rule_laplacian(rep, cx)


def _check_assembly(rep, cx, name, here, calls, grids, fv, aw, idx, tot, extra_args):
    sp = _sp()
    e10 = cx.e10
    if len(calls) != 2:
        rep.violation("P4.molecular-assembly", f"poisson.{name}", "every-atom",
                      f"for a molecule of two atoms the atomic solver is invoked {len(calls)} time(s)", here)
        return
    for a, (g, vals) in enumerate(calls):
        want = [fv[n] * aw[n] for n in range(idx[a], idx[a + 1])]
        got = list(vals) if hasattr(vals, "__len__") else None
        if g is not grids[a]:
            rep.violation("P4.molecular-assembly", f"poisson.{name}", "atom-grid",
                          f"call {a} of the atomic solver receives {g!r} instead of the grid of atom {a}", here)
        if got is None or len(got) != len(want) or any(sp.expand(x - y) != 0 for x, y in zip(got, want)):
            rep.violation("P4.molecular-assembly", f"poisson.{name}", "segment",
                          f"atom {a} (points {idx[a]}..{idx[a + 1] - 1}) receives the values {[str(x) for x in (got or [])]}; "
                          f"expected its own segment of w_A f: {[str(x) for x in want]}", here)
    if not callable(tot):
        raise AnalysisError(f"poisson.{name} does not return a function")
    out = cx.apply(tot, e10.Unknown("points"), *extra_args)
    want = [sp.Symbol(f"I0_{n}") + sp.Symbol(f"I1_{n}") for n in range(2)]
    if not hasattr(out, "shape") or out.shape != (2,) or any(sp.expand(out[n] - want[n]) != 0 for n in range(2)):
        rep.violation("P4.molecular-assembly", f"poisson.{name}", "sum",
                      f"the molecular result is {[str(x) for x in (list(out) if hasattr(out, '__len__') else [out])]}; "
                      f"expected the sum of the atomic interpolants {[str(x) for x in want]}", here)
    else:
        rep.ok("P4.molecular-assembly", f"{name}[two atoms]", here, "own grid, own segment of w_A f, summed")


def rule_laplacian(rep, cx):
    sp = _sp()
    e10 = cx.e10
    name = "interpolate_laplacian"
    here = cx.loc(name)
    n = 0
    for l_max in (3, 4):
        N, idx = 5, [0, 2, 5]
        fv = e10.arr([sp.Symbol(f"f{k}") for k in range(N)])
        aw = e10.arr([sp.Symbol(f"w{k}") for k in range(N)])
        worlds = [World(cx, l_max, tag=f"a{a}") for a in range(2)]
        grids = [w.atomgrid for w in worlds]
        mol = e10.Obj("molgrid", cls="MolGrid", atgrids=grids, aim_weights=aw, indices=e10.arr(idx),
                      atcoords=e10._obj_array([[sp.Symbol(f"c{a}{k}") for k in range(3)] for a in range(2)]),
                      __getitem__=lambda i: grids[int(i)], size=N)

        def harmonics(l, theta, phi):
            # dispatch on the point symbols: each atom has its own angles
            th = list(theta)
            for w in worlds:
                if str(th[0]).startswith(f"th{w.tag}"):
                    return w.ext["generate_real_spherical_harmonics"](l, theta, phi)
            raise e10.Undecided("harmonics at unknown angles")
        generic = set().union(*[w.generic for w in worlds])
        ext = {"generate_real_spherical_harmonics": harmonics, "AtomGrid": e10.Cls("AtomGrid"), "MolGrid": e10.Cls("MolGrid")}
        ps = [a.arg for a in cx.nodes[name].args.args]
        tot = cx.run(name, {ps[0]: mol, ps[1]: fv}, ext, generic)
        if not callable(tot):
            raise AnalysisError(f"poisson.{name} does not return a function")
        it_out = cx.apply(tot, e10.Unknown("points"))
        if not hasattr(it_out, "shape") or it_out.shape != (2,):
            raise AnalysisError(f"poisson.{name}: the interpolant returns shape {getattr(it_out, 'shape', None)} for two points")
        for a, w in enumerate(worlds):
            want_seg = [fv[k] * aw[k] for k in range(idx[a], idx[a + 1])]
            segs = [list(v) for v in w.spline_inputs]
            if not segs or any(len(s) != len(want_seg) or any(sp.expand(x - y) != 0 for x, y in zip(s, want_seg)) for s in segs):
                rep.violation("P4.molecular-assembly", f"poisson.{name}", "segment",
                              f"the radial components of atom {a} are built from {[[str(x) for x in s] for s in segs][:1]}; expected "
                              f"its own segment of w_A f: {[str(x) for x in want_seg]}", here)
            rows = (w.L + 1) ** 2
            for p_ in range(2):
                expr = sp.expand(it_out[p_])
                r = w.r[p_]
                for i in range(rows):
                    l = _degree(i)
                    y = sp.Symbol(f"Y{w.tag}_{i}_{p_}")
                    got = expr.coeff(y)
                    f0, f1, f2 = (sp.Function(f"RHO{w.tag}_{i}" + (f"_d{k}" if k else ""))(r) for k in (0, 1, 2))
                    want = f2 + 2 * f1 / r - l * (l + 1) * f0 / r ** 2
                    n += 1
                    if sp.simplify(got - want) != 0:
                        rep.violation("P5.laplacian-per-component", f"poisson.{name}", f"component[l={l}]",
                                      f"l_max = {l_max}, atom {a}, harmonic row {i} (degree {l}): the coefficient of Y_{i} is "
                                      f"`{str(got)[:120]}`; the radial Laplacian of rho_{i}(r) Y_{i} is `{want}`", here)
                        break
                else:
                    continue
                break
        rep.ok("P5.laplacian-per-component", f"{name}[l_max = {l_max}]", here, "rho'' + 2 rho'/r - l(l+1) rho/r^2 per harmonic row, two atoms")
    rep.floor("P5 coefficients", n, 2 * 2 * (4 + 9))


def rule_wrappers(rep, cx):
    sp = _sp()
    e10 = cx.e10
    n = 0
    for wrapper, inner in (("solve_poisson_bvp", "_solve_poisson_bvp_atomgrid"), ("solve_poisson_ivp", "_solve_poisson_ivp_atomgrid")):
        here = cx.loc(wrapper)
        ps = [a.arg for a in cx.nodes[wrapper].args.args]
        inner_ps = [a.arg for a in cx.nodes[inner].args.args]
        vals = {p_: sp.Symbol(f"ARG_{p_}") for p_ in ps}
        seen = {}

        def helper(molgrid, func_vals, interpolate_callable):
            seen["helper"] = (molgrid, func_vals)
            return interpolate_callable(sp.Symbol("ATOMGRID"), sp.Symbol("ATOMVALS"))

        def inner_stub(*args, **kw):
            got = dict(zip(inner_ps, args))
            got.update(kw)
            seen["inner"] = got
            return sp.Symbol("RESULT")

        out = cx.run(wrapper, vals, {"_interpolate_molgrid_helper": helper, inner: inner_stub}, set())
        if "inner" not in seen or "helper" not in seen:
            raise AnalysisError(f"poisson.{wrapper} does not go through the molecular helper to {inner}")
        got = seen["inner"]
        if seen["helper"] != (vals[ps[0]], vals[ps[1]]):
            rep.violation("P6.options-forwarded", f"poisson.{wrapper}", "grid-and-values",
                          "the molecular helper does not receive the caller's grid and values", here)
        if got.get(inner_ps[0]) != sp.Symbol("ATOMGRID") or got.get(inner_ps[1]) != sp.Symbol("ATOMVALS"):
            rep.violation("P6.options-forwarded", f"poisson.{wrapper}", "atom-arguments",
                          f"{inner} must receive the atomic grid and the atomic values handed over by the helper", here)
        for p_ in ps[2:]:
            n += 1
            if p_ in inner_ps and got.get(p_) != vals[p_]:
                rep.violation("P6.options-forwarded", f"poisson.{wrapper}", p_,
                              f"the option `{p_}` is not forwarded to {inner} (it receives `{got.get(p_)}`)", here)
        if out != sp.Symbol("RESULT"):
            rep.violation("P6.options-forwarded", f"poisson.{wrapper}", "result", "the wrapper does not return the helper's result", here)
        rep.ok("P6.options-forwarded", wrapper, here, f"{len(ps) - 2} options")
    rep.floor("P6 options", n, 7)


def run(tier="quick", root="/repo", evidence_dir=None, quiet=False):
    rep = Report(PROP, tier, root, EXPLANATION, RULE, assumptions=[
        "rows of generate_real_spherical_harmonics(L, ...) are ordered by degree: rows l^2 .. (l+1)^2 - 1 have degree l "
        "(documented Horton order); radial_component_splines returns one spline per row in the same order",
        "solve_ode_bvp / solve_ode_ivp return the solution of the ODE they are handed (C15 decides their algebra); "
        "spline(r, k) is the k-th derivative of spline(r)",
        "evaluation radii are generic: positive and larger than every literal cut-off below 1e-3 (the patched values at "
        "the origin are not decided)",
        "validation guards (an `if` that only raises or warns) are passed by accepted inputs",
    ])
    repo = get_repo(root)
    cx = Cx(repo)
    rep.attempt(rule_bvp, rep, cx)
    rep.attempt(rule_ivp, rep, cx)
    rep.attempt(rule_assembly, rep, cx)
    rep.attempt(rule_wrappers, rep, cx)
    rep.attempt(rule_robust, rep, repo)
    rep.attempt(rule_fit, rep, repo)
    rep.extra["source_digest"] = repo.digest(["poisson", "robust_poisson"])
    return rep.finish(evidence_dir=evidence_dir, quiet=quiet)


# ---------------------------------------------------------------------------------------- robust
def rule_robust(rep, repo):
    """P7: solve_poisson_robust = analytic potential of exactly the density it subtracts + numerical potential
    of what is left."""
    sp = _sp()
    from gridlint import e10
    funcs = {f.name: f for f in repo.funcs.values()
             if f.module == "robust_poisson" and f.cls is None and f.parent is None and isinstance(f.node, ast.FunctionDef)}
    name = "solve_poisson_robust"
    if name not in funcs:
        raise AnalysisError("anchor vanished: robust_poisson.solve_poisson_robust")
    nodes = {k: v.node for k, v in funcs.items()}
    here = funcs[name].loc()
    n = 0
    for split2 in (False, True):
        N, M = 3, 2
        D = e10.arr([sp.Symbol(f"D{k}") for k in range(N)])
        gp = e10._obj_array([[sp.Symbol(f"g{k}{c}", real=True) for c in range(3)] for k in range(N)])
        mol = e10.Obj("molgrid", cls="MolGrid", points=gp)
        atnums = [sp.Symbol("Z0"), sp.Symbol("Z1")]
        atc = e10._obj_array([[sp.Symbol(f"R{a}{c}", real=True) for c in range(3)] for a in range(2)])
        params = {a: (e10.arr([sp.Symbol(f"c{a}_{k}") for k in range(2)]),
                      e10.arr([sp.Symbol(f"al{a}_{k}", positive=True) for k in range(2)])) for a in range(2)}
        pot_calls, solver = [], {}

        def load(z):
            for a in range(2):
                if z == atnums[a]:
                    return params[a]
            raise e10.Undecided("parameters of an unknown element")

        def coulomb(points, **kw):
            k = len(pot_calls)
            pot_calls.append(dict(kw, points=points))
            return e10.arr([sp.Symbol(f"VC{k}_{m}") for m in range(M)])

        def bvp(molgrid, vals, transform, **kw):
            solver["vals"], solver["grid"], solver["kw"] = vals, molgrid, kw
            return lambda points: e10.arr([sp.Symbol(f"VRES_{m}") for m in range(M)])

        fit_out = (e10.arr([sp.Symbol("fc0"), sp.Symbol("fc1")]), e10.arr([sp.Symbol("fa0"), sp.Symbol("fa1")]),
                   e10._obj_array([[sp.Symbol(f"fr{k}{c}") for c in range(3)] for k in range(2)]),
                   e10.arr([sp.Symbol(f"RES2_{k}") for k in range(N)]))
        fit_in = {}

        def fit(grid_pts, residual, atcoords, alphas_basis):
            fit_in["residual"] = residual.copy()
            return fit_out

        ext = {"load_atomic_gaussian_params": load, "coulomb_potential": coulomb, "solve_poisson_bvp": bvp,
               "_fit_residual_gaussians": fit}
        it = e10.Interp(nodes, ext, module_globals=e10.module_globals_of(repo.modules["robust_poisson"].tree))
        kw = {"molgrid": mol, "density_vals": D, "transform": e10.Obj("transform"), "atnums": atnums, "atcoords": atc,
              "split2": split2, "alphas_basis": e10.arr([sp.Symbol("ab0", positive=True)]), "tol": sp.Symbol("TOL")}
        try:
            total = it.call_def(nodes[name], [], kw, {})
            P = e10._obj_array([[sp.Symbol(f"p{m}{c}", real=True) for c in range(3)] for m in range(M)])
            out = total(P)
        except e10.Undecided as e:
            raise AnalysisError(f"robust_poisson.{name} is outside the fragment the symbolic array evaluator knows: {e}") from e
        except (IndexError, ValueError, TypeError, KeyError, AttributeError) as e:
            raise AnalysisError(f"robust_poisson.{name}: the evaluation over symbolic arrays failed ({type(e).__name__}: {e})") from e
        cfg = "split2" if split2 else "core subtraction only"
        # (a) what is subtracted: the normalised (or bare) s-Gaussian density of the loaded parameters
        sub_vals = fit_in.get("residual") if split2 else solver.get("vals")
        if sub_vals is None or "vals" not in solver:
            raise AnalysisError(f"robust_poisson.{name}: the Poisson solver / the fit is not reached ({cfg})")

        def core(k, normalised):
            tot = sp.Integer(0)
            for a in range(2):
                r2 = sum((gp[k, c] - atc[a, c]) ** 2 for c in range(3))
                for j in range(2):
                    c_, al = params[a][0][j], params[a][1][j]
                    tot += c_ * ((al / sp.pi) ** sp.Rational(3, 2) if normalised else 1) * sp.exp(-al * r2)
            return tot
        kind = None
        for normalised in (True, False):
            if all(sp.simplify(sub_vals[k] - (D[k] - core(k, normalised))) == 0 for k in range(N)):
                kind = normalised
        n += 1
        if kind is None:
            rep.violation("P7.robust-recombination", f"robust_poisson.{name}", "subtracted-density",
                          f"{cfg}: the values left after the core subtraction are not density - sum over all atoms and "
                          f"primitives of the s-Gaussian density of the loaded parameters (first entry: `{str(sub_vals[0])[:160]}`)", here)
            continue
        # (b) what is added back analytically: the same parameters, the same centres, matching normalisation
        core_calls = pot_calls[:2]
        ok = len(pot_calls) == (3 if split2 else 2)
        for a, c in enumerate(core_calls):
            cen = c.get("centers_s")
            same = cen is not None and getattr(cen, "shape", None) == (2, 3) and all(cen[j, x] == atc[a, x] for j in range(2) for x in range(3))
            same = same and list(c.get("coeffs_s", [])) == list(params[a][0]) and list(c.get("alphas_s", [])) == list(params[a][1])
            same = same and c.get("normalized") is kind and c.get("points") is not None and c.get("centers_p") is None
            ok = ok and same
        if not ok:
            rep.violation("P7.robust-recombination", f"robust_poisson.{name}", "core-potential",
                          f"{cfg}: the analytic potential added back is not that of the subtracted density: one "
                          f"coulomb_potential call per atom with the atom's centre, its loaded coefficients and exponents and "
                          f"normalized={kind} is required; found {[{k: str(v)[:40] for k, v in c.items() if k != 'points'} for c in pot_calls]}", here)
            continue
        # (c) the numerical part and the sum
        want_solver = list(fit_out[3]) if split2 else None
        if split2 and (list(solver["vals"]) != want_solver):
            rep.violation("P7.robust-recombination", f"robust_poisson.{name}", "fit-residual",
                          "split2: the Poisson solver must receive the residual returned by the fit", here)
            continue
        if split2:
            c = pot_calls[2]
            if not (list(c.get("coeffs_s", [])) == list(fit_out[0]) and list(c.get("alphas_s", [])) == list(fit_out[1])
                    and getattr(c.get("centers_s"), "shape", None) == (2, 3) and (c.get("centers_s") == fit_out[2]).all()
                    and c.get("normalized") is True):
                rep.violation("P7.robust-recombination", f"robust_poisson.{name}", "bonding-potential",
                              "split2: the potential of the fitted Gaussians must use the fitted coefficients, exponents and "
                              "centres with normalized=True (the fit uses normalised primitives)", here)
                continue
        if solver["grid"] is not mol or solver["kw"].get("tol") != sp.Symbol("TOL"):
            rep.violation("P7.robust-recombination", f"robust_poisson.{name}", "solver-arguments",
                          f"{cfg}: the numerical solver must receive the caller's grid and keyword options", here)
            continue
        want = [sum(sp.Symbol(f"VC{k}_{m}") for k in range(len(pot_calls))) + sp.Symbol(f"VRES_{m}") for m in range(M)]
        if not hasattr(out, "shape") or out.shape != (M,) or any(sp.expand(out[m] - want[m]) != 0 for m in range(M)):
            rep.violation("P7.robust-recombination", f"robust_poisson.{name}", "sum",
                          f"{cfg}: the total potential is {[str(x) for x in (list(out) if hasattr(out, '__len__') else [out])]}, expected "
                          f"the sum of every analytic part and the numerical part {[str(x) for x in want]}", here)
            continue
        rep.ok("P7.robust-recombination", f"{name}[{cfg}]", here,
               f"subtracts the {'normalised' if kind else 'bare'} s-Gaussian density of the loaded parameters, adds back its potential, sums")
    rep.floor("P7 configurations", n, 2)


def rule_fit(rep, repo):
    """P8: the second split removes from the residual exactly the Gaussians it reports."""
    sp = _sp()
    from gridlint import e10
    funcs = {f.name: f for f in repo.funcs.values()
             if f.module == "robust_poisson" and f.cls is None and f.parent is None and isinstance(f.node, ast.FunctionDef)}
    name = "_fit_residual_gaussians"
    if name not in funcs:
        rep.note("robust_poisson has no _fit_residual_gaussians helper (rule P8 not applicable)")
        return
    nodes = {k: v.node for k, v in funcs.items()}
    here = funcs[name].loc()
    ps = [a.arg for a in funcs[name].node.args.args]
    if len(ps) != 4:
        raise AnalysisError(f"unrecognised signature of robust_poisson.{name}")
    N, A_, K = 2, 2, 2
    n = 0
    for descending in (False, True):
        gp = e10._obj_array([[sp.Symbol(f"g{k}{c}", real=True) for c in range(3)] for k in range(N)])
        atc = e10._obj_array([[sp.Symbol(f"R{a}{c}", real=True) for c in range(3)] for a in range(A_)])
        res = e10.arr([sp.Symbol(f"res{k}") for k in range(N)])
        ab = [sp.Symbol(f"ab{k}", positive=True) for k in range(K)]
        calls = []

        def nnls(A, b, **kw):
            k = len(calls)
            calls.append((A, b))
            return e10.arr([sp.Symbol(f"co{k}_{j}", positive=True) for j in range(A.shape[1])]), sp.Symbol(f"rn{k}")
        generic = {sp.Symbol(f"co{k}_{j}", positive=True) for k in range(A_) for j in range(K)}
        it = e10.Interp(nodes, {"nnls": nnls}, generic=generic, module_globals=e10.module_globals_of(repo.modules["robust_poisson"].tree))
        it.chain = list(reversed(ab)) if descending else list(ab)
        cfg = "basis given in descending order" if descending else "basis given in ascending order"
        try:
            out = it.call_def(nodes[name], [gp, res, atc, e10.arr(ab)], {}, {})
        except e10.Undecided as e:
            raise AnalysisError(f"robust_poisson.{name} is outside the fragment the symbolic array evaluator knows: {e}") from e
        except (IndexError, ValueError, TypeError, KeyError, AttributeError) as e:
            raise AnalysisError(f"robust_poisson.{name}: the evaluation over symbolic arrays failed ({type(e).__name__}: {e})") from e
        if not isinstance(out, (tuple, list)) or len(out) != 4:
            raise AnalysisError(f"robust_poisson.{name} does not return (coefficients, exponents, centres, residual)")
        co, al, ce, rout = out
        co, al = list(co), list(al)
        ce = ce if hasattr(ce, "shape") else e10._obj_array(ce)
        n += 1
        if not (len(co) == len(al) == ce.shape[0]) or len(list(rout)) != N:
            rep.violation("P8.fit-consistency", f"robust_poisson.{name}", "lengths",
                          f"{cfg}: {len(co)} coefficients, {len(al)} exponents, {ce.shape[0]} centres are returned", here)
            continue
        bad = False
        for k in range(N):
            removed = sum(co[t] * (al[t] / sp.pi) ** sp.Rational(3, 2) * sp.exp(-al[t] * sum((gp[k, c] - ce[t, c]) ** 2 for c in range(3)))
                          for t in range(len(co)))
            if sp.simplify(sp.expand(rout[k] - (res[k] - removed))) != 0:
                rep.violation("P8.fit-consistency", f"robust_poisson.{name}", "removed-equals-reported",
                              f"{cfg}: the residual handed on is not the input residual minus the normalised s-Gaussians that the "
                              f"function reports (coefficient, exponent, centre triples): what is subtracted from the density and what "
                              f"is later added back analytically are different functions", here)
                bad = True
                break
        if not bad:
            rep.ok("P8.fit-consistency", f"{name}[{cfg}]", here, f"{len(co)} reported Gaussians = what is removed from the residual")
    rep.floor("P8 configurations", n, 2)
