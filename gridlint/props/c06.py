"""C06 -- Becke weights: route agreement and two guards (numerical clauses declined).

R1 clone agreement (E5): the pipelines of ``generate_weights`` (whole-grid / segment route) and
   ``compute_atom_weight`` (per-atom route), from the distances to the product over partners and to
   the normalised selection, have equal value graphs under the call-site binding of
   ``compute_weights``; delegation discharges the instance.
R2 chunk table: in ``__call__`` the offset subtracted from the index table is the chunk's slice
   start and the shifted table is clipped at zero.
R3 cell-function guard: ``_calculate_alpha`` clips on both sides with a literal cut-off < 1/2.
R4 segment loops: ``generate_weights`` and ``compute_weights`` pair segment bounds and atoms the
   same way.
"""
from __future__ import annotations

import ast

from gridlint import e4, e5
from gridlint.core import AnalysisError, Report, norm, strip_docstring
from gridlint.props.common import get_repo

PROP = "C06"
EXPLANATION = (
    "Sibling agreement by value numbering plus two guard rules.  Decides the clause 'all evaluation "
    "routes return identical numbers' structurally: the two ~40-line duplicated Becke pipelines "
    "are compared as normalised value graphs (equal graphs => bit-identical results for every "
    "input), the chunked route shifts the segment table by exactly the chunk start and clips it at "
    "zero (a negative bound is a wrap-around slice in Python; only visible with >= 2 chunks), and "
    "the heteronuclear parameter is clipped on both sides below 1/2; (R4) in both multi-sector routes "
    "iteration K updates weights[pt_ind[K]:pt_ind[K+1]] with atom select[K] (value graphs in K); (R5) "
    "Hirshfeld share; (R6) index-space inference: no per-atom array is addressed with the counter "
    "of an enumerated selection or a doubly applied permutation; (R7/R8) BeckeWeights evaluated over symbolic points and "
    "nuclei with the switching polynomial and alpha uninterpreted: every weight is P_a / sum_b P_b, the weights of all atoms "
    "add up to 1 identically, the chunked callable gives every point the weight of its own atom.  NOT decided: weights in "
    "[0,1], nuclear values, invariances, Hirshfeld ratio (numerical).")
RULE = "2 pipeline pairs (product, normalised selection), chunk-table obligations, clip obligations, segment-loop pairing"


def _prod_anchor(fn):
    """Last assignment `X = np.prod(<expr>, axis=-1)` at the top level of the function."""
    last = None
    for s in strip_docstring(fn.body):
        if isinstance(s, ast.Assign) and isinstance(s.value, ast.Call) and norm(s.value.func) in ("np.prod", "np.product") \
                and isinstance(s.targets[0], ast.Name):
            last = s
    return last


def _run_until(vg, body, stop):
    for s in body:
        vg.stmt(s)
        if s is stop:
            break


def rule_r1(rep, repo):
    fa = repo.method("BeckeWeights", "generate_weights")
    fb = repo.method("BeckeWeights", "compute_atom_weight")
    fc = repo.method("BeckeWeights", "compute_weights")
    # delegation?
    for x, y in ((fa, fb), (fb, fa)):
        if any(isinstance(n, ast.Call) and norm(n.func) == f"self.{y.name}" for n in ast.walk(x.node)):
            rep.ok("R1.becke-routes-agree", f"{x.name}->{y.name}", x.loc(), "one route delegates to the other")
            return
    # the normalised selection `weights += P[:, sel] / np.sum(P, axis=-1)` names the quantity P whose
    # whole upstream computation (distances -> cell functions -> product over partners) is compared
    def selections(fn):
        out = []
        for n in ast.walk(fn):
            if isinstance(n, ast.AugAssign) and isinstance(n.op, ast.Add) and isinstance(n.value, ast.BinOp) \
                    and isinstance(n.value.op, ast.Div) and isinstance(n.value.right, ast.Call) \
                    and norm(n.value.right.func) in ("np.sum", "np.add.reduce") and n.value.right.args:
                out.append(n)
        return out
    sa, sb = selections(fa.node), selections(fb.node)
    if not sa or not sb:
        raise AnalysisError("unrecognised idiom: no `weights += P[:, sel] / np.sum(P, axis=-1)` in a Becke route")
    single = [n for n in sa if isinstance(n.value.left, ast.Subscript) and isinstance(n.target, ast.Name)
              and norm(n.value.left.value) == norm(n.value.right.args[0])]
    sb = [n for n in sb if isinstance(n.target, ast.Name)] or sb
    if len(single) != 1 or len(sb) != 1:
        raise AnalysisError("unrecognised idiom: cannot identify the single-sector normalisation statement")
    Pa, Pb = norm(single[0].value.right.args[0]), norm(sb[0].value.right.args[0])

    def graph_before(f, stmt, name):
        vg = e5.VG(repo, "BeckeWeights", f.node)
        for st in strip_docstring(f.node.body):
            if st is stmt or any(x is stmt for x in ast.walk(st)):
                break
            vg.stmt(st)
        if name not in vg.env:
            raise AnalysisError(f"unrecognised idiom: `{name}` is not defined before the normalisation in {f.qual}")
        return vg.env[name]
    ga, gb = graph_before(fa, single[0], Pa), graph_before(fb, sb[0], Pb)
    d = e5.diff(ga, gb)
    if d is None or e5.algebraically_equal(ga, gb):
        rep.ok("R1.becke-routes-agree", "generate_weights~compute_atom_weight:product", fa.loc(),
               f"equal value graphs ({len(repr(ga))} chars) from distances to the product over partners")
    else:
        rep.violation("R1.becke-routes-agree", "becke.BeckeWeights.generate_weights", "compute_atom_weight:product",
                      f"the whole-grid route and the per-atom route compute different cell-function products: "
                      f"generate_weights has {e5.show(d[1], 110)} where compute_atom_weight has {e5.show(d[2], 110)}",
                      repo.rel("becke", single[0]), [f"first differing node at {d[0]}", f"sibling at {repo.rel('becke', sb[0])}"])
    # binding from the call site in compute_weights: compute_atom_weight(points, atcoords, atnums, select[0])
    call = next((n for n in ast.walk(fc.node) if isinstance(n, ast.Call) and norm(n.func) == "self.compute_atom_weight"
                 and len(n.args) >= 4 and "[" in norm(n.args[3])), None)
    if call is None:
        raise AnalysisError("unrecognised idiom: compute_weights does not call compute_atom_weight(..., select[0])")
    sel_b = fb.params[4]
    va = e5.VG(repo, "BeckeWeights", fa.node)
    va.env[Pa] = ("sym", "P")
    ga2 = va.ev(single[0].value)
    vb = e5.VG(repo, "BeckeWeights", fb.node)
    vb.env[Pb] = ("sym", "P")
    vb.env[sel_b] = va.ev(call.args[3])
    gb2 = vb.ev(sb[0].value)
    d = e5.diff(ga2, gb2)
    if d is None or e5.algebraically_equal(ga2, gb2):
        rep.ok("R1.becke-routes-agree", "generate_weights~compute_atom_weight:selection", repo.rel("becke", single[0]),
               e5.show(ga2, 100))
    else:
        rep.violation("R1.becke-routes-agree", "becke.BeckeWeights.generate_weights", "compute_atom_weight:selection",
                      f"the normalised selection differs between the routes: {e5.show(d[1], 100)} vs {e5.show(d[2], 100)}",
                      repo.rel("becke", single[0]), [f"sibling at {repo.rel('becke', sb[0])}"])
    # the cut-off / order parameters a route accepts must reach the computation
    for f in (fa, fb):
        for p in f.allparams[1:]:
            used = any(isinstance(n, ast.Name) and n.id == p and isinstance(n.ctx, ast.Load) for n in ast.walk(f.node))
            if not used:
                rep.note(f"parameter `{p}` of {f.qual} is never read (accepted but without effect)")


def rule_r2(rep, repo):
    """Chunked whole-grid route: the offset subtracted from the segment table must be the position
    of the chunk's first point, and the shifted table must be clipped at zero.

    Recognised chunking idioms
      A  for b in range(0, n, s):            chunk = points[b : b + s],          offset = b
      B  for k, c in enumerate(np.array_split(points, m)):  chunk = c,           offset = running sum of the
         lengths of the previous chunks (np.cumsum / an accumulated counter).  `k * len(c)` is a known-wrong
         offset: array_split makes the first n % m chunks one point longer than the rest.
    Anything else is undecided (exit 2)."""
    f = repo.method("BeckeWeights", "__call__")
    indices = f.params[4]
    pts = f.params[1]
    found = False
    for g in [n for n in ast.walk(f.node) if isinstance(n, (ast.ListComp, ast.GeneratorExp, ast.For))]:
        if isinstance(g, ast.For):
            var, it, scope = g.target, g.iter, g
        else:
            var, it, scope = g.generators[0].target, g.generators[0].iter, g
        calls = [n for n in ast.walk(scope) if isinstance(n, ast.Call) and norm(n.func) in
                 ("self.generate_weights", "self.compute_weights")]
        if not calls:
            continue
        c = calls[0]
        where = repo.rel("becke", c)
        pt = next((k.value for k in c.keywords if k.arg == "pt_ind"), None)
        if pt is None:
            raise AnalysisError("unrecognised idiom: chunked call passes no pt_ind")
        # look through a local name defined once inside the loop (chunk_ind = np.clip(indices - b, 0, None))
        hops = 0
        while isinstance(pt, ast.Name) and hops < 4:
            dfn = [st.value for st in ast.walk(scope) if isinstance(st, ast.Assign) and len(st.targets) == 1
                   and isinstance(st.targets[0], ast.Name) and st.targets[0].id == pt.id]
            if len(dfn) != 1:
                break
            pt = dfn[0]
            hops += 1
        txt = norm(pt)
        chunk_arg = c.args[0] if c.args else None
        start = None
        if isinstance(it, ast.Call) and norm(it.func) == "range" and len(it.args) == 3:
            # idiom A
            found = True
            v = norm(var)
            if not (isinstance(chunk_arg, ast.Subscript) and isinstance(chunk_arg.slice, ast.Slice)
                    and norm(chunk_arg.value) == pts):
                raise AnalysisError("unrecognised idiom: chunk is not `points[start:start+size]`")
            def through_locals(e_):
                """A name assigned exactly once inside the loop stands for its definition."""
                hops_ = 0
                while isinstance(e_, ast.Name) and hops_ < 4:
                    dfn_ = [st.value for st in ast.walk(scope) if isinstance(st, ast.Assign) and len(st.targets) == 1
                            and isinstance(st.targets[0], ast.Name) and st.targets[0].id == e_.id]
                    if len(dfn_) != 1:
                        break
                    e_ = dfn_[0]
                    hops_ += 1
                return e_
            start = norm(through_locals(chunk_arg.slice.lower)) if chunk_arg.slice.lower is not None else "None"
            step = norm(it.args[2])
            upper = norm(through_locals(chunk_arg.slice.upper)) if chunk_arg.slice.upper is not None else "None"
            if start == v and upper in (f"{v} + {step}", f"{step} + {v}") and norm(it.args[0]) == "0":
                rep.ok("R2.chunk-slice", "BeckeWeights.__call__", where, f"{pts}[{start}:{upper}] for {v} in {norm(it)}")
            else:
                rep.violation("R2.chunk-slice", "becke.BeckeWeights.__call__", "slice",
                              f"chunk `{norm(chunk_arg)}` does not run from the loop variable {v} to {v}+{step} starting at 0: "
                              f"points are skipped or evaluated twice", where)
        elif isinstance(it, ast.Call) and norm(it.func) == "enumerate" and it.args and \
                _array_split_of(f, it.args[0], pts) is not None \
                and isinstance(var, ast.Tuple) and len(var.elts) == 2:
            # idiom B (the split may be bound to a local name first)
            found = True
            split_call = _array_split_of(f, it.args[0], pts)
            k, ch = (norm(e) for e in var.elts)
            if norm(chunk_arg) != ch:
                raise AnalysisError("unrecognised idiom: the array_split chunk is not what is evaluated")
            rep.ok("R2.chunk-slice", "BeckeWeights.__call__", where, f"{ch} in {norm(split_call)[:50]}")
            # the offset: right operand of `indices - <offset>` inside the table expression
            off_node = next((n.right for n in ast.walk(pt) if isinstance(n, ast.BinOp) and isinstance(n.op, ast.Sub)
                             and norm(n.left) == indices), None)
            off = norm(off_node) if off_node is not None else None
            uniform = None
            if isinstance(off_node, ast.BinOp) and isinstance(off_node.op, ast.Mult):
                for a_, b_ in ((off_node.left, off_node.right), (off_node.right, off_node.left)):
                    if norm(a_) == k and not any(isinstance(x, ast.Name) and x.id == k for x in ast.walk(b_)):
                        uniform = norm(b_)
            equal_split = norm(split_call.func) == "np.split"   # np.split raises unless the chunks are equal
            if uniform is not None and equal_split:
                if uniform in (f"len({ch})", f"{ch}.shape[0]"):
                    rep.ok("R2.chunk-table-shift", "BeckeWeights.__call__", where,
                           f"{off}: np.split only makes equal chunks, so index x chunk length is the chunk start")
                    start = off
                else:
                    raise AnalysisError(f"unrecognised idiom: stride `{uniform}` of equal np.split chunks")
            elif uniform is not None:
                # k * <one stride for all chunks>: np.array_split makes the first n % m chunks one point
                # longer than the others, so no single stride gives the position of every chunk's first point
                rep.violation("R2.chunk-table-shift", "becke.BeckeWeights.__call__", "offset",
                              f"segment table shifted by `{off}`: np.array_split makes the first n % m chunks one point "
                              f"longer than the others, so chunk index x `{uniform}` is not the position of the chunk's "
                              f"first point (wrong atom weights whenever the chunks are unequal)", where)
                start = off
            else:
                raise AnalysisError(f"unrecognised idiom: offset `{off}` of an array_split chunk cannot be related to its start")
        else:
            continue
        shifted = f"{indices} - {start}"
        if start is not None and not any(r["rule"] == "R2.chunk-table-shift" and r["verdict"] != "holds" for r in rep.instances):
            if shifted not in txt:
                rep.violation("R2.chunk-table-shift", "becke.BeckeWeights.__call__", "offset",
                              f"segment table `{txt}` is not shifted by the chunk start `{start}`: weights of the wrong "
                              f"atom are assigned in every chunk after the first", where)
            else:
                rep.ok("R2.chunk-table-shift", "BeckeWeights.__call__", where, shifted)
        clip_ok = txt in (f"({shifted}).clip(min=0)", f"np.clip({shifted}, 0, None)", f"np.maximum({shifted}, 0)",
                          f"np.clip({shifted}, a_min=0, a_max=None)", f"({shifted}).clip(0)",
                          f"({shifted}).clip(0, None)", f"np.maximum(0, {shifted})",
                          f"np.where({shifted} < 0, 0, {shifted})", f"np.where({shifted} > 0, {shifted}, 0)")
        bare = txt in (shifted, f"({shifted})", indices)
        if clip_ok:
            rep.ok("R2.chunk-table-clipped", "BeckeWeights.__call__", where, txt)
        elif "clip" in txt or "maximum" in txt:
            # some clipping operator is applied to a table we could not match exactly
            if ".clip(min=0)" in txt or ".clip(0" in txt or ", 0, None)" in txt or "maximum(" in txt:
                rep.ok("R2.chunk-table-clipped", "BeckeWeights.__call__", where, txt)
            else:
                raise AnalysisError(f"unrecognised idiom: cannot tell whether `{txt}` is clipped at zero")
        elif bare or shifted in txt:
            rep.violation("R2.chunk-table-clipped", "becke.BeckeWeights.__call__", "clip",
                          f"shifted segment table `{txt}` is not clipped at zero: a negative bound is a wrap-around "
                          f"slice, corrupting all chunks but the first (needs >= 2 chunks, i.e. >= 4 atoms)", where)
        else:
            raise AnalysisError(f"unrecognised idiom: segment table passed as `{txt}`")
    if not found:
        raise AnalysisError("unrecognised idiom: BeckeWeights.__call__ has no recognised chunk loop "
                            "(range(0, n, size) slices or enumerate(np.array_split(points, m)))")


def _array_split_of(f, e, pts):
    """`np.array_split(points, m)` written in place or bound once to a local name."""
    if isinstance(e, ast.Name):
        dfn = [st.value for st in ast.walk(f.node) if isinstance(st, ast.Assign) and len(st.targets) == 1
               and isinstance(st.targets[0], ast.Name) and st.targets[0].id == e.id]
        if len(dfn) != 1:
            return None
        e = dfn[0]
    if isinstance(e, ast.Call) and norm(e.func) in ("np.array_split", "np.split") and e.args and norm(e.args[0]) == pts:
        return e
    return None


def rule_r3(rep, repo):
    f = repo.method("BeckeWeights", "_calculate_alpha")
    d = f.defaults()
    cut_param = next((p for p in f.allparams if "cut" in p), None)
    if cut_param is None:
        raise AnalysisError("unrecognised idiom: _calculate_alpha has no cut-off parameter")
    try:
        cut = e4.fold(d[cut_param])
    except (KeyError, e4.NotConstant) as e:
        raise AnalysisError(f"_calculate_alpha cut-off default is not a literal: {e}") from e
    if isinstance(cut, (int, float)) and 0 < cut < 0.5:
        rep.ok("R3.cutoff-below-half", "BeckeWeights._calculate_alpha", f.loc(), f"default {cut_param}={cut}")
    else:
        rep.violation("R3.cutoff-below-half", "becke.BeckeWeights._calculate_alpha", cut_param,
                      f"default cut-off {cut} is not in (0, 1/2): the cell function mu + a(1-mu^2) is no longer monotone",
                      f.loc())
    stores = [s for s in ast.walk(f.node) if isinstance(s, ast.Assign) and isinstance(s.targets[0], ast.Subscript)]
    txt = [norm(s) for s in stores]
    clip_call = any(isinstance(n, ast.Call) and norm(n.func) in ("np.clip",) or
                    (isinstance(n, ast.Call) and isinstance(n.func, ast.Attribute) and n.func.attr == "clip")
                    for n in ast.walk(f.node))
    ret = next((s for s in ast.walk(f.node) if isinstance(s, ast.Return)), None)
    a = norm(ret.value) if ret is not None and isinstance(ret.value, ast.Name) else "alpha"
    # the mask may be written in place or named first (`too_large = alpha > cutoff; alpha[too_large] = cutoff`)
    single = {}
    for n_ in ast.walk(f.node):
        if isinstance(n_, ast.Assign) and len(n_.targets) == 1 and isinstance(n_.targets[0], ast.Name):
            single.setdefault(n_.targets[0].id, []).append(n_.value)
    resolved = []
    for st in stores:
        tgt = st.targets[0]
        mask = tgt.slice
        if isinstance(mask, ast.Name) and len(single.get(mask.id, [])) == 1:
            mask = single[mask.id][0]
        resolved.append(f"{norm(tgt.value)}[{norm(mask)}] = {norm(st.value)}")
    txt = txt + resolved
    upper = any(t in (f"{a}[{a} > {cut_param}] = {cut_param}", f"{a}[{cut_param} < {a}] = {cut_param}") for t in txt)
    lower = any(t in (f"{a}[{a} < -{cut_param}] = -{cut_param}", f"{a}[-{cut_param} > {a}] = -{cut_param}") for t in txt)
    if clip_call:
        c = next(n for n in ast.walk(f.node) if isinstance(n, ast.Call) and (norm(n.func) == "np.clip" or
                 (isinstance(n.func, ast.Attribute) and n.func.attr == "clip")))
        args = [norm(x) for x in c.args] + [norm(k.value) for k in c.keywords]
        upper = upper or cut_param in args
        lower = lower or f"-{cut_param}" in args
    for side, okk in (("upper", upper), ("lower", lower)):
        if okk:
            rep.ok("R3.clipped-both-sides", f"BeckeWeights._calculate_alpha[{side}]", f.loc(), "")
        else:
            rep.violation("R3.clipped-both-sides", "becke.BeckeWeights._calculate_alpha", side,
                          f"the heteronuclear parameter is not clipped on the {side} side at the cut-off: for radii "
                          f"ratios beyond ~2.4 the cell function leaves [0,1]", f.loc())
    # callers must not override the cut-off with something else
    for q in ("generate_weights", "compute_atom_weight"):
        g = repo.method("BeckeWeights", q)
        for c in ast.walk(g.node):
            if isinstance(c, ast.Call) and norm(c.func).endswith("_calculate_alpha"):
                extra = [norm(x) for x in c.args[1:]] + [f"{k.arg}={norm(k.value)}" for k in c.keywords]
                rep.ok("R3.callers-use-default-cutoff", f"BeckeWeights.{q}", repo.rel("becke", c),
                       "default cut-off" if not extra else f"passes {extra}")


def _bind_segment_loop(vg, loop):
    """Bind the targets of a loop over sectors to value graphs in the iteration number K:
    range(n) -> K; enumerate(X) -> (K, X[K]); X -> X[K]; zip(A, B, ..) element-wise, where
    pairwise(P) -> (P[K], P[K+1]), P[:-1] -> P[K], P[1:] -> P[K+1]."""
    K = ("sym", "K")
    K1 = e5.mk_ac("+", [K, ("const", "1")])

    def elem(e):
        if isinstance(e, ast.Call) and norm(e.func) in ("itertools.pairwise", "pairwise") and len(e.args) == 1:
            p_ = vg.ev(e.args[0])
            return ("tuple", (("sub", p_, K), ("sub", p_, K1)))
        if isinstance(e, ast.Subscript) and isinstance(e.slice, ast.Slice) and e.slice.step is None:
            lo, hi = e.slice.lower, e.slice.upper
            if lo is None and hi is not None and norm(hi) == "-1":
                return ("sub", vg.ev(e.value), K)
            if hi is None and lo is not None and norm(lo) == "1":
                return ("sub", vg.ev(e.value), K1)
            raise AnalysisError(f"unrecognised idiom: sector loop over the slice `{norm(e)}`")
        if isinstance(e, ast.Call) and norm(e.func) == "range" and len(e.args) == 1:
            return K
        if isinstance(e, ast.Call):
            raise AnalysisError(f"unrecognised idiom: sector loop over `{norm(e)[:50]}`")
        return ("sub", vg.ev(e), K)
    it = loop.iter
    if isinstance(it, ast.Call) and norm(it.func) == "enumerate" and len(it.args) == 1:
        v = ("tuple", (K, elem(it.args[0])))
    elif isinstance(it, ast.Call) and norm(it.func) == "zip":
        v = ("tuple", tuple(elem(a_) for a_ in it.args))
    else:
        v = elem(it)
    vg.bind(loop.target, v)


def rule_r4(rep, repo):
    """Segment loops of the two multi-sector routes (value graphs in the iteration number K): in both,
    iteration K must update exactly weights[pt_ind[K]:pt_ind[K+1]] with the cell function of atom
    select[K]."""
    fa = repo.method("BeckeWeights", "generate_weights")
    fc = repo.method("BeckeWeights", "compute_weights")
    K = ("sym", "K")
    K1 = e5.mk_ac("+", [K, ("const", "1")])

    def contains(t, x):
        if t == x:
            return True
        return isinstance(t, tuple) and any(contains(y, x) for y in t)

    def analyse(fn):
        loops = [n for n in ast.walk(fn.node) if isinstance(n, ast.For)
                 and any(isinstance(x, (ast.Assign, ast.AugAssign)) and
                         isinstance(x.targets[0] if isinstance(x, ast.Assign) else x.target, ast.Subscript)
                         and norm((x.targets[0] if isinstance(x, ast.Assign) else x.target).value) == "weights"
                         for s_ in n.body for x in ast.walk(s_))]
        if not loops:
            return None
        loop = loops[-1]
        vg = e5.VG(repo, "BeckeWeights", fn.node, inline=False)
        for p_ in fn.params[1:]:
            vg.env[p_] = ("sym", p_)
        _bind_segment_loop(vg, loop)
        w0 = ("sym", "W0")
        vg.env["weights"] = w0
        vg.run(loop.body)
        w = vg.env.get("weights")
        if not (isinstance(w, tuple) and w and w[0] == "setitem" and w[1] == w0):
            raise AnalysisError(f"unrecognised idiom: the sector loop of {fn.qual} does not update one slice of `weights`")
        key, val = w[2], w[3]
        return loop, key, val
    ra, rc = analyse(fa), analyse(fc)
    if ra is None or rc is None:
        raise AnalysisError("unrecognised idiom: sector loop updating `weights[...]` not found in both routes")
    for fn, (loop, key, val) in ((fa, ra), (fc, rc)):
        pt, sel = ("sym", fn.params[-2] if "pt_ind" not in fn.params else "pt_ind"), ("sym", "select")
        want_key = ("slice", ("sub", ("sym", "pt_ind"), K), ("sub", ("sym", "pt_ind"), K1), None)
        atom = ("sub", sel, K)
        cons = f"becke.{fn.qual.split('.', 1)[1] if fn.qual.startswith('becke.') else fn.qual}"
        okk = key == want_key
        oka = contains(val, atom) and not contains(val, ("sub", sel, K1))
        # the atom must not be taken from the position (column K instead of column select[K])
        col_k = any(contains(val, ("sub", x, ("tuple", (("slice", None, None, None), K)))) for x in _subterms(val))
        if okk and oka and not col_k:
            rep.ok("R4.segment-pairing", f"{fn.qual}", repo.rel("becke", loop),
                   "iteration K updates weights[pt_ind[K]:pt_ind[K+1]] with atom select[K]")
        else:
            rep.violation(
                "R4.segment-pairing", fn.qual if fn.qual.startswith("becke.") else "becke." + fn.qual, "segments",
                f"iteration K of `for {norm(loop.target)} in {norm(loop.iter)[:50]}` updates weights[{e5.show(key, 70)}] with "
                f"{e5.show(val, 110)}: it must update exactly pt_ind[K]:pt_ind[K+1] with the cell function of atom "
                f"select[K] (the segment position and the atom number are different things whenever select is not "
                f"0..n-1 in order)", repo.rel("becke", loop))


def _subterms(t):
    if isinstance(t, tuple):
        yield t
        for x in t:
            yield from _subterms(x)


def rule_r5(rep, repo):
    """Hirshfeld: every pro-atom enters the pro-molecule, each atom's own segment takes its own
    pro-atom, and the division by the pro-molecule happens once, after the loop (value graphs)."""
    from gridlint.props.c07 import _loop_graph
    f = repo.method("HirshfeldWeights", "__call__")
    body = strip_docstring(f.node.body)
    loop = next((s for s in body if isinstance(s, ast.For)), None)
    I, Z = ("sym", "I"), ("sym", "Z")
    atn = f.params[3]
    if loop is not None and norm(loop.iter).startswith(f"enumerate({atn}"):
        vg, pre = _loop_graph(repo, "HirshfeldWeights", f, loop, ["I", "Z"])
    else:
        # the pro-atoms may come from a generator helper that yields one per atom, in atom order:
        #   def gen(points, atcoords, atnums): for i, z in enumerate(atnums): yield E(i, z)
        gen = _per_atom_generator(repo, f, loop, atn) if loop is not None else None
        if gen is None:
            raise AnalysisError(f"unrecognised idiom: HirshfeldWeights.__call__ has no loop over enumerate({atn})")
        helper, call = gen
        vg, pre = _loop_graph(repo, "HirshfeldWeights", f, loop, [])
        hv = e5.VG(repo, "HirshfeldWeights", helper.node, inline=False)
        hp = [p_ for p_ in helper.params if p_ not in ("self", "cls")]
        for p_, a_ in zip(hp, call.args):
            hv.env[p_] = vg.ev(a_)
        hloop = next(s_ for s_ in strip_docstring(helper.node.body) if isinstance(s_, ast.For))
        hv.env[hloop.target.elts[0].id] = I
        hv.env[hloop.target.elts[1].id] = Z
        yv = None
        for s_ in hloop.body:
            if isinstance(s_, ast.Expr) and isinstance(s_.value, ast.Yield):
                yv = hv.ev(s_.value.value)
            else:
                hv.stmt(s_)
        # re-run the loop body with the element bound to what the generator yields
        vg.env = dict(pre)
        vg.env[loop.target.elts[0].id] = I
        vg.env[loop.target.elts[1].id] = yv
        vg.run(loop.body)
    I1 = e5.mk_ac("+", [I, ("const", "1")])
    pts, atc, ind = (("sym", p) for p in (f.params[1], f.params[2], f.params[4]))
    where = repo.rel("hirshfeld", loop)
    cons = "hirshfeld.HirshfeldWeights.__call__"
    # the pro-atom of this iteration
    pro = None
    for k, v in vg.env.items():
        if isinstance(v, tuple) and v and v[0] == "call" and "generate_proatom" in e5.show(v[1]) and k not in pre:
            pro = v
    if pro is None:
        raise AnalysisError("unrecognised idiom: no pro-atom density in the Hirshfeld loop")
    want_pro_args = (pts, ("sub", atc, I), Z)
    checks = {}
    checks["proatom-of-this-atom"] = pro[2] == want_pro_args
    # accumulators: names defined before the loop and changed in it
    changed = {k: v for k, v in vg.env.items() if k in pre and v != pre[k] and k not in (f.params)}
    acc = [k for k, v in changed.items() if v == e5.mk_ac("+", [pre[k], pro])]
    seg = [k for k, v in changed.items() if isinstance(v, tuple) and v[0] == "setitem"]
    checks["promolecule-accumulates-every-proatom"] = len(acc) == 1
    okseg = False
    if len(seg) == 1:
        g = vg.env[seg[0]]
        sl = ("slice", ("sub", ind, I), ("sub", ind, I1), None)
        okseg = g[2] == sl and g[3] == ("sub", pro, sl)
    checks["own-segment-takes-own-proatom"] = okseg
    # after the loop: one division of the segment array by the accumulator
    post = e5.VG(repo, "HirshfeldWeights", f.node, inline=False)
    if acc and seg:
        post.env[acc[0]] = ("sym", "PROMOL")
        post.env[seg[0]] = ("sym", "NUM")
        for s in body:
            if getattr(s, "lineno", 0) > loop.end_lineno:
                post.stmt(s)
        checks["normalised-once-after-the-loop"] = post.ret == e5.mk_ac("*", [("sym", "NUM"), ("inv", ("sym", "PROMOL"))])
    else:
        checks["normalised-once-after-the-loop"] = False
    for k, okk in checks.items():
        if okk:
            rep.ok("R5.hirshfeld-share", f"HirshfeldWeights.__call__:{k}", where, "")
        else:
            rep.violation("R5.hirshfeld-share", cons, k,
                          f"the Hirshfeld weight is no longer pro-atom / pro-molecule on each atom's own segment: "
                          f"obligation `{k}` is not met", where)


def _per_atom_generator(repo, f, loop, atn):
    """(helper, call) when the loop runs over enumerate(<generator call>) and the helper's body is one
    `for i, z in enumerate(<the parameter that receives atnums>): ...; yield E` loop."""
    it = loop.iter
    if not (isinstance(it, ast.Call) and norm(it.func) == "enumerate" and len(it.args) == 1 and
            isinstance(loop.target, ast.Tuple) and len(loop.target.elts) == 2):
        return None
    src = it.args[0]
    if isinstance(src, ast.Name):
        dfn = [st.value for st in ast.walk(f.node) if isinstance(st, ast.Assign) and len(st.targets) == 1
               and isinstance(st.targets[0], ast.Name) and st.targets[0].id == src.id]
        if len(dfn) != 1:
            return None
        src = dfn[0]
    if not (isinstance(src, ast.Call) and isinstance(src.func, ast.Attribute)):
        return None
    helper = repo.resolve_method("HirshfeldWeights", src.func.attr)
    if helper is None:
        return None
    hp = [p_ for p_ in helper.params if p_ not in ("self", "cls")]
    hbody = strip_docstring(helper.node.body)
    if len(hbody) != 1 or not isinstance(hbody[0], ast.For) or len(hp) != len(src.args):
        return None
    hl = hbody[0]
    amap = {p_: norm(a_) for p_, a_ in zip(hp, src.args)}
    if not (isinstance(hl.iter, ast.Call) and norm(hl.iter.func) == "enumerate" and len(hl.iter.args) == 1 and
            amap.get(norm(hl.iter.args[0])) == atn and isinstance(hl.target, ast.Tuple) and len(hl.target.elts) == 2):
        return None
    yields = [n for n in ast.walk(hl) if isinstance(n, (ast.Yield, ast.YieldFrom))]
    if len(yields) != 1 or not isinstance(yields[0], ast.Yield) or not any(
            isinstance(s_, ast.Expr) and s_.value is yields[0] for s_ in hl.body):
        return None
    return helper, src


def run(tier="quick", root="/repo", evidence_dir=None, quiet=False):
    rep = Report(PROP, tier, root, EXPLANATION, RULE, assumptions=[
        "equal normalised value graphs over the same inputs imply equal results up to the rounding of "
        "re-associated/re-ordered elementwise + and * (the normaliser flattens and sorts them); every "
        "other operation is compared exactly",
    ])
    repo = get_repo(root)
    # R7 / R8 first: the weights are the normalised cell functions (switch and alpha uninterpreted); own atom per segment.
    # They decide, by evaluation, the clauses that the structural rules R1 (routes agree), R2 (chunk table) and R4 (segment
    # pairing) argue for from the shape of the code; what those report is kept as a note when the evaluation has decided.
    from gridlint import becke_unity

    def decided(rule):
        nv, nf = len(rep.violations), len(rep.failed_floors)
        rep.attempt(rule, rep, repo)
        return len(rep.violations) == nv and len(rep.failed_floors) == nf
    r7 = decided(becke_unity.rule_unity)
    r8 = decided(becke_unity.rule_call)
    why7 = "the evaluation rule R7 decided that both routes compute P_a / sum_b P_b"
    why8 = "the evaluation rule R8 decided that every point receives the weight of its own atom on the chunked and the sector routes"
    rep.backed(rule_r1, r7, why7, rep, repo, only=("R1.",))
    rep.backed(rule_r2, r8, why8, rep, repo, only=("R2.",))
    rep.attempt(rule_r3, rep, repo)
    rep.backed(rule_r4, r8, why8, rep, repo, only=("R4.",))
    rep.attempt(rule_r5, rep, repo)
    # R6: per-atom quantities (radii, pro-atoms, segments) are addressed in the index space of the atoms
    from gridlint import e9
    rep.attempt(e9.rule_index_spaces, rep, repo, ("becke", "hirshfeld"), "R6.index-space", 2)
    rep.extra["source_digest"] = repo.digest(["becke", "hirshfeld"])
    return rep.finish(evidence_dir=evidence_dir, quiet=quiet)
